package main

// Reference model of one service (DESIGN.md section 5), written from the
// property statements. Never calls product code.

import (
	"fmt"
	"regexp"
	"strings"
)

type mTransport struct {
	Proto string // "UDP" / "TCP"
	Addr  string
	Port  int
	Entry int // index of the listen entry
}

func (t *mTransport) String() string { return fmt.Sprintf("%s %s:%d", t.Proto, t.Addr, t.Port) }

type mModel struct {
	cfg      labCfg
	names    []string
	patterns []*regexp.Regexp
	learned  map[string]*mTransport // host literal -> listener transport through which it was learned
}

func newModel(cfg labCfg) *mModel {
	m := &mModel{cfg: cfg, learned: map[string]*mTransport{}}
	for _, n := range strings.Split(cfg.Name, ",") {
		n = strings.TrimSpace(n)
		m.names = append(m.names, n)
		if re, err := regexp.Compile(n); err == nil {
			m.patterns = append(m.patterns, re)
		}
	}
	return m
}

func (m *mModel) transport(entry int, proto string) *mTransport {
	l := m.cfg.Listens[entry]
	if strings.EqualFold(proto, "udp") {
		return &mTransport{Proto: "UDP", Addr: l.Addr, Port: l.UDPPort, Entry: entry}
	}
	return &mTransport{Proto: "TCP", Addr: l.Addr, Port: l.TCPPort, Entry: entry}
}

// firstTransport: the transport a listen entry uses to present itself to its backends.
func (m *mModel) firstTransport(entry int) *mTransport {
	l := m.cfg.Listens[entry]
	if l.UDPPort > 0 {
		return m.transport(entry, "udp")
	}
	return m.transport(entry, "tcp")
}

func (m *mModel) receivedSupport(entry int) bool { return m.cfg.Listens[entry].NoReceived != "true" }
func (m *mModel) mustRR(entry int) bool          { return m.cfg.Listens[entry].MustRR == "true" }

// isMine: Request-URI matches a configured service name or designates the
// receiving listener's own address and port.
func (m *mModel) isMine(u AURI, L *mTransport) bool {
	if !u.IsSIP() {
		for _, n := range m.names {
			if u.Abs == n {
				return true
			}
		}
		for _, p := range m.patterns {
			if p.MatchString(u.Abs) {
				return true
			}
		}
		return false
	}
	if u.Host == L.Addr && u.EffPort() == L.Port {
		return true
	}
	for _, n := range m.names {
		if i := strings.Index(n, "@"); i < 0 {
			if u.Host == n {
				return true
			}
		} else if u.Host == n[i+1:] && u.User == n[:i] {
			return true
		}
	}
	uh := u.User + "@" + u.Host
	for _, p := range m.patterns {
		if p.MatchString(uh) {
			return true
		}
	}
	return false
}

func mGlob(pat, s string) bool {
	if pat == "" {
		return s == ""
	}
	if pat[0] == '*' {
		for i := 0; i <= len(s); i++ {
			if mGlob(pat[1:], s[i:]) {
				return true
			}
		}
		return false
	}
	return s != "" && pat[0] == s[0] && mGlob(pat[1:], s[1:])
}

type mHop struct {
	Host  string // as written
	IP    string // resolved ("" = unresolvable)
	Port  int
	Proto string // lower case
}

// staticRoute returns the admissible next hops for a To host (several when
// more than one wildcard matches: the statement fixes no order among them).
func (m *mModel) staticRoute(host string) []mHop {
	mk := func(r labRouteCfg) mHop {
		h := mHop{Proto: strings.ToLower(r.Protocol)}
		if i := strings.LastIndex(r.NextHop, ":"); i >= 0 {
			h.Host = r.NextHop[:i]
			fmt.Sscanf(r.NextHop[i+1:], "%d", &h.Port)
		} else {
			h.Host = r.NextHop
			h.Port = 5060
			if h.Proto == "tls" {
				h.Port = 5061
			}
		}
		h.IP, _ = m.cfg.resolve(h.Host)
		return h
	}
	var wild []mHop
	var def *mHop
	for _, r := range m.cfg.Routes {
		for _, d := range r.Dests {
			if d == host {
				return []mHop{mk(r)}
			}
			if strings.Contains(d, "*") && mGlob(d, host) {
				wild = append(wild, mk(r))
			}
			if d == "default" {
				h := mk(r)
				def = &h
			}
		}
	}
	if len(wild) > 0 {
		return wild
	}
	if def != nil {
		return []mHop{*def}
	}
	return nil
}

// designates: does a Route URI designate listener transport L?
func (m *mModel) designates(u AURI, L *mTransport) bool {
	if !u.IsSIP() || u.EffPort() != L.Port {
		return false
	}
	if u.Host == L.Addr {
		return true
	}
	a, ok1 := m.cfg.resolve(u.Host)
	b, ok2 := m.cfg.resolve(L.Addr)
	return ok1 && ok2 && a == b
}

type mOutcome struct {
	Drop        bool
	Why         string
	ToBackend   bool
	Hops        []mHop // admissible next hops (one, except for wildcard ties)
	ConsumedOwn bool   // first Route entry consumed
	PoppedHop   bool   // next-hop Route entry stripped
	RouteLeft   []ANameAddr
	Rule        string // "route", "static", "backend", "none"
	Applicable  int    // how many of the three rules would apply (precedence decides when > 1)
}

// learnRequest applies the learning step of a request received on L.
func (m *mModel) learnRequest(L *mTransport, srcIP string, msg *AMsg) {
	m.learned[srcIP] = L
	for _, h := range msg.Hdrs {
		if h.Kind != hVia {
			continue
		}
		// a line with an entry the proxy cannot decode is opaque to it as a whole:
		// none of its entries teaches it anything
		opaque := false
		for _, v := range h.Vias {
			opaque = opaque || v.Raw != ""
		}
		for _, v := range h.Vias {
			if !opaque {
				m.learned[v.Host] = L
			}
		}
	}
}

// route decides the destination of a request received on listener transport L.
func (m *mModel) route(L *mTransport, msg *AMsg) mOutcome {
	var o mOutcome
	routes := msg.NAList(hRoute)
	if len(routes) > 0 && m.designates(routes[0].URI, L) {
		o.ConsumedOwn = true
		routes = routes[1:]
	}
	toHost := ""
	if to := msg.First(hTo); to != nil && len(to.NAs) == 1 && to.NAs[0].URI.IsSIP() {
		toHost = to.NAs[0].URI.Host
	}
	var static []mHop
	if toHost != "" || (msg.First(hTo) != nil && len(msg.First(hTo).NAs) == 1 && msg.First(hTo).NAs[0].URI.IsSIP()) {
		static = m.staticRoute(toHost)
	}
	mine := m.isMine(msg.RURI, L)
	if len(routes) > 0 {
		o.Applicable++
	}
	if len(static) > 0 {
		o.Applicable++
	}
	if mine {
		o.Applicable++
	}
	switch {
	case len(routes) > 0:
		o.Rule = "route"
		u := routes[0].URI
		h := mHop{Host: u.Host, Port: u.EffPort(), Proto: strings.ToLower(u.Transport())}
		h.IP, _ = m.cfg.resolve(u.Host)
		o.Hops = []mHop{h}
		if !m.cfg.keepOn() {
			o.PoppedHop = true
			routes = routes[1:]
		}
	case len(static) > 0:
		o.Rule = "static"
		o.Hops = static
	case mine:
		o.Rule = "backend"
		o.ToBackend = true
		if len(m.cfg.Listens[L.Entry].Backends) == 0 {
			o.Drop, o.Why = true, "the receiving listen entry has no backends"
		}
	default:
		o.Rule = "none"
		o.Drop, o.Why = true, "no Route, no static route, Request-URI not the service"
	}
	o.RouteLeft = routes
	if !o.ToBackend && !o.Drop {
		ok := false
		for _, h := range o.Hops {
			if (h.Proto == "udp" || h.Proto == "tcp") && h.IP != "" {
				ok = true
			}
		}
		if !ok {
			o.Drop, o.Why = true, "next hop transport unsupported or host unresolvable"
		}
	}
	return o
}

// responseHop: where a response goes after its top Via entry is discarded.
// ok=false: sent nowhere.
func (m *mModel) responseHop(vias []AVia) (mHop, bool) {
	if len(vias) < 2 {
		return mHop{}, false
	}
	v := vias[1]
	h := mHop{Host: v.Host, Port: v.Port, Proto: strings.ToLower(v.Transport)}
	if h.Port == 0 {
		h.Port = 5060
	}
	if r, _, ok := v.Param("received"); ok {
		h.Host = r
		if rp, hasv, ok := v.Param("rport"); ok && hasv {
			n := 0
			if _, err := fmt.Sscanf(rp, "%d", &n); err == nil && fmt.Sprint(n) == rp {
				h.Port = n
			}
		}
	}
	h.IP, _ = m.cfg.resolve(h.Host)
	if h.IP == "" || (h.Proto != "udp" && h.Proto != "tcp") {
		return h, false
	}
	return h, true
}

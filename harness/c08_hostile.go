//verif:needs core,sip,lab
package main

// C08 - no network input can crash, wedge or balloon the proxy.
// Engines: unit (synchronous pipeline decode -> learn -> stamp -> route -> pin
// -> relay on a Proxy literal with recording backends; rapid structured
// hostile generator; native coverage-guided fuzz target in the thorough tier)
// and lab (hostile and random bytes against real UDP/TCP listeners with a
// liveness sentinel after every batch).

import (
	"bufio"
	"bytes"
	"fmt"
	"math/big"
	"net"
	"os"
	"runtime"
	"strconv"
	"strings"
	"testing"
	"time"

	"pgregory.net/rapid"
)

type c08Backend struct {
	addr string
	n    int
}

func (b *c08Backend) Send(msg *Message) error { b.n++; _, err := msg.Bytes(); return err }
func (b *c08Backend) GetAddress() string      { return b.addr }
func (b *c08Backend) Close()                  {}

type c08Transport struct{ proto string }

func (t *c08Transport) Start(MessageHandler) error       { return nil }
func (t *c08Transport) Send(string, int, *Message) error { return nil }
func (t *c08Transport) GetProtocol() string              { return t.proto }
func (t *c08Transport) GetAddress() string               { return "127.0.0.77" }
func (t *c08Transport) GetPort() int                     { return 5060 }
func (t *c08Transport) IsExit() bool                     { return false }

// c08NewProxy builds a Proxy without its loop goroutine (literal), wired like
// NewProxy + AddItem: service names, static routes into 127/8, host table,
// learned routes, two recording backends.
func c08NewProxy() (*Proxy, []*c08Backend) {
	route := NewPreConfigRoute()
	route.AddRouteItem("udp", "static.test", "127.0.0.78:5070")
	route.AddRouteItem("tcp", "*.tcp.test", "127.0.0.78:5071")
	route.AddRouteItem("tls", "tls.test", "127.0.0.78")
	// (destinations with several wildcards: matching a host against them is part of
	// what every request without Route costs)
	route.AddRouteItem("udp", "*.*.*.w3.test", "127.0.0.78:5070")
	route.AddRouteItem("udp", "a*b*c*.w4.test", "127.0.0.78:5070")
	res := NewPreConfigHostResolver()
	res.AddHostIP("alias.test", "127.0.0.77")
	res.AddHostIP("hop.test", "127.0.0.78")
	// the product's own constructor and AddItem (its loop goroutine stays idle:
	// the pipeline is driven synchronously from the test goroutine)
	p := NewProxy(`svc.test, sos@svc2.test, urn:service:sos, ^.+@emergency\.test$`, 1200, "127.0.0.77", false, route, res, NewSelfLearnRoute(), true, true)
	rb := NewRoundRobinBackend()
	bs := []*c08Backend{{addr: "127.0.0.81:5080"}, {addr: "127.0.0.82:5080"}}
	for _, b := range bs {
		rb.AddBackend(b)
	}
	p.AddItem(&ProxyItem{backend: rb, transports: []ServerTransport{&c08Transport{"UDP"}, &c08Transport{"TCP"}}})
	// the membership events reach the backend index through the loop goroutine
	patientUntil(5*time.Second, 50*time.Microsecond, func() bool { return len(p.backendChangeChannel) == 0 })
	time.Sleep(200 * time.Microsecond)
	return p, bs
}

func isLoopbackOrUnresolvable(p *Proxy, host string) bool {
	if strings.HasPrefix(host, "[") {
		return true // dial fails at once on a malformed address
	}
	ip, err := p.resolver.GetIp(host)
	if err != nil {
		return true // unresolvable: fails fast (DNS is disabled in the harness)
	}
	parsed := net.ParseIP(ip)
	return parsed == nil || parsed.IsLoopback()
}

type c08Stats struct {
	parsed, rejected, neutralised int
}

// c08Pipeline pushes one input through decode and - if it decodes - through
// the proxy, as a UDP-like (tcp=false) or TCP-like (tcp=true) arrival.
// Returns "" or the oracle failure.
func c08Pipeline(p *Proxy, data []byte, tcp bool, stamp bool, peerIP string, peerPort int, st *c08Stats) (fail string) {
	type result struct{ fail string }
	done := make(chan result, 1)
	go func() {
		defer func() {
			if r := recover(); r != nil {
				buf := make([]byte, 4096)
				buf = buf[:runtime.Stack(buf, false)]
				done <- result{fmt.Sprintf("panic: %v\n%s", r, buf)}
			}
		}()
		var ms0, ms1 runtime.MemStats
		runtime.ReadMemStats(&ms0)
		parse := func() *Message {
			var rd *bufio.Reader
			if tcp {
				rd = bufio.NewReader(bytes.NewReader(data))
			} else {
				n := len(data)
				rd = bufio.NewReaderSize(bytes.NewBuffer(append([]byte(nil), data...)), n)
			}
			m, err := ParseMessage(rd)
			if err != nil {
				return nil
			}
			return m
		}
		msg := parse()
		if msg == nil {
			st.rejected++
		} else {
			st.parsed++
			tr := p.items[0].transports[0]
			if tcp {
				tr = p.items[0].transports[1]
			}
			mk := func(m *Message) *RawMessage {
				raw := NewRawMessage(peerIP, peerPort, tr, stamp, m)
				if tcp {
					raw.TcpConn = &c20Conn{name: "inbound", failAfter: -1}
				}
				return raw
			}
			// egress pre-check on a second decode of the same bytes: a TCP dial to an
			// address outside 127/8 could black-hole for minutes (harness hygiene,
			// not an oracle); everything else runs for real
			safe := true
			if probe := parse(); probe != nil {
				p.handleRawMessage(mk(probe))
				var host, transport string
				var err error
				if probe.IsRequest() {
					host, _, transport, err = p.getNextRequestHop(probe)
				} else {
					probe.PopVia()
					host, _, transport, err = p.getNextReponseHop(probe)
				}
				if err == nil && !strings.EqualFold(transport, "udp") && !isLoopbackOrUnresolvable(p, host) {
					safe = false
				}
			}
			if !safe {
				st.neutralised++
			} else {
				raw := mk(msg)
				m2, err := p.handleRawMessage(raw)
				if err == nil {
					p.handleDialog(raw.PeerAddr, raw.PeerPort, m2)
					p.HandleMessage(m2)
				}
			}
			_ = msg.String()
		}
		runtime.ReadMemStats(&ms1)
		grown := ms1.TotalAlloc - ms0.TotalAlloc
		if limit := uint64(512*len(data) + 1024*1024); grown > limit {
			done <- result{fmt.Sprintf("allocation out of proportion: %d bytes allocated for an input of %d bytes (limit %d)", grown, len(data), limit)}
			return
		}
		done <- result{""}
	}()
	r, ok := patientRecv(done, 15*time.Second)
	if !ok {
		return "the pipeline did not return within 15 s (wedged: a lock left held or an endless loop)"
	}
	return r.fail
}

// ---- hostile field values ------------------------------------------------------

var c08CL = []string{"9223372036854775807", "9223372036854775806", "9223372036854775000", "4294967296", "4294967295", "2147483647", "99999999999999", "9999999999", "-1", "+5", "", "abc", "0x10", "1e3", "2147483648", " 5", "5 5", "18446744073709551616", "٣"}
var c08ViaRaw = []string{"[", "[]", "[::", "SIP/2.0/TCP [", "SIP/2.0/UDP [:5060", "SIP/2.0/UDP", "SIP/2.0/UDP :", "SIP/2.0/UDP :5060", "SIP/2.0/UDP a:b:c", "SIP/2.0/UDP h:99999999999999999999", ":", ",", ",,,", ";", "SIP/2.0/UDP h;", "SIP/2.0/UDP h;=;=", "SIP/2.0/UDP h;branch", "SIP/2.0/TCP ];branch=z", "SIP/2.0/TCP [;received=[", "SIP/2.0/UDP h;received=;rport=-1", "SIP/2.0/UDP h;rport=99999999999", "///// h", "SIP/2.0/UDP\th"}
var c08RouteRaw = []string{"<", ">", "<>", "<tel:+1555>", "<urn:service:sos>;lr", "<http://h/>, <sip:127.0.0.78;lr>", "<sip:[>", "<sip:>", "<sip:@>", "<sip::>", "<sip:h:port>", "sip:nobrackets@h", "<sip:127.0.0.78;transport=tls;lr>", "<sip:127.0.0.78;transport=;lr>", "<sip:127.0.0.78;lr>x", "<sip:127.0.0.78;lr>;", "<sip:127.0.0.78;lr>;;", ",", "<sip:a@127.0.0.78:0;lr>", "<sip:a@127.0.0.78:-1;lr>", "<sip:a@127.0.0.78:70000;transport=tcp;lr>", "\"<\" <sip:127.0.0.78>"}
var c08NameAddrRaw = []string{"<", ">", "<>", ";tag=", ";tag=a", "\"unterminated <sip:a@b>;tag=1", "<sip:a@b", ">sip:a@b<", "sip:", "sip:@", "sips:", ":", "", "<sip:a@b>;", "<sip:a@b>;;tag=x", "<sip:a@[>;tag=1", "tel:;tag=x", "<sip:a@b>;tag", "<sip:a@b:99999999999999999999>;tag=1"}
var c08CSeq = []string{"", "INVITE", "1", "99999999999999999999 INVITE", "-1 INVITE", "1 2 3", "x INVITE", "1  INVITE", "1 "}
var c08Start = []string{"", " ", "INVITE", "INVITE sip:a", "INVITE  sip:a@b  SIP/2.0", "INVITE sip:a@b SIP/2.0 extra", "SIP/2.0", "SIP/2.0 200", "SIP/2.0 abc OK", "SIP/2.0 99999999999999999999 OK", "SIP/2.0 0 x", "SIP/2.0 -1 x", "SIP/ 200 OK", "\x00 sip:a@b SIP/2.0", "INVITE sip:[ SIP/2.0", "INVITE sip: SIP/2.0", "INVITE : SIP/2.0", "INVITE sip:a@b:99999999999 SIP/2.0", "INVITE sip:svc.test;;;; SIP/2.0", "INVITE sip:svc.test?? SIP/2.0", strings.Repeat("A ", 200)}

// c08Numbers: decimal texts around every width boundary an integer decoder can
// trip over (int8 ... uint64, float53), both signs, plus oddly written ones.
func c08Numbers() []string {
	seen := map[string]bool{}
	var out []string
	add := func(s string) {
		if !seen[s] {
			seen[s] = true
			out = append(out, s)
		}
	}
	for _, k := range []uint{7, 8, 15, 16, 24, 31, 32, 53, 62, 63, 64} {
		b := new(big.Int).Lsh(big.NewInt(1), k)
		for d := int64(-2); d <= 1; d++ {
			v := new(big.Int).Add(b, big.NewInt(d))
			add(v.String())
			add("-" + v.String())
		}
	}
	// the last few hundred below the top of int64 / int32 (sums with a header size wrap)
	for _, d := range []int64{100, 300, 1000, 4096, 65536} {
		add(new(big.Int).Sub(new(big.Int).Lsh(big.NewInt(1), 63), big.NewInt(d)).String())
		add(new(big.Int).Sub(new(big.Int).Lsh(big.NewInt(1), 31), big.NewInt(d)).String())
	}
	for _, s := range []string{"0", "00", "-0", "+0", "+1", "1", "2", "3", "4", "5", "10", "65534", "65535", "65536", "65537", "70000", "99999", "999999999", "9999999999", "99999999999999", "99999999999999999999", "340282366920938463463374607431768211456", "0x10", "1e3", "1.5", " 1", "1 ", ""} {
		add(s)
	}
	return out
}

// c08NumericCases: ordinary messages in which exactly one number the proxy
// decodes (or may decode) is replaced by a boundary value.
func c08NumericCases() []struct{ Field, Value, Wire string } {
	req := "INVITE sip:u@svc.test{RURIPORT} SIP/2.0\r\nVia: SIP/2.0/{TR} 127.0.0.9{VIAPORT};branch=z9hG4bKnb{N};rport{RPORTQ}\r\n{ROUTE}Max-Forwards: {MAXF}\r\nFrom: <sip:a@b.example{FROMPORT}>;tag=1\r\nTo: <sip:c@d.example{TOPORT}>{TOTAG}\r\nCall-ID: nb{N}\r\nCSeq: {CSEQ} INVITE\r\nExpires: {EXPIRES}\r\nContent-Length: {CL}\r\n\r\nabc"
	resp := "SIP/2.0 {STATUS} OK\r\nVia: SIP/2.0/UDP 127.0.0.77:5060;branch=z9hG4bKpx{N}\r\nVia: SIP/2.0/{TR} 127.0.0.9{VIAPORT};branch=z9hG4bKnb{N};received=127.0.0.9;rport{RPORTQ}\r\nFrom: <sip:a@b.example{FROMPORT}>;tag=1\r\nTo: <sip:c@d.example{TOPORT}>;tag=2\r\nCall-ID: nb{N}\r\nCSeq: {CSEQ} INVITE\r\nExpires: {EXPIRES}\r\nContent-Length: {CL}\r\n\r\nabc"
	def := map[string]string{"RURIPORT": "", "VIAPORT": ":5060", "RPORTQ": "", "ROUTE": "", "MAXF": "70", "FROMPORT": "", "TOPORT": "", "TOTAG": "", "CSEQ": "1", "EXPIRES": "3600", "CL": "3", "STATUS": "200", "TR": "UDP"}
	fields := []struct{ name, ph, pre string }{
		{"Content-Length", "CL", ""}, {"CSeq", "CSEQ", ""}, {"Expires", "EXPIRES", ""}, {"Max-Forwards", "MAXF", ""}, {"status", "STATUS", ""},
		{"Request-URI port", "RURIPORT", ":"}, {"Via port", "VIAPORT", ":"}, {"Via rport", "RPORTQ", "="}, {"From URI port", "FROMPORT", ":"}, {"To URI port", "TOPORT", ":"},
		{"Route URI port", "ROUTE", ""},
	}
	var out []struct{ Field, Value, Wire string }
	n := 0
	for _, f := range fields {
		for _, v := range c08Numbers() {
			for _, tmpl := range []string{req, resp} {
				if !strings.Contains(tmpl, "{"+f.ph+"}") {
					continue
				}
				for _, totag := range []string{"", ";tag=2"} {
					if tmpl == resp && totag == "" {
						continue
					}
					n++
					w := tmpl
					for k, dv := range def {
						val := dv
						if k == f.ph {
							val = f.pre + v
							if f.ph == "ROUTE" {
								val = "Route: <sip:127.0.0.78:" + v + ";lr>\r\n"
							}
						}
						if k == "TOTAG" {
							val = totag
						}
						w = strings.ReplaceAll(w, "{"+k+"}", val)
					}
					w = strings.ReplaceAll(w, "{N}", strconv.Itoa(n))
					out = append(out, struct{ Field, Value, Wire string }{f.name, v, w})
				}
			}
		}
	}
	return out
}

// c08Sanitize keeps every address the proxy could send to inside 127/8 or
// unresolvable (lab engine: a TCP dial to a black-holed address would stall
// the proxy loop for minutes and look like a wedge).
func c08Sanitize(m *AMsg) {
	for i := range m.Hdrs {
		h := &m.Hdrs[i]
		for j := range h.Vias {
			h.Vias[j].Host = fmt.Sprintf("127.0.0.%d", 9+j%3)
			var ps []AParam
			for _, p := range h.Vias[j].Params {
				if p.K != "received" && p.K != "maddr" {
					ps = append(ps, p)
				}
			}
			h.Vias[j].Params = ps
		}
		if h.Kind == hRoute {
			for j := range h.NAs {
				if h.NAs[j].URI.IsSIP() {
					h.NAs[j].URI.Host = "127.0.0.78"
				}
			}
		}
	}
}

// gFeatureTraffic: perfectly ordinary messages shaped after what the proxy's
// feature code looks at - dialog-creating and in-dialog requests and their
// responses with and without tags, Subscription-State, Expires, Route /
// Record-Route - over a handful of Call-IDs so that a sequence revisits the
// same dialog (known, unknown, dissolved). Nothing hostile about the syntax:
// the hostility is the combination and the order.
func gFeatureTraffic(rt *rapid.T, viaHost string) ([]byte, string) {
	method := rapid.SampledFrom([]string{"INVITE", "BYE", "NOTIFY", "NOTIFY", "SUBSCRIBE", "ACK", "CANCEL", "INFO", "UPDATE", "REGISTER", "OPTIONS", "REFER", "MESSAGE", "PRACK", "PUBLISH"}).Draw(rt, "f.method")
	dlg := rapid.IntRange(1, 4).Draw(rt, "f.dialog")
	fromTag := rapid.SampledFrom([]string{";tag=f%d", ";tag=f%d", ";tag=f%d", ""}).Draw(rt, "f.fromtag")
	toTag := rapid.SampledFrom([]string{";tag=t%d", ";tag=t%d", ""}).Draw(rt, "f.totag")
	if fromTag != "" {
		fromTag = fmt.Sprintf(fromTag, dlg)
	}
	if toTag != "" {
		toTag = fmt.Sprintf(toTag, dlg)
	}
	swap := rapid.Bool().Draw(rt, "f.other direction")
	from, to := "<sip:alice@a.example>"+fromTag, "<sip:bob@"+rapid.SampledFrom([]string{"b.example", "static.test", "svc.test"}).Draw(rt, "f.tohost")+">"+toTag
	if swap {
		from, to = "<sip:bob@b.example>"+strings.Replace(toTag, ";tag=t", ";tag=t", 1), "<sip:alice@a.example>"+fromTag
	}
	extra := ""
	if method == "NOTIFY" || rapid.IntRange(0, 5).Draw(rt, "f.substate anyway") == 0 {
		if ss := rapid.SampledFrom([]string{"active", "active;expires=60", "pending", "terminated", "terminated;reason=timeout", "Terminated", ""}).Draw(rt, "f.substate"); ss != "" {
			extra += "Subscription-State: " + ss + "\r\nEvent: presence\r\n"
		}
	}
	if e := rapid.SampledFrom([]string{"", "", "0", "60", "3600", "2147483647"}).Draw(rt, "f.expires"); e != "" {
		extra += "Expires: " + e + "\r\n"
	}
	if rapid.IntRange(0, 3).Draw(rt, "f.route") == 0 {
		extra += rapid.SampledFrom([]string{"Route: <sip:127.0.0.77:5060;lr>\r\n", "Route: <sip:127.0.0.77:5060;lr>, <sip:127.0.0.78:5070;lr>\r\n", "Route: <sip:127.0.0.78:5070;lr;transport=tls>\r\n", "Record-Route: <sip:127.0.0.78:5070;lr>\r\n"}).Draw(rt, "f.routehdr")
	}
	callID := fmt.Sprintf("feature-%d", dlg)
	cseq := rapid.IntRange(1, 3).Draw(rt, "f.cseq")
	if rapid.IntRange(0, 2).Draw(rt, "f.response") == 0 {
		code := rapid.SampledFrom([]int{100, 180, 200, 202, 302, 404, 481, 487, 500, 603}).Draw(rt, "f.status")
		vias := "Via: SIP/2.0/UDP 127.0.0.77:5060;branch=z9hG4bKp" + callID + "\r\n"
		if v2 := rapid.SampledFrom([]string{"UDP", "UDP", "TCP", "TLS", "SCTP", "WS", ""}).Draw(rt, "f.second via"); v2 != "" {
			vias += "Via: SIP/2.0/" + v2 + " " + viaHost + ":5060;branch=z9hG4bKc" + callID + ";received=" + viaHost + ";rport=5060\r\n"
		}
		return []byte(fmt.Sprintf("SIP/2.0 %d Status\r\n%sFrom: %s\r\nTo: %s\r\nCall-ID: %s\r\nCSeq: %d %s\r\n%sContent-Length: 0\r\n\r\n", code, vias, from, to, callID, cseq, method, extra)), fmt.Sprintf("feature traffic: %d to %s", code, method)
	}
	ruri := rapid.SampledFrom([]string{"sip:u@svc.test", "sip:svc.test", "sip:sos@svc2.test", "urn:service:sos", "sip:127.0.0.77:5060", "sip:bob@b.example", "sip:bob@static.test"}).Draw(rt, "f.ruri")
	tr := rapid.SampledFrom([]string{"UDP", "TCP"}).Draw(rt, "f.via transport")
	return []byte(fmt.Sprintf("%s %s SIP/2.0\r\nVia: SIP/2.0/%s %s:5060;branch=z9hG4bK%s%d;rport\r\nMax-Forwards: 70\r\nFrom: %s\r\nTo: %s\r\nCall-ID: %s\r\nCSeq: %d %s\r\n%sContent-Length: 0\r\n\r\n", method, ruri, tr, viaHost, callID, cseq, from, to, callID, cseq, method, extra)), "feature traffic: " + method + " " + ruri
}

func gHostileMsg(rt *rapid.T, lab bool) (*AMsg, []string) {
	m := gAnyMsg(rt, "base", anyOpts{MaxExt: 4, MaxLong: 0, MaxBody: 200})
	if lab {
		c08Sanitize(m)
	}
	// steer the base message into routing: service Request-URI / static To / a Route into 127/8
	if m.IsReq {
		switch rapid.IntRange(0, 3).Draw(rt, "steer") {
		case 0:
			m.RURI = AURI{Scheme: "sip", User: "u", Host: "svc.test"}
		case 1:
			m.RURI = AURI{Abs: "urn:service:sos"}
		case 2:
			for i := range m.Hdrs {
				if m.Hdrs[i].Kind == hTo && len(m.Hdrs[i].NAs) == 1 && m.Hdrs[i].NAs[0].URI.IsSIP() {
					m.Hdrs[i].NAs[0].URI.Host = "static.test"
				}
			}
		}
	}
	var applied []string
	n := rapid.IntRange(1, 3).Draw(rt, "hostile fields")
	setRaw := func(kind int, raw string, what string) {
		for i := range m.Hdrs {
			if m.Hdrs[i].Kind == kind {
				if raw == "" {
					raw = " "
				}
				m.Hdrs[i].Raw = raw
				applied = append(applied, what)
				return
			}
		}
		m.Hdrs = append([]AHdr{{Kind: kind, Name: hKindNames[kind], SP: " ", Raw: raw}}, m.Hdrs...)
		applied = append(applied, what+" (added)")
	}
	for k := 0; k < n; k++ {
		switch rapid.IntRange(0, 13).Draw(rt, "which") {
		case 13: // a To host as long as a datagram allows, made of what the route patterns are made of
			unit := rapid.SampledFrom([]string{".", "a.", "ab", "abc", "a", ".."}).Draw(rt, "unit")
			host := strings.Repeat(unit, rapid.SampledFrom([]int{20000, 40000, 60000}).Draw(rt, "host bytes")/len(unit)) + rapid.SampledFrom([]string{"", ".w3.test", ".w4.tes", "x.w3.test."}).Draw(rt, "tail")
			for i := range m.Hdrs {
				if m.Hdrs[i].Kind == hRoute {
					m.Hdrs[i].Raw = "" // (no Route: the To host is looked up in the route table)
				}
			}
			var hs []AHdr
			for _, h := range m.Hdrs {
				if h.Kind != hRoute {
					hs = append(hs, h)
				}
			}
			m.Hdrs = hs
			setRaw(hTo, "<sip:u@"+host+">", fmt.Sprintf("To host of %d bytes (%q...)", len(host), unit))
		case 0:
			m.CLOverride = rapid.SampledFrom(c08CL).Draw(rt, "cl")
			if m.CLOverride == "" {
				m.CLOverride = " "
			}
			applied = append(applied, "Content-Length="+m.CLOverride)
		case 1:
			setRaw(hVia, rapid.SampledFrom(c08ViaRaw).Draw(rt, "via"), "hostile Via")
		case 2:
			setRaw(hRoute, rapid.SampledFrom(c08RouteRaw).Draw(rt, "route"), "hostile Route")
		case 3:
			setRaw(rapid.SampledFrom([]int{hFrom, hTo}).Draw(rt, "fromto"), rapid.SampledFrom(c08NameAddrRaw).Draw(rt, "nameaddr"), "hostile From/To")
		case 4:
			setRaw(hCSeq, rapid.SampledFrom(c08CSeq).Draw(rt, "cseq"), "hostile CSeq")
		case 5:
			m.StartOverride = rapid.SampledFrom(c08Start).Draw(rt, "start")
			if m.StartOverride == "" {
				m.StartOverride = "\t"
			}
			applied = append(applied, "hostile start line")
		case 6: // drop a mandatory header
			kind := rapid.SampledFrom([]int{hVia, hFrom, hTo, hCallID, hCSeq, hCL}).Draw(rt, "drop")
			var hs []AHdr
			for _, h := range m.Hdrs {
				if h.Kind != kind {
					hs = append(hs, h)
				}
			}
			m.Hdrs = hs
			applied = append(applied, "missing "+hKindNames[kind])
		case 7: // duplicate a singleton
			kind := rapid.SampledFrom([]int{hFrom, hTo, hCallID, hCSeq, hCL}).Draw(rt, "dup")
			for _, h := range m.Hdrs {
				if h.Kind == kind {
					m.Hdrs = append(m.Hdrs, h)
					break
				}
			}
			applied = append(applied, "duplicated "+hKindNames[kind])
		case 8: // thousands of headers
			cnt := rapid.SampledFrom([]int{500, 5000}).Draw(rt, "many")
			for i := 0; i < cnt; i++ {
				m.Hdrs = append(m.Hdrs, AHdr{Kind: hExt, Name: "X", SP: "", Value: "y"})
			}
			applied = append(applied, fmt.Sprintf("%d headers", cnt))
		case 9: // thousands of Via parameters / entries
			cnt := rapid.SampledFrom([]int{500, 5000}).Draw(rt, "manyparams")
			if rapid.Bool().Draw(rt, "entries") {
				setRaw(hVia, strings.Repeat("SIP/2.0/UDP h;branch=z,", cnt)+"SIP/2.0/UDP h", fmt.Sprintf("%d Via entries", cnt))
			} else {
				setRaw(hVia, "SIP/2.0/UDP 127.0.0.9"+strings.Repeat(";p=v", cnt), fmt.Sprintf("%d Via parameters", cnt))
			}
		case 10: // a huge host
			setRaw(hVia, "SIP/2.0/UDP "+strings.Repeat("h", 70000)+":5060;branch=z9hG4bKx", "70000-byte Via host")
		case 11: // Expires / Subscription-State / Max-Forwards oddities
			m.Hdrs = append(m.Hdrs, AHdr{Kind: hExt, Name: rapid.SampledFrom([]string{"Expires", "expires", "Subscription-State", "Max-Forwards"}).Draw(rt, "oddname"), SP: " ",
				Value: rapid.SampledFrom([]string{"2147483647", "99999999999999999999", "-1", "", "terminated", "terminated;reason=", "x"}).Draw(rt, "oddvalue")})
			applied = append(applied, "odd Expires/Subscription-State")
		default: // in-dialog shape with hostile tags
			for i := range m.Hdrs {
				if (m.Hdrs[i].Kind == hFrom || m.Hdrs[i].Kind == hTo) && len(m.Hdrs[i].NAs) == 1 {
					m.Hdrs[i].NAs[0].Params = append(m.Hdrs[i].NAs[0].Params, AParam{K: "tag", V: rapid.SampledFrom([]string{"", "-", "%s%n", "\"", strings.Repeat("t", 5000)}).Draw(rt, "tag"), HasV: true})
				}
			}
			applied = append(applied, "hostile tags")
		}
	}
	return m, applied
}

// FuzzPipeline: the native coverage-guided target (thorough tier).
func FuzzPipeline(f *testing.F) {
	valid := []string{
		"INVITE sip:u@svc.test SIP/2.0\r\nVia: SIP/2.0/UDP 127.0.0.9:5060;branch=z9hG4bK1;rport\r\nFrom: <sip:a@b>;tag=1\r\nTo: <sip:c@d>\r\nCall-ID: x\r\nCSeq: 1 INVITE\r\nContent-Length: 3\r\n\r\nabc",
		"SIP/2.0 200 OK\r\nVia: SIP/2.0/UDP 127.0.0.77:5060;branch=z9hG4bKp\r\nVia: SIP/2.0/UDP 127.0.0.9:5060;branch=z9hG4bK1;received=127.0.0.9;rport=5060\r\nFrom: <sip:a@b>;tag=1\r\nTo: <sip:c@d>;tag=2\r\nCall-ID: x\r\nCSeq: 1 INVITE\r\nContent-Length: 0\r\n\r\n",
		"BYE urn:service:sos SIP/2.0\r\nv: SIP/2.0/TCP 127.0.0.9;branch=z9hG4bK2\r\nRoute: <sip:127.0.0.77:5060;lr>, <sip:127.0.0.78:5070;lr>\r\nf: \"A\" <sip:a@b>;tag=1\r\nt: tel:+1;tag=2\r\ni: y\r\nCSeq: 2 BYE\r\nl: 0\r\n\r\n",
		"NOTIFY sip:sos@svc2.test SIP/2.0\r\nVia: SIP/2.0/UDP 127.0.0.9:5060;branch=z9hG4bK3\r\nFrom: <sip:a@b>;tag=1\r\nTo: <sip:c@static.test>;tag=2\r\nCall-ID: z\r\nCSeq: 3 NOTIFY\r\nSubscription-State: terminated\r\nRecord-Route: <sip:127.0.0.9;lr>\r\nContent-Length: 0\r\n\r\n",
	}
	for _, v := range valid {
		f.Add([]byte(v), byte(0))
		f.Add([]byte(v), byte(1))
	}
	for _, cl := range c08CL {
		f.Add([]byte(strings.Replace(valid[0], "Content-Length: 3", "Content-Length: "+cl, 1)), byte(0))
	}
	for _, v := range c08ViaRaw {
		f.Add([]byte(strings.Replace(valid[0], "SIP/2.0/UDP 127.0.0.9:5060;branch=z9hG4bK1;rport", v, 1)), byte(1))
		f.Add([]byte(strings.Replace(valid[0], "SIP/2.0/UDP 127.0.0.9:5060;branch=z9hG4bK1;rport", v, 1)), byte(3))
	}
	for _, v := range c08RouteRaw {
		f.Add([]byte(strings.Replace(valid[2], "<sip:127.0.0.77:5060;lr>, <sip:127.0.0.78:5070;lr>", v, 1)), byte(0))
	}
	for _, v := range c08Start {
		f.Add([]byte(v+"\r\nContent-Length: 0\r\n\r\n"), byte(2))
	}
	p, _ := c08NewProxy()
	n := 0
	f.Fuzz(func(t *testing.T, data []byte, flags byte) {
		if len(data) > 65536 {
			return
		}
		n++
		if n%2000 == 0 {
			// bound what a long campaign accumulates in learned routes / transports
			p, _ = c08NewProxy()
		}
		var st c08Stats
		if f := c08Pipeline(p, data, flags&1 != 0, flags&2 != 0, "127.0.0.9", 5060+int(flags>>4), &st); f != "" {
			t.Fatalf("%s\ninput: %s", f, jsonBytes(data))
		}
	})
}

func TestC08(t *testing.T) {
	V.Rule("unit: sequences of 1-6 inputs (a fresh proxy every 40 sequences) pushed through the synchronous pipeline decode -> learn -> stamp -> register -> consume Route -> pin -> route -> relay (UDP-like and TCP-like arrival, requests and responses): structurally valid generated messages with 1-3 hostile fields (absurd / negative / non-numeric Content-Length, bracket-only / empty / huge Via hosts, hostile Route / From / To / CSeq / start lines, missing mandatory or duplicated singleton headers, every decoded number (Content-Length, CSeq, Expires, Max-Forwards, status, URI / Via / Route ports, rport) at every integer width boundary 2^k-2..2^k+1 for k in 7..64 in both signs - enumerated completely -, thousands of headers / Via entries / parameters, hostile tags, odd Expires), truncations and random byte strings; oracle: no panic, returns within 15 s, TotalAlloc growth per input <= 512*len + 1 MiB (decoding is allowed a large constant factor, not an allocation that ignores how many bytes arrived). lab: the same inputs plus random and oversized bytes against real UDP and TCP listeners; after every batch a sentinel request must still be relayed, and so must 2-6 small ordinary requests sent back to back (each once, intact), a TCP connection that carried undecodable bytes must have been closed, so must one whose peer stops in the middle of a message (any cut after the first byte) and shuts its sending side down, new connections must be served. bin: the real binary, RSS bounded, and - under a descriptor limit of 160 - still serving after 450 (thorough: 3000) TCP peers that connect, say nothing / one complete request / half of one, and close. The native coverage-guided target FuzzPipeline runs in the thorough tier. non-trivial = input that decodes (reaches routing) and contains >= 1 hostile field; distinct by input bytes")
	V.Assume("egress hygiene: when the product itself computes a non-UDP next hop outside 127/8 for an input, the harness does not let that input reach the relay step (counted as neutralised); UDP sends cannot block")
	V.Require("lab: a next hop that sent requests over the proxy's connection, then ended it", "bin: listener serves after hundreds of short-lived TCP peers under a descriptor limit", "bin: process alive and RSS bounded after hostile batch", "decoded with hostile field", "rejected by the decoder", "tcp-like arrival", "udp-like arrival", "response", "lab: sentinel relayed after hostile batch", "lab: back-to-back ordinary requests all relayed after hostile batch", "lab: garbage TCP connection closed", "lab: connection ending in the middle of a message closed")

	// saved hostile inputs, each as UDP-like and TCP-like arrival, with and without received-support
	V.Regress(t, func(c regressCase) string {
		if c.S("kind") != "bytes" {
			return "skip: kind " + c.S("kind")
		}
		data := []byte(c.S("data"))
		if n := c.I("repeat_marker_to"); n > 0 {
			data = bytes.ReplaceAll(data, []byte("{LONG}"), bytes.Repeat([]byte("A"), n))
		}
		for _, tcp := range []bool{false, true} {
			for _, stamp := range []bool{false, true} {
				p, _ := c08NewProxy()
				var st c08Stats
				if f := c08Pipeline(p, data, tcp, stamp, "127.0.0.81", 40000, &st); f != "" {
					return fmt.Sprintf("(tcp-like=%v, received-support=%v) %s", tcp, stamp, f)
				}
			}
		}
		return ""
	})

	// every number the proxy decodes, at every integer width boundary (complete enumeration)
	t.Run("numeric-boundaries", func(t *testing.T) {
		if V.replay && !strings.HasPrefix(V.only, "numeric:") {
			return
		}
		p, _ := c08NewProxy()
		uses := 0
		for _, c := range c08NumericCases() {
			for _, tcp := range []bool{false, true} {
				only := fmt.Sprintf("numeric:%s=%s,tcp=%v,resp=%v,totag=%v", c.Field, c.Value, tcp, strings.HasPrefix(c.Wire, "SIP/"), strings.Contains(c.Wire, ";tag=2"))
				if !V.OnlyMatch(only) {
					continue
				}
				if uses++; uses%400 == 0 {
					p, _ = c08NewProxy()
				}
				wire := c.Wire
				if tcp {
					wire = strings.Replace(wire, "SIP/2.0/UDP 127.0.0.9", "SIP/2.0/TCP 127.0.0.9", 1)
				}
				var st c08Stats
				V.Eval()
				V.Journal(t.Name(), map[string]any{"field": c.Field, "value": c.Value, "tcp": tcp, "wire": wire})
				f := c08Pipeline(p, []byte(wire), tcp, true, "127.0.0.9", 5060, &st)
				V.Class("numeric boundary: " + c.Field)
				if st.parsed > 0 {
					V.NonTrivial(wire)
				}
				if f != "" {
					V.Violation(t, only, map[string]any{"field": c.Field, "value": c.Value, "tcp": tcp, "wire": wire}, "%s = %q (%s arrival): %s", c.Field, c.Value, map[bool]string{false: "UDP-like", true: "TCP-like"}[tcp], f)
					p, _ = c08NewProxy()
					if V.ViolationCount() >= 2 {
						return
					}
				}
			}
		}
	})

	var shared *Proxy
	sharedUses := 0
	rcheck(t, "pipeline", V.N(2500, 20000), func(rt *rapid.T) {
		// a proxy object costs a goroutine and ~90 KiB of channels that are never
		// released: a fresh one every 40 sequences (the property is over arbitrary
		// input sequences, so carrying state over is in the domain)
		if shared == nil || sharedUses >= 40 {
			shared, _ = c08NewProxy()
			sharedUses = 0
		}
		sharedUses++
		p := shared
		k := rapid.IntRange(1, 6).Draw(rt, "inputs")
		var seq []string
		var st c08Stats
		for i := 0; i < k; i++ {
			var data []byte
			desc := ""
			hostile := false
			switch rapid.IntRange(0, 12).Draw(rt, "kind") {
			case 10, 11, 12: // ordinary feature-shaped traffic over a few dialogs
				data, desc = gFeatureTraffic(rt, "127.0.0.9")
				V.Class("feature-shaped traffic")
			case 0: // a plain valid message (state for the next hostile one)
				m := gAnyMsg(rt, "valid", anyOpts{MaxExt: 3, MaxBody: 100})
				if m.IsReq {
					m.RURI = AURI{Scheme: "sip", User: "u", Host: "svc.test"}
				}
				data, desc = m.Bytes(), "valid"
			case 1: // truncation of a valid one
				m := gAnyMsg(rt, "trunc", anyOpts{MaxExt: 3, MaxBody: 100})
				b := m.Bytes()
				data, desc = b[:rapid.IntRange(0, len(b)).Draw(rt, "cut")], "truncated"
			case 2: // random bytes
				n := rapid.IntRange(0, 300).Draw(rt, "n")
				data = make([]byte, n)
				for j := range data {
					data[j] = byte(rapid.IntRange(0, 255).Draw(rt, "b"))
				}
				desc = "random bytes"
			default:
				m, applied := gHostileMsg(rt, false)
				data, desc, hostile = m.Bytes(), strings.Join(applied, "+"), true
			}
			if len(data) > 65000 && rapid.Bool().Draw(rt, "udpsize") {
				data = data[:65000]
			}
			tcp := rapid.Bool().Draw(rt, "tcp-like")
			peer := rapid.SampledFrom([]string{"127.0.0.9", "127.0.0.81", "127.0.0.10"}).Draw(rt, "peer")
			port := rapid.SampledFrom([]int{5060, 5080, 40000}).Draw(rt, "peerport")
			seq = append(seq, fmt.Sprintf("%s (%d bytes, tcp=%v, from %s:%d)", desc, len(data), tcp, peer, port))
			V.Journal(t.Name()+"/pipeline", map[string]any{"sequence": seq, "last_input": jsonBytes(data)})
			before := st.parsed
			stamp := rapid.Bool().Draw(rt, "received-support")
			f := c08Pipeline(p, data, tcp, stamp, peer, port, &st)
			V.ClassIf(tcp, "tcp-like arrival")
			V.ClassIf(!tcp, "udp-like arrival")
			V.ClassIf(bytes.HasPrefix(data, []byte("SIP/")), "response")
			if st.parsed > before {
				V.ClassIf(hostile, "decoded with hostile field")
				if hostile {
					V.NonTrivial(string(data))
				}
			} else {
				V.Class("rejected by the decoder")
			}
			if f != "" {
				shared = nil // never reuse an object that has shown a failure (it may be wedged)
				failf(rt, "input %d of the sequence %v: %s", i+1, seq, f)
			}
		}
		V.ExtraAdd("egress_neutralised_inputs", int64(st.neutralised))
		V.SampleEvery(300, func() any { return seq })
	})

	labRun := func(t *testing.T, bin bool) {
		if V.replay && V.only == "" {
			return
		}
		svc, err := newStdSvc(stdVariant{NoReceived: [3]string{"", "true", ""}, Bin: bin})
		if err != nil {
			V.HarnessError(t, "cannot start lab instance: %v", err)
		}
		s := svc
		batches := V.N(30, 300)
		var bytesSent int64
		rss0 := 0
		if bin {
			defer s.in.stopBin()
			batches = V.N(25, 300)
			time.Sleep(200 * time.Millisecond)
			rss0 = s.in.binRSSKiB()
		}
		ua := s.uas[0]
		l := s.in.cfg.Listens[0]
		sentinel := func(what string, batch any) bool {
			id := s.nextID("sentinel")
			msg := []byte(fmt.Sprintf("OPTIONS sip:svc.test SIP/2.0\r\nVia: SIP/2.0/UDP %s:5060;branch=z9hG4bK%s\r\nFrom: <sip:a@b>;tag=1\r\nTo: <sip:svc@nomatch.example>\r\nCall-ID: %s\r\nCSeq: 1 OPTIONS\r\nContent-Length: 0\r\n\r\n", ua.ip, id, id))
			send := func(b []byte) error { return ua.sendUDP(l.Addr, l.UDPPort, b) }
			s.in.expect(msg)
			send(msg)
			rs, err := s.in.settle(send, 1)
			relayed := 0
			for _, r := range labMessages(rs) {
				if cid, _ := r.msg.First(hCallID); cid == id && s.isBackendOf(r.ep, 0, r.tcp != nil) {
					relayed++
				}
			}
			if err != nil || relayed != 1 {
				V.Violation(t, "", batch, "after %s the proxy no longer relays an ordinary request (sentinel %s): %v\n%s", what, id, err, labDescribe(rs))
				return false
			}
			return true
		}
		// deterministic generator state for the lab part: rapid draws via a private check
		rcheckInner := func(name string, n int, prop func(rt *rapid.T)) { rcheck(t, name, n, prop) }
		// Ordinary traffic with a peer in two roles: a TCP next hop the proxy connects
		// to, which then sends requests of its own over that connection and, later,
		// ends it; requests routed to it afterwards. Nothing here is hostile - the
		// proxy keeps serving.
		if !bin {
			rcheckInner("peer-in-two-roles", V.N(8, 80), func(rt *rapid.T) {
				hopIP, hopPort := s.ip(25), 5070
				usend := func(b []byte) error { return ua.sendUDP(l.Addr, l.UDPPort, b) }
				toHop := func(what string) *labTCPConn {
					id := s.nextID("c08r-")
					wire := []byte(fmt.Sprintf("OPTIONS sip:x@elsewhere.example SIP/2.0\r\nVia: SIP/2.0/UDP %s:5060;branch=z9hG4bK%s\r\nRoute: <sip:%s:%d;transport=tcp;lr>\r\nFrom: <sip:a@b>;tag=1\r\nTo: <sip:x@elsewhere.example>\r\nCall-ID: %s\r\nCSeq: 1 OPTIONS\r\nContent-Length: 0\r\n\r\n", ua.ip, id, hopIP, hopPort, id))
					s.in.expect(wire)
					usend(wire)
					rs, err := s.in.settle(usend, 1)
					got := labMessages(rs)
					if err != nil || len(got) != 1 || got[0].tcp == nil || got[0].ep == nil || got[0].ep.ip != hopIP {
						failf(rt, "%s, a request routed to the TCP element %s:%d did not arrive there: %v\n%s", what, hopIP, hopPort, err, labDescribe(got))
					}
					return got[0].tcp
				}
				conn := toHop("at the start")
				for i, n := 0, rapid.IntRange(1, 3).Draw(rt, "requests of the hop"); i < n; i++ {
					rid := s.nextID("c08rr-")
					req := []byte(fmt.Sprintf("MESSAGE sip:u@%s:5060 SIP/2.0\r\nVia: SIP/2.0/TCP %s:%d;branch=z9hG4bK%s\r\nRoute: <sip:%s:5060;lr>\r\nFrom: <sip:hop@hop.example>;tag=h\r\nTo: <sip:u@nomatch.example>\r\nCall-ID: %s\r\nCSeq: 1 MESSAGE\r\nContent-Length: 0\r\n\r\n", ua.ip, hopIP, hopPort, rid, ua.ip, rid))
					s.in.expect(req)
					if err := conn.sendStrict(req); err != nil {
						failf(rt, "%v", err)
					}
					if _, err := s.in.settle(conn.sendStrict, 1); err != nil {
						failf(rt, "a request the next hop sent over the connection the proxy had opened to it: %v", err)
					}
				}
				// the hop ends its connections; what was learned about it stays usable
				for _, e := range s.eps {
					if e.tcpL != nil && e.ip == hopIP && e.port == hopPort {
						e.hangUp()
					}
				}
				V.Class("lab: a next hop that sent requests over the proxy's connection, then ended it")
				V.NonTrivial("tworoles|" + s.nextID(""))
				for i, n := 0, rapid.IntRange(1, 3).Draw(rt, "requests afterwards"); i < n; i++ {
					toHop("after the hop had sent requests of its own over the proxy's connection and ended that connection")
				}
				if !sentinel("ordinary traffic with a next hop in two roles", nil) {
					rt.Fatalf("sentinel")
				}
			})
		}
		rcheckInner("batches", batches, func(rt *rapid.T) {
			k := rapid.IntRange(1, 8).Draw(rt, "inputs")
			var batch []string
			tcpGarbage := false
			var conn *labTCPConn
			for i := 0; i < k; i++ {
				var data []byte
				switch rapid.IntRange(0, 6).Draw(rt, "kind") {
				case 5, 6:
					data, _ = gFeatureTraffic(rt, s.uas[1].ip)
					V.Class("lab: feature-shaped traffic")
				case 0:
					n := rapid.IntRange(0, 2000).Draw(rt, "n")
					data = make([]byte, n)
					x := uint32(rapid.IntRange(1, 1<<30).Draw(rt, "seed"))
					for j := range data {
						x ^= x << 13
						x ^= x >> 17
						x ^= x << 5
						data[j] = byte(x)
					}
				case 1:
					data = bytes.Repeat([]byte("A"), rapid.SampledFrom([]int{65507, 65000, 40000}).Draw(rt, "big"))
				default:
					m, _ := gHostileMsg(rt, true)
					data = m.Bytes()
				}
				viaTCP := rapid.IntRange(0, 2).Draw(rt, "tcp") == 0
				batch = append(batch, fmt.Sprintf("%d bytes via %s: %s", len(data), map[bool]string{true: "tcp", false: "udp"}[viaTCP], jsonBytes(data[:min(len(data), 200)])))
				V.Journal(t.Name()+"/batches", batch)
				V.Eval()
				bytesSent += int64(len(data))
				if viaTCP {
					// half of the TCP traffic goes to the listen entry with received-support off
					tl := l
					if rapid.Bool().Draw(rt, "entry without received-support") {
						tl = s.in.cfg.Listens[1]
					}
					c, err := s.in.hub.dialTCP("hostile", s.ip(12), tl.Addr, tl.TCPPort)
					if err != nil {
						failf(rt, "the TCP listener no longer accepts connections after %v: %v", batch, err)
					}
					c.send(data)
					defer c.close()
					// hostile data may legitimately leave the decoder waiting for more bytes
					// (over-declared body, unfinished line): closure is asserted only for a
					// fresh connection that carries one complete, definitely undecodable message
					if rapid.Bool().Draw(rt, "plus a connection with a complete undecodable message") {
						g, err := s.in.hub.dialTCP("garbage", s.ip(12), tl.Addr, tl.TCPPort)
						if err != nil {
							failf(rt, "the TCP listener no longer accepts connections after %v: %v", batch, err)
						}
						g.send([]byte(rapid.SampledFrom([]string{"GARBAGE-START-LINE\r\n\r\n", "INVITE sip:a@b SIP/2.0\r\nNoColonHere\r\n\r\n", "INVITE sip:a@b SIP/2.0\r\nContent-Length: -5\r\n\r\n", "SIP/2.0 abc OK\r\nContent-Length: 0\r\n\r\n", "INVITE sip:a@b SIP/2.0\r\nVia: SIP/2.0/TCP h\r\n\r\n", "\r\n\r\nX\r\n\r\n"}).Draw(rt, "garbage")))
						tcpGarbage, conn = true, g
					}
				} else {
					if len(data) > 65507 {
						data = data[:65507]
					}
					// stop-and-wait: a barrier behind every datagram, so that the listener's
					// socket buffer never holds more than one (large) datagram - an overflow
					// would drop the sentinel in the kernel and look like a dead proxy
					src := s.uas[1]
					usend := func(b []byte) error { return src.sendUDP(l.Addr, l.UDPPort, b) }
					usend(data)
					if _, err := s.in.settle(usend, 0); err != nil {
						failf(rt, "after the datagram %s: %v", jsonBytes(data[:min(len(data), 300)]), err)
					}
				}
			}
			if !sentinel(fmt.Sprintf("the batch %v", batch), batch) {
				rt.Fatalf("liveness lost")
			}
			V.Class("lab: sentinel relayed after hostile batch")
			// "keeps serving the traffic that follows" - also when it follows closely:
			// a handful of small ordinary requests back to back (far below any socket
			// buffer) must all come out, each once and intact
			if nb := rapid.IntRange(0, 6).Draw(rt, "ordinary requests back to back after the batch"); nb >= 2 {
				want := map[string]bool{}
				var wires [][]byte
				for i := 0; i < nb; i++ {
					id := s.nextID("sentinelburst")
					want[id] = true
					wires = append(wires, []byte(fmt.Sprintf("OPTIONS sip:svc.test SIP/2.0\r\nVia: SIP/2.0/UDP %s:5060;branch=z9hG4bK%s\r\nFrom: <sip:a@b>;tag=1\r\nTo: <sip:svc@nomatch.example>\r\nCall-ID: %s\r\nCSeq: 1 OPTIONS\r\nSubject: %s\r\nContent-Length: %d\r\n\r\n%s", ua.ip, id, id, id, len(id), id)))
				}
				send := func(b []byte) error { return ua.sendUDP(l.Addr, l.UDPPort, b) }
				s.in.expect(wires...)
				for _, w := range wires {
					send(w)
				}
				rs, err := s.in.settle(send, nb)
				got := map[string]int{}
				for _, r := range labMessages(rs) {
					cid, _ := r.msg.First(hCallID)
					sub, _ := r.msg.Ext("Subject")
					if want[cid] && sub == cid && string(r.msg.Body) == cid && s.isBackendOf(r.ep, 0, r.tcp != nil) {
						got[cid]++
					}
				}
				ok := err == nil && len(got) == nb
				for _, n := range got {
					ok = ok && n == 1
				}
				if !ok {
					failf(rt, "after the batch %v the proxy no longer relays ordinary traffic properly: of %d small requests sent back to back %d came out intact (each expected exactly once): %v\n%s", batch, nb, len(got), err, labDescribe(rs))
				}
				V.Class("lab: back-to-back ordinary requests all relayed after hostile batch")
			}
			// A peer that stops in the middle of a message and shuts its sending side
			// down has delivered undecodable input: the proxy closes the connection
			// (a connection it merely stops reading stays open for good - descriptors
			// run out and the listener dies).
			if rapid.IntRange(0, 3).Draw(rt, "a connection ending in the middle of a message") == 0 {
				tl := s.in.cfg.Listens[rapid.IntRange(0, 1).Draw(rt, "entry of the truncated connection")]
				full := fmt.Sprintf("INVITE sip:u@svc.test SIP/2.0\r\nVia: SIP/2.0/TCP %s:5060;branch=z9hG4bK%s\r\nFrom: <sip:a@b>;tag=1\r\nTo: <sip:c@nomatch.example>\r\nCall-ID: %s\r\nCSeq: 1 INVITE\r\nContent-Length: 10\r\n\r\n0123456789", s.ip(12), s.nextID("trunc"), s.nextID("trunc"))
				cut := rapid.IntRange(1, len(full)-1).Draw(rt, "bytes sent before the peer shuts down") // (at least one byte: an unfinished message)
				tc, err := s.in.hub.dialTCP("truncating", s.ip(12), tl.Addr, tl.TCPPort)
				if err != nil {
					failf(rt, "the TCP listener no longer accepts connections after %v: %v", batch, err)
				}
				tc.send([]byte(full[:cut]))
				if c, ok := tc.conn.(*net.TCPConn); ok {
					c.CloseWrite()
				}
				if !patientUntil(20*time.Second, 200*time.Microsecond, tc.isDead) {
					failf(rt, "a TCP peer sent the first %d bytes of a message and shut its sending side down; the proxy did not close the connection within 20 s (undecodable input: the connection carrying it is to be closed)", cut)
				}
				tc.close()
				V.Class("lab: connection ending in the middle of a message closed")
			}
			if tcpGarbage {
				// a connection that carried undecodable bytes is closed by the proxy
				if !patientUntil(20*time.Second, 200*time.Microsecond, conn.isDead) {
					failf(rt, "a fresh TCP connection that carried one complete undecodable message was not closed within 20 s; batch %v", batch)
				}
				V.Class("lab: garbage TCP connection closed")
			}
			s.in.hub.drain()
			if bin {
				if d := s.in.binDead(); d != "" {
					failf(rt, "%s\nbatch: %v", d, batch)
				}
				// resident set size of the real process stays in proportion to what was sent
				rss := s.in.binRSSKiB()
				if limit := rss0 + 64*1024 + int(4*bytesSent/1024); rss > limit {
					failf(rt, "resident set size of the sipproxy process grew from %d KiB to %d KiB after %d bytes of input (limit %d KiB)", rss0, rss, bytesSent, limit)
				}
				V.Class("bin: process alive and RSS bounded after hostile batch")
			}
		})
		if bin {
			V.Extra("bin_rss_kib_start", rss0)
			V.Extra("bin_rss_kib_end", s.in.binRSSKiB())
			V.Extra("bin_bytes_sent", bytesSent)
		}
	}
	t.Run("lab", func(t *testing.T) { labRun(t, false) })
	if os.Getenv("VERIF_BIN") != "" {
		t.Run("bin", func(t *testing.T) { labRun(t, true) })
		// The real binary under a descriptor limit of 160: several hundred TCP
		// peers come and go - saying nothing, a complete request, or half of one -
		// and the listener must still serve afterwards (a connection the proxy
		// forgets to close costs a descriptor for good).
		t.Run("bin-descriptors", func(t *testing.T) {
			if V.replay && V.only != "bin-descriptors" {
				return
			}
			s, err := newStdSvc(stdVariant{Bin: true, BinEnv: []string{"VERIF_NOFILE=160"}})
			if err != nil {
				V.HarnessError(t, "cannot start the binary under a descriptor limit: %v", err)
			}
			defer s.in.stopBin()
			l := s.in.cfg.Listens[0]
			peers := V.N(450, 3000)
			if V.replay {
				peers = 450
			}
			for i := 0; i < peers; i++ {
				c, err := s.in.hub.dialTCP("passing", s.ip(12), l.Addr, l.TCPPort)
				if err != nil {
					V.Violation(t, "bin-descriptors", nil, "after %d TCP peers had come and gone the listener refuses connections: %v", i, err)
					return
				}
				id := s.nextID("fd-")
				full := fmt.Sprintf("OPTIONS sip:svc.test SIP/2.0\r\nVia: SIP/2.0/TCP %s:5060;branch=z9hG4bK%s\r\nFrom: <sip:a@b>;tag=1\r\nTo: <sip:svc@nomatch.example>\r\nCall-ID: %s\r\nCSeq: 1 OPTIONS\r\nContent-Length: 0\r\n\r\n", s.ip(12), id, id)
				switch i % 3 {
				case 1:
					c.send([]byte(full))
				case 2:
					c.send([]byte(full[:len(full)/2]))
				}
				if i%3 == 1 {
					time.Sleep(300 * time.Microsecond)
				}
				c.close()
				V.Eval()
				if d := s.in.binDead(); d != "" {
					V.Violation(t, "bin-descriptors", nil, "%s (after %d TCP peers)", d, i+1)
					return
				}
			}
			time.Sleep(300 * time.Millisecond)
			s.in.hub.drain()
			// a new peer is served
			c, err := s.in.hub.dialTCP("sentinel", s.ip(11), l.Addr, l.TCPPort)
			if err != nil {
				V.Violation(t, "bin-descriptors", nil, "after %d TCP peers had come and gone the listener refuses connections: %v", peers, err)
				return
			}
			defer c.close()
			id := s.nextID("fd-sentinel-")
			wire := []byte(fmt.Sprintf("OPTIONS sip:svc.test SIP/2.0\r\nVia: SIP/2.0/TCP %s:5060;branch=z9hG4bK%s\r\nFrom: <sip:a@b>;tag=1\r\nTo: <sip:svc@nomatch.example>\r\nCall-ID: %s\r\nCSeq: 1 OPTIONS\r\nContent-Length: 0\r\n\r\n", s.ip(11), id, id))
			s.in.expect(wire)
			c.send(wire)
			ok := patientUntil(20*time.Second, time.Millisecond, func() bool {
				for _, r := range s.in.hub.drain() {
					if r.msg != nil {
						if cid, _ := r.msg.First(hCallID); cid == id {
							return true
						}
					}
				}
				return false
			})
			if !ok {
				V.Violation(t, "bin-descriptors", map[string]any{"descriptor_limit": 160, "tcp_peers": peers}, "the real binary runs under a descriptor limit of 160; after %d TCP peers had connected, said nothing / one complete request / half of one, and closed, an ordinary request on a new connection is no longer relayed within 20 s: the listener has stopped serving (descriptors of finished connections are not released)\n%s", peers, s.in.binDead())
				return
			}
			V.Class("bin: listener serves after hundreds of short-lived TCP peers under a descriptor limit")
			V.NonTrivial("bin-descriptors")
		})
	}
}

package main

// Lab engine, network side: a private loopback /16 per test process, harness
// endpoints (UDP sockets, TCP listeners, TCP client connections) whose
// receptions all flow into one queue. Shares nothing with the product.

import (
	"bufio"
	"errors"
	"fmt"
	"io"
	"net"
	"os"
	"sync"
	"sync/atomic"
	"time"
)

type labNet struct {
	b1   int
	lock *net.UDPConn
}

var theLabNet *labNet
var labNetOnce sync.Once

// labReserve reserves 127.B1.0.0/16 for this process (lock socket).
func labReserve() *labNet {
	labNetOnce.Do(func() {
		start := 16 + (os.Getpid()*7+envInt("VERIF_SHARD", 0)*13)%230
		for i := 0; i < 230; i++ {
			b1 := 16 + (start-16+i)%230
			c, err := net.ListenUDP("udp", &net.UDPAddr{IP: net.IPv4(127, byte(b1), 0, 1), Port: 9})
			if err == nil {
				theLabNet = &labNet{b1: b1, lock: c}
				return
			}
		}
	})
	if theLabNet == nil {
		panic("verif harness: no free loopback block")
	}
	return theLabNet
}

func (n *labNet) ip(c, d int) string { return fmt.Sprintf("127.%d.%d.%d", n.b1, c, d) }

type labRx struct {
	ep     *labEP      // receiving endpoint (UDP socket or TCP listener owner)
	tcp    *labTCPConn // non-nil when received over a TCP connection
	from   string      // ip:port of the sender
	fromIP string
	fromPt int
	data   []byte
	msg    *RMsg // decoded by the independent reader; nil if undecodable
	closed bool  // TCP connection closed by the peer
	seq    int64
}

func (r labRx) where() string {
	if r.tcp != nil {
		return r.tcp.String()
	}
	if r.ep != nil {
		return r.ep.String()
	}
	return "?"
}

type labHub struct {
	rx     chan labRx
	seq    int64
	mu     sync.Mutex
	eps    map[string]*labEP
	conns  []*labTCPConn
	closed int32
}

func newLabHub() *labHub {
	return &labHub{rx: make(chan labRx, 1<<15), eps: map[string]*labEP{}}
}

func (h *labHub) push(r labRx) {
	r.seq = atomic.AddInt64(&h.seq, 1)
	if len(r.data) > 0 && r.msg == nil {
		if m, err := sipRead(r.data); err == nil {
			r.msg = m
		}
	}
	select {
	case h.rx <- r:
	default:
		// queue overflow would lose evidence: block instead (the property code drains)
		h.rx <- r
	}
}

type labEP struct {
	hub   *labHub
	name  string
	ip    string
	port  int
	udp   *net.UDPConn
	tcpL  net.Listener
	mu    sync.Mutex
	accs  []*labTCPConn // accepted connections, in order
	accCh chan *labTCPConn
}

func (e *labEP) String() string { return fmt.Sprintf("%s(%s:%d)", e.name, e.ip, e.port) }

// udpEP returns (creating and binding on first use) the UDP endpoint ip:port.
func (h *labHub) udpEP(name, ip string, port int) (*labEP, error) {
	key := fmt.Sprintf("udp|%s|%d", ip, port)
	h.mu.Lock()
	defer h.mu.Unlock()
	if e, ok := h.eps[key]; ok {
		return e, nil
	}
	c, err := net.ListenUDP("udp", &net.UDPAddr{IP: net.ParseIP(ip), Port: port})
	if err != nil {
		return nil, err
	}
	c.SetReadBuffer(4 << 20)
	e := &labEP{hub: h, name: name, ip: ip, port: port, udp: c}
	if port == 0 {
		e.port = c.LocalAddr().(*net.UDPAddr).Port
	}
	h.eps[key] = e
	go func() {
		buf := make([]byte, 70000)
		for {
			n, from, err := c.ReadFromUDP(buf)
			if err != nil {
				return
			}
			h.push(labRx{ep: e, from: from.String(), fromIP: from.IP.String(), fromPt: from.Port, data: append([]byte(nil), buf[:n]...)})
		}
	}()
	return e, nil
}

func (e *labEP) sendUDP(ip string, port int, data []byte) error {
	_, err := e.udp.WriteToUDP(data, &net.UDPAddr{IP: net.ParseIP(ip), Port: port})
	return err
}

// tcpEP returns (creating on first use) a TCP listener endpoint.
func (h *labHub) tcpEP(name, ip string, port int) (*labEP, error) {
	key := fmt.Sprintf("tcp|%s|%d", ip, port)
	h.mu.Lock()
	defer h.mu.Unlock()
	if e, ok := h.eps[key]; ok {
		return e, nil
	}
	l, err := net.Listen("tcp", fmt.Sprintf("%s:%d", ip, port))
	if err != nil {
		return nil, err
	}
	e := &labEP{hub: h, name: name, ip: ip, port: port, tcpL: l, accCh: make(chan *labTCPConn, 256)}
	h.eps[key] = e
	go func() {
		for {
			c, err := l.Accept()
			if err != nil {
				return
			}
			tc := h.wrapTCP(c, e, true)
			e.mu.Lock()
			e.accs = append(e.accs, tc)
			e.mu.Unlock()
			select {
			case e.accCh <- tc:
			default:
			}
		}
	}()
	return e, nil
}

type labTCPConn struct {
	hub      *labHub
	conn     net.Conn
	owner    *labEP // listener endpoint for accepted connections, nil for dialed
	accepted bool
	local    string
	remote   string
	name     string
	dead     int32
}

func (c *labTCPConn) String() string {
	if c.accepted {
		return fmt.Sprintf("tcp-accepted@%s<-%s", c.local, c.remote)
	}
	return fmt.Sprintf("tcp-client %s %s->%s", c.name, c.local, c.remote)
}

func (h *labHub) wrapTCP(c net.Conn, owner *labEP, accepted bool) *labTCPConn {
	tc := &labTCPConn{hub: h, conn: c, owner: owner, accepted: accepted, local: c.LocalAddr().String(), remote: c.RemoteAddr().String()}
	if t, ok := c.(*net.TCPConn); ok {
		t.SetNoDelay(true)
	}
	h.mu.Lock()
	h.conns = append(h.conns, tc)
	h.mu.Unlock()
	ra := c.RemoteAddr().(*net.TCPAddr)
	go func() {
		r := bufio.NewReaderSize(c, 1<<16)
		for {
			m, err := sipReadStream(r)
			if err != nil {
				if os.Getenv("VERIF_DEBUG_TCP") != "" && err != io.EOF {
					rest, _ := r.Peek(min(r.Buffered(), 300))
					fmt.Fprintf(os.Stderr, "DEBUG tcp reader %s: %v; got start=%q hdrs=%d; next bytes %q\n", tc, err, func() string {
						if m != nil {
							return m.Start
						}
						return ""
					}(), func() int {
						if m != nil {
							return len(m.Hdrs)
						}
						return 0
					}(), rest)
				}
				// like a real peer: a stream that cannot be framed any more is closed
				// (the sender then sees the failure and reconnects)
				c.Close()
				atomic.StoreInt32(&tc.dead, 1)
				h.push(labRx{ep: owner, tcp: tc, from: ra.String(), fromIP: ra.IP.String(), fromPt: ra.Port, closed: true})
				return
			}
			// re-serialise for byte-level consumers: start line, headers, body as read
			h.push(labRx{ep: owner, tcp: tc, from: ra.String(), fromIP: ra.IP.String(), fromPt: ra.Port, data: []byte("(tcp)"), msg: m})
		}
	}()
	return tc
}

// dialTCP opens a harness client connection from localIP (port 0) to ip:port.
func (h *labHub) dialTCP(name, localIP, ip string, port int) (*labTCPConn, error) {
	d := net.Dialer{LocalAddr: &net.TCPAddr{IP: net.ParseIP(localIP)}, Timeout: 10 * time.Second}
	c, err := d.Dial("tcp", fmt.Sprintf("%s:%d", ip, port))
	if err != nil {
		return nil, err
	}
	tc := h.wrapTCP(c, nil, false)
	tc.name = name
	return tc, nil
}

func (c *labTCPConn) send(data []byte) error {
	c.conn.SetWriteDeadline(time.Now().Add(20 * time.Second))
	_, err := c.conn.Write(data)
	return err
}

// close resets the connection (no TIME_WAIT): long runs must not exhaust the local port range
// sendStrict is send for connections that carry nothing but in-domain
// traffic: if the write fails, the peer - the proxy - has closed a connection
// it had every reason to keep serving; that is reported as a lost message
// (a verdict), not as a harness problem.
func (c *labTCPConn) sendStrict(data []byte) error {
	if err := c.send(data); err != nil {
		return labLost{fmt.Sprintf("the proxy closed the TCP connection %s, which carried only well-formed messages (%v)", c, err)}
	}
	return nil
}

func (c *labTCPConn) close() {
	if tc, ok := c.conn.(*net.TCPConn); ok {
		tc.SetLinger(0)
	}
	c.conn.Close()
}

func (c *labTCPConn) isDead() bool { return atomic.LoadInt32(&c.dead) != 0 }

// drain returns everything queued right now.
func (h *labHub) drain() []labRx {
	var out []labRx
	for {
		select {
		case r := <-h.rx:
			out = append(out, r)
		default:
			return out
		}
	}
}

// waitOne waits for the next reception up to d.
// Long waits (those whose expiry becomes a verdict) count running time only.
func (h *labHub) waitOne(d time.Duration) (labRx, bool) {
	if d >= 200*time.Millisecond {
		return patientRecv(h.rx, d)
	}
	select {
	case r := <-h.rx:
		return r, true
	case <-time.After(d):
		return labRx{}, false
	}
}

// ---- scripted connection ----------------------------------------------------

type c20Conn struct {
	mu        sync.Mutex
	name      string
	failAfter int // -1 healthy; k >= 0: the next write accepts k bytes and fails
	failOnce  bool
	failed    bool
	writes    [][]byte
	closed    bool
	afterFail int // writes attempted after the first failure
}

func (c *c20Conn) Read(p []byte) (int, error) { return 0, errors.New("scripted conn: no reads") }
func (c *c20Conn) Write(p []byte) (int, error) {
	c.mu.Lock()
	defer c.mu.Unlock()
	if c.failed || c.closed {
		c.afterFail++
		c.writes = append(c.writes, nil)
		return 0, errors.New("scripted conn: broken pipe")
	}
	if c.failAfter >= 0 {
		n := c.failAfter
		if n > len(p) {
			n = len(p)
		}
		c.writes = append(c.writes, append([]byte(nil), p[:n]...))
		c.failed = true
		return n, errors.New("scripted conn: connection reset by peer")
	}
	c.writes = append(c.writes, append([]byte(nil), p...))
	return len(p), nil
}
func (c *c20Conn) Close() error                       { c.mu.Lock(); c.closed = true; c.mu.Unlock(); return nil }
func (c *c20Conn) LocalAddr() net.Addr                { return &net.TCPAddr{IP: net.IPv4(127, 0, 0, 2), Port: 40000} }
func (c *c20Conn) RemoteAddr() net.Addr               { return &net.TCPAddr{IP: net.IPv4(127, 0, 0, 3), Port: 5060} }
func (c *c20Conn) SetDeadline(t time.Time) error      { return nil }
func (c *c20Conn) SetReadDeadline(t time.Time) error  { return nil }
func (c *c20Conn) SetWriteDeadline(t time.Time) error { return nil }

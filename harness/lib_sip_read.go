package main

// Independent SIP reader (DESIGN.md 4.2), written from RFC 3261 sections 7, 20
// and 25. Shares no code with the product.

import (
	"bufio"
	"bytes"
	"errors"
	"fmt"
	"io"
	"strconv"
	"strings"
)

type RHdr struct {
	Name  string
	Value string // surrounding SP/HTAB removed
	Kind  int
}

type RMsg struct {
	Start string
	Hdrs  []RHdr
	Body  []byte
}

func rKind(name string) int {
	switch strings.ToLower(name) {
	case "via", "v":
		return hVia
	case "route":
		return hRoute
	case "record-route":
		return hRR
	case "from", "f":
		return hFrom
	case "to", "t":
		return hTo
	case "call-id", "i":
		return hCallID
	case "cseq":
		return hCSeq
	case "content-length", "l":
		return hCL
	}
	return hExt
}

// rCanonName maps any spelling of a header name to a canonical lower-case
// long form (own compact table, RFC 3261 7.3.3 + RFC 3265/3515/3841/3892).
func rCanonName(name string) string {
	l := strings.ToLower(name)
	switch l {
	case "v":
		return "via"
	case "f":
		return "from"
	case "t":
		return "to"
	case "i":
		return "call-id"
	case "l":
		return "content-length"
	case "m":
		return "contact"
	case "c":
		return "content-type"
	case "e":
		return "content-encoding"
	case "k":
		return "supported"
	case "s":
		return "subject"
	case "o":
		return "event"
	case "r":
		return "refer-to"
	case "u":
		return "allow-events"
	case "a":
		return "accept-contact"
	case "b":
		return "referred-by"
	}
	return l
}

func rSplitLine(b []byte) (line []byte, rest []byte, ok bool) {
	i := bytes.IndexByte(b, '\n')
	if i < 0 {
		return nil, b, false
	}
	line = b[:i]
	if len(line) > 0 && line[len(line)-1] == '\r' {
		line = line[:len(line)-1]
	}
	return line, b[i+1:], true
}

func rParseHeaderLine(line []byte) (RHdr, error) {
	i := bytes.IndexByte(line, ':')
	if i < 0 {
		return RHdr{}, fmt.Errorf("header line without colon: %q", line)
	}
	name := string(line[:i])
	return RHdr{Name: name, Value: strings.Trim(string(line[i+1:]), " \t"), Kind: rKind(name)}, nil
}

// sipRead decodes one complete message held in b (datagram semantics: the
// body is everything after the blank line).
func sipRead(b []byte) (*RMsg, error) {
	m := &RMsg{}
	line, rest, ok := rSplitLine(b)
	if !ok {
		return nil, errors.New("no start line")
	}
	m.Start = string(line)
	for {
		line, rest, ok = rSplitLine(rest)
		if !ok {
			return nil, errors.New("header section not terminated")
		}
		if len(line) == 0 {
			break
		}
		h, err := rParseHeaderLine(line)
		if err != nil {
			return nil, err
		}
		m.Hdrs = append(m.Hdrs, h)
	}
	m.Body = rest
	return m, nil
}

// sipReadStream decodes the next message from a byte stream (TCP framing by
// Content-Length; leading empty lines are keep-alives).
func sipReadStream(r *bufio.Reader) (*RMsg, error) {
	m := &RMsg{}
	first := true
	for {
		lb, err := r.ReadBytes('\n')
		if err != nil {
			if err == io.EOF && len(lb) == 0 && first {
				return nil, io.EOF
			}
			if err == io.EOF {
				return nil, io.ErrUnexpectedEOF
			}
			return nil, err
		}
		lb = lb[:len(lb)-1]
		if len(lb) > 0 && lb[len(lb)-1] == '\r' {
			lb = lb[:len(lb)-1]
		}
		if first {
			if len(lb) == 0 {
				continue
			}
			m.Start = string(lb)
			first = false
			continue
		}
		if len(lb) == 0 {
			break
		}
		h, err := rParseHeaderLine(lb)
		if err != nil {
			return nil, err
		}
		m.Hdrs = append(m.Hdrs, h)
	}
	n := -1
	for _, h := range m.Hdrs {
		if h.Kind == hCL {
			v, err := strconv.Atoi(h.Value)
			if err != nil || v < 0 {
				return nil, fmt.Errorf("bad Content-Length %q", h.Value)
			}
			n = v
			break
		}
	}
	if n < 0 {
		return nil, errors.New("stream message without Content-Length")
	}
	// (the declared length is not trusted with an allocation: the body is read as
	// it comes, a stream that ends early yields the reader's error)
	var body bytes.Buffer
	if got, err := io.CopyN(&body, r, int64(n)); err != nil {
		if err == io.EOF && got > 0 {
			err = io.ErrUnexpectedEOF
		}
		return nil, err
	}
	m.Body = body.Bytes()
	if m.Body == nil {
		m.Body = []byte{}
	}
	return m, nil
}

func (m *RMsg) Values(kind int) []string {
	var out []string
	for _, h := range m.Hdrs {
		if h.Kind == kind {
			out = append(out, h.Value)
		}
	}
	return out
}

func (m *RMsg) First(kind int) (string, bool) {
	for _, h := range m.Hdrs {
		if h.Kind == kind {
			return h.Value, true
		}
	}
	return "", false
}

func (m *RMsg) Ext(name string) (string, bool) {
	c := rCanonName(name)
	for _, h := range m.Hdrs {
		if rCanonName(h.Name) == c {
			return h.Value, true
		}
	}
	return "", false
}

// Others: header lines that are neither Via/Route/Record-Route nor Content-Length.
func (m *RMsg) Others() [][2]string {
	var out [][2]string
	for _, h := range m.Hdrs {
		switch h.Kind {
		case hVia, hRoute, hRR, hCL:
			continue
		}
		out = append(out, [2]string{h.Name, h.Value})
	}
	return out
}

// rSplitTop splits s on sep outside "..." and <...>.
func rSplitTop(s string, sep byte) []string {
	var out []string
	inQ, inA := false, false
	start := 0
	for i := 0; i < len(s); i++ {
		c := s[i]
		switch {
		case inQ:
			if c == '\\' {
				i++
			} else if c == '"' {
				inQ = false
			}
		case c == '"':
			inQ = true
		case c == '<':
			inA = true
		case c == '>':
			inA = false
		case c == sep && !inA:
			out = append(out, s[start:i])
			start = i + 1
		}
	}
	return append(out, s[start:])
}

// Entries returns the list entries of all lines of a list header kind, each
// trimmed of surrounding blanks, in order.
func (m *RMsg) Entries(kind int) []string {
	var out []string
	for _, v := range m.Values(kind) {
		for _, e := range rSplitTop(v, ',') {
			out = append(out, strings.Trim(e, " \t"))
		}
	}
	return out
}

func rParams(parts []string) []AParam {
	var out []AParam
	for _, p := range parts {
		if i := strings.IndexByte(p, '='); i >= 0 {
			out = append(out, AParam{K: p[:i], V: p[i+1:], HasV: true})
		} else {
			out = append(out, AParam{K: p})
		}
	}
	return out
}

func rHostPort(s string) (string, int, error) {
	if strings.HasPrefix(s, "[") {
		j := strings.IndexByte(s, ']')
		if j < 0 {
			return "", 0, fmt.Errorf("unterminated IPv6 reference %q", s)
		}
		host := s[:j+1]
		rest := s[j+1:]
		if rest == "" {
			return host, 0, nil
		}
		if rest[0] != ':' {
			return "", 0, fmt.Errorf("bad hostport %q", s)
		}
		p, err := strconv.Atoi(rest[1:])
		return host, p, err
	}
	if i := strings.LastIndexByte(s, ':'); i >= 0 {
		p, err := strconv.Atoi(s[i+1:])
		return s[:i], p, err
	}
	return s, 0, nil
}

func rVia(entry string) (AVia, error) {
	parts := rSplitTop(entry, ';')
	f := strings.Fields(parts[0])
	if len(f) != 2 {
		return AVia{}, fmt.Errorf("via-parm %q: want 'sent-protocol sent-by'", entry)
	}
	sp := strings.Split(f[0], "/")
	if len(sp) != 3 {
		return AVia{}, fmt.Errorf("via-parm %q: bad sent-protocol", entry)
	}
	host, port, err := rHostPort(f[1])
	if err != nil {
		return AVia{}, fmt.Errorf("via-parm %q: %v", entry, err)
	}
	return AVia{Proto: sp[0], Ver: sp[1], Transport: sp[2], Host: host, Port: port, Params: rParams(parts[1:])}, nil
}

func rURI(s string) (AURI, error) {
	var u AURI
	switch {
	case strings.HasPrefix(s, "sip:"):
		u.Scheme, s = "sip", s[4:]
	case strings.HasPrefix(s, "sips:"):
		u.Scheme, s = "sips", s[5:]
	default:
		return AURI{Abs: s}, nil
	}
	if i := strings.IndexByte(s, '@'); i >= 0 {
		ui := s[:i]
		s = s[i+1:]
		if j := strings.IndexByte(ui, ':'); j >= 0 {
			u.User, u.Pass = ui[:j], ui[j+1:]
		} else {
			u.User = ui
		}
	}
	hdrs := ""
	if i := strings.IndexByte(s, '?'); i >= 0 {
		hdrs, s = s[i+1:], s[:i]
	}
	params := ""
	if i := strings.IndexByte(s, ';'); i >= 0 {
		params, s = s[i+1:], s[:i]
	}
	var err error
	u.Host, u.Port, err = rHostPort(s)
	if err != nil {
		return u, err
	}
	if params != "" {
		u.Params = rParams(strings.Split(params, ";"))
	}
	if hdrs != "" {
		for _, h := range strings.Split(hdrs, "&") {
			if i := strings.IndexByte(h, '='); i >= 0 {
				u.Hdrs = append(u.Hdrs, AParam{K: h[:i], V: h[i+1:], HasV: true})
			} else {
				u.Hdrs = append(u.Hdrs, AParam{K: h})
			}
		}
	}
	return u, nil
}

func rNameAddr(entry string) (ANameAddr, error) {
	var n ANameAddr
	// find '<' outside quotes
	inQ := false
	lt := -1
	for i := 0; i < len(entry); i++ {
		c := entry[i]
		if inQ {
			if c == '\\' {
				i++
			} else if c == '"' {
				inQ = false
			}
			continue
		}
		if c == '"' {
			inQ = true
		} else if c == '<' {
			lt = i
			break
		}
	}
	var uriText, rest string
	if lt >= 0 {
		gt := strings.IndexByte(entry[lt:], '>')
		if gt < 0 {
			return n, fmt.Errorf("name-addr %q: no '>'", entry)
		}
		n.Display = entry[:lt]
		uriText = entry[lt+1 : lt+gt]
		rest = entry[lt+gt+1:]
	} else {
		n.Bare = true
		if i := strings.IndexByte(entry, ';'); i >= 0 {
			uriText, rest = entry[:i], entry[i:]
		} else {
			uriText = entry
		}
	}
	u, err := rURI(uriText)
	if err != nil {
		return n, err
	}
	n.URI = u
	rest = strings.Trim(rest, " \t")
	if rest != "" {
		if rest[0] != ';' {
			return n, fmt.Errorf("name-addr %q: junk after '>'", entry)
		}
		n.Params = rParams(strings.Split(rest[1:], ";"))
	}
	return n, nil
}

//verif:needs core,sip,lab
package main

// C15 - dialog pins live exactly as long as promised and are forgotten on
// termination. Engine: unit with measured time (millisecond lifetimes on a
// DialogBasedBackend literal). No timer decides correctness: every pin and
// probe is bracketed by time.Now() and only probes that are certainly inside
// or certainly outside the lifetime are judged.

import (
	"bufio"
	"fmt"
	"os"
	"strings"
	"sync"
	"testing"
	"time"

	"pgregory.net/rapid"
)

type c15Backend struct{ addr string }

func (b *c15Backend) Send(msg *Message) error { return nil }
func (b *c15Backend) GetAddress() string      { return b.addr }
func (b *c15Backend) Close()                  {}

type c15Pin struct {
	before, after time.Time
	life          time.Duration
	backend       *c15Backend
	terminated    bool
}

func c15New(T time.Duration) *DialogBasedBackend {
	// the product's constructor (seconds granularity), then a millisecond timeout
	d := NewDialogBasedBackend(1)
	d.timeout = T
	d.nextCleanTime = time.Now().Add(T)
	return d
}

func TestC15(t *testing.T) {
	V.Rule("unit, measured time: rapid state machine over pin(d, Expires in {0,1,2,2^31-1} s) / lookup / terminate / sleep / traffic on a pin table with timeout T in {30,60,120} ms; a lookup whose latest possible age is below the lifetime max(T, Expires) must find the pinned backend, one whose earliest possible age is at or beyond it must not, anything between is a don't-care; after terminate: not found. Boundedness scenarios: expired keys plus one huge-Expires pin, then steady traffic at measured gaps <= T/4 for 3T: every key expired more than 1.5T ago must be gone from the table and the table size stays bounded. non-trivial = history with a probe on each side of an expiry, or a termination followed by a probe, or a huge-Expires pin followed by >= 2T of traffic; distinct by history text. lab / bin: the same on a real proxy with a 1 s dialog timeout (termination histories of BYE / NOTIFY / in-dialog probes; a BYE answered with each of 45 notable final statuses - thorough: every status 200-699 - must dissolve the pin; expiry probes with measured ages)")
	V.Assume("time is measured around every product call; scheduling delays can only turn a judged probe into a don't-care (a boundedness scenario whose measured traffic gap exceeds T/4 is skipped and counted)")
	V.Require("lab: a service without dialogTimeout beside one with dialogTimeout 1", "lab: the pin outlives an outage of its backend", "probe before expiry", "probe after expiry", "terminate then probe", "huge Expires pin", "boundedness scenario judged")

	rcheck(t, "lifetimes", V.N(100, 600), func(rt *rapid.T) {
		T := time.Duration(rapid.SampledFrom([]int{30, 60, 120}).Draw(rt, "T_ms")) * time.Millisecond
		dbb := c15New(T)
		nkeys := rapid.IntRange(1, 12).Draw(rt, "keys")
		backends := []*c15Backend{{"10.0.0.1:5060"}, {"10.0.0.2:5060"}, {"10.0.0.3:5060"}}
		pins := map[int]*c15Pin{}
		hist := fmt.Sprintf("T=%v", T)
		V.Case(hist)
		sawBefore, sawAfter, sawTerm := false, false, false
		fresh := 0
		steps := rapid.IntRange(3, 40).Draw(rt, "steps")
		for i := 0; i < steps; i++ {
			switch rapid.IntRange(0, 6).Draw(rt, "op") {
			case 0, 1: // pin
				d := rapid.IntRange(0, nkeys-1).Draw(rt, "d")
				exp := rapid.SampledFrom([]int{0, 0, 0, 1, 2, 1<<31 - 1}).Draw(rt, "expires")
				b := backends[rapid.IntRange(0, 2).Draw(rt, "backend")]
				life := T
				if time.Duration(exp)*time.Second > T {
					life = time.Duration(exp) * time.Second
				}
				p := &c15Pin{backend: b, life: life}
				p.before = time.Now()
				dbb.AddBackend(fmt.Sprintf("dlg-%d", d), b, exp)
				p.after = time.Now()
				pins[d] = p
				hist += fmt.Sprintf(" pin(%d,exp=%d)", d, exp)
				V.ClassIf(exp == 1<<31-1, "huge Expires pin")
			case 2, 3: // lookup
				d := rapid.IntRange(0, nkeys-1).Draw(rt, "d")
				before := time.Now()
				got, err := dbb.GetBackend(fmt.Sprintf("dlg-%d", d))
				after := time.Now()
				hist += fmt.Sprintf(" lookup(%d)", d)
				V.Case(hist)
				p := pins[d]
				if p == nil || p.terminated {
					if err == nil {
						failf(rt, "lookup of dialog %d found backend %s although it was never pinned or was terminated [%s]", d, got.GetAddress(), hist)
					}
					if p != nil {
						sawTerm = true
						V.Class("terminate then probe")
					}
					continue
				}
				latest := after.Sub(p.before)
				earliest := before.Sub(p.after)
				switch {
				case latest < p.life:
					sawBefore = true
					V.Class("probe before expiry")
					if err != nil {
						failf(rt, "pin of dialog %d (lifetime %v) not honoured at age <= %v: %v [%s]", d, p.life, latest, err, hist)
					}
					if got != Backend(p.backend) {
						failf(rt, "pin of dialog %d returns backend %s, pinned to %s [%s]", d, got.GetAddress(), p.backend.addr, hist)
					}
				case earliest >= p.life:
					sawAfter = true
					V.Class("probe after expiry")
					if err == nil {
						failf(rt, "pin of dialog %d (lifetime %v) still honoured at age >= %v [%s]", d, p.life, earliest, hist)
					}
				default:
					V.Class("probe in the don't-care window")
				}
			case 4: // terminate
				d := rapid.IntRange(0, nkeys-1).Draw(rt, "d")
				dbb.RemoveDialog(fmt.Sprintf("dlg-%d", d))
				if p := pins[d]; p != nil {
					p.terminated = true
				}
				hist += fmt.Sprintf(" terminate(%d)", d)
			case 5: // sleep
				ms := rapid.IntRange(1, int(2*T/time.Millisecond)).Draw(rt, "sleep_ms")
				time.Sleep(time.Duration(ms) * time.Millisecond)
				hist += fmt.Sprintf(" sleep(%dms)", ms)
			default: // traffic: pins of fresh keys give the sweep its chance
				n := rapid.IntRange(1, 5).Draw(rt, "n")
				for j := 0; j < n; j++ {
					fresh++
					dbb.AddBackend(fmt.Sprintf("fresh-%d", fresh), backends[0], 0)
				}
				hist += fmt.Sprintf(" traffic(%d)", n)
			}
		}
		V.Case(hist)
		if sawBefore && sawAfter || sawTerm {
			V.NonTrivial(hist)
		}
		V.SampleEvery(20, func() any { return hist })
	})

	rcheck(t, "boundedness", V.N(25, 250), func(rt *rapid.T) {
		T := time.Duration(rapid.SampledFrom([]int{30, 60}).Draw(rt, "T_ms")) * time.Millisecond
		dbb := c15New(T)
		b := &c15Backend{"10.0.0.1:5060"}
		nshort := rapid.IntRange(1, 100).Draw(rt, "short-lived pins")
		if rapid.Bool().Draw(rt, "many pins expire in the same period") {
			// hundreds to thousands of pins created together: one sweep has to take them all
			nshort = rapid.SampledFrom([]int{150, 300, 700, 1500, 4000}).Draw(rt, "burst of pins")
			V.Class("boundedness: >= 150 pins expire within one period")
		}
		hugeAt := rapid.IntRange(0, 3).Draw(rt, "huge pin at phase") // 0 = none, 1 before, 2 after the first sleep, 3 during traffic
		hugeExp := rapid.SampledFrom([]int{1<<31 - 1, 86400, 3600}).Draw(rt, "huge Expires")
		warm := rapid.Bool().Draw(rt, "let the first sweep period pass first")
		hist := fmt.Sprintf("T=%v short=%d hugeAt=%d hugeExp=%d warm=%v", T, nshort, hugeAt, hugeExp, warm)
		V.Case(hist)
		if warm {
			time.Sleep(T + T/4)
		}
		if hugeAt == 1 {
			dbb.AddBackend("huge", b, hugeExp)
		}
		type rec struct {
			key string
			end time.Time // latest possible end of lifetime
		}
		var shorts []rec
		for i := 0; i < nshort; i++ {
			k := fmt.Sprintf("short-%d", i)
			dbb.AddBackend(k, b, 0)
			shorts = append(shorts, rec{k, time.Now().Add(T)})
		}
		if hugeAt == 2 {
			time.Sleep(T + T/8)
			dbb.AddBackend("huge", b, hugeExp)
		}
		// steady traffic for 3.5 T at gaps of T/8, gaps measured
		start := time.Now()
		last := start
		worst := time.Duration(0)
		i := 0
		var traffic []rec
		for time.Since(start) < 3*T+T/2 {
			time.Sleep(T / 8)
			if hugeAt == 3 && i == 3 {
				dbb.AddBackend("huge", b, hugeExp)
			}
			k := fmt.Sprintf("traffic-%d", i)
			i++
			dbb.AddBackend(k, b, 0)
			now := time.Now()
			traffic = append(traffic, rec{k, now.Add(T)})
			if g := now.Sub(last); g > worst {
				worst = g
			}
			last = now
		}
		if worst > T/4 {
			V.Class("boundedness scenario skipped (measured traffic gap > T/4)")
			return
		}
		V.Class("boundedness scenario judged")
		V.ClassIf(hugeAt != 0, "huge Expires pin")
		if hugeAt != 0 {
			V.NonTrivial(hist)
		}
		V.SampleEvery(5, func() any { return hist })
		now := time.Now()
		live := 0
		for _, r := range append(shorts, traffic...) {
			_, present := dbb.backends[r.key]
			if now.Sub(r.end) > T+T/2 {
				if present {
					failf(rt, "pin %s expired %v ago (timeout %v) and is still in the table after continuous traffic at gaps <= %v; table size %d [%s]", r.key, now.Sub(r.end), T, worst, len(dbb.backends), hist)
				}
			} else {
				live++
			}
		}
		if hugeAt != 0 {
			live++
			if _, err := dbb.GetBackend("huge"); err != nil {
				failf(rt, "pin with Expires %d s is not honoured after %v [%s]", hugeExp, time.Since(start), hist)
			}
		}
		if len(dbb.backends) > live {
			failf(rt, "table holds %d pins, at most %d are within lifetime or expired less than 1.5 T ago [%s]", len(dbb.backends), live, hist)
		}
	})

	c15ProxyBoundedness(t)

	// Two services in one configuration file: the first says dialogTimeout: 1, the
	// second says nothing - its pins live for the default (20 min). A dialog of the
	// second service is still pinned well after the first service's timeout.
	if tsvc, err := newStdSvc(stdVariant{Two: true, Timeout: 1}); err != nil {
		V.HarnessError(t, "cannot start lab instance: %v", err)
	} else {
		rcheck(t, "two-services-timeouts", V.N(2, 12), func(rt *rapid.T) {
			s := tsvc
			l := s.in.cfg.More[0].Listens[0]
			ua := s.uas[rapid.IntRange(0, 3).Draw(rt, "ua")]
			send := func(b []byte) error { return ua.sendUDP(l.Addr, l.UDPPort, b) }
			id := s.nextID("c15two-")
			mk := func(method, callID, toTag string, cseq int) []byte {
				to := "<sip:b@nomatch.example>"
				if toTag != "" {
					to += ";tag=" + toTag
				}
				return []byte(fmt.Sprintf("%s sip:svc-b.test SIP/2.0\r\nVia: SIP/2.0/UDP %s:5060;branch=z9hG4bK%s-%d\r\nFrom: <sip:a@a.example>;tag=f\r\nTo: %s\r\nCall-ID: %s\r\nCSeq: %d %s\r\nContent-Length: 0\r\n\r\n", method, ua.ip, callID, cseq, to, callID, cseq, method))
			}
			one := func(wire []byte) labRx {
				s.in.expect(wire)
				if err := send(wire); err != nil {
					V.HarnessError(rt, "send: %v", err)
				}
				rs, err := s.in.settle(send, 1)
				if _, lost := err.(labLost); lost {
					failf(rt, "%v", err)
				} else if err != nil {
					V.HarnessError(rt, "%v", err)
				}
				got := labMessages(rs)
				if len(got) != 1 || got[0].ep == nil || got[0].ep.port != 5080 || (got[0].ep.ip != s.ip(37) && got[0].ep.ip != s.ip(38)) {
					failf(rt, "a request for the second service must reach exactly one of its two backends; receptions:\n%s", labDescribe(got))
				}
				return got[0]
			}
			inv := one(mk("INVITE", id, "", 1))
			resp := buildResponse(inv.msg, 200, "OK", "t"+id, "")
			bep := inv.ep
			bsend := func(b []byte) error { return bep.sendUDP(l.Addr, l.UDPPort, b) }
			s.in.expect(resp)
			if err := bsend(resp); err != nil {
				V.HarnessError(rt, "backend send: %v", err)
			}
			if _, err := s.in.settle(bsend, 1); err != nil {
				if _, lost := err.(labLost); lost {
					failf(rt, "%v", err)
				}
				V.HarnessError(rt, "%v", err)
			}
			pinnedAt := time.Now()
			time.Sleep(time.Duration(rapid.IntRange(1300, 2100).Draw(rt, "ms of silence")) * time.Millisecond)
			// the rotation must not point at the pinned backend by itself
			last := inv.ep
			for i := 0; i < 3; i++ {
				// after a dispatch to X the next unpinned one goes to the other backend; we want "next != pinned", i.e. last == pinned
				if last.ip == bep.ip {
					break
				}
				last = one(mk("OPTIONS", s.nextID("c15twof-"), "", 1)).ep
			}
			if last.ip != bep.ip {
				return
			}
			got := one(mk(rapid.SampledFrom([]string{"INFO", "BYE", "UPDATE"}).Draw(rt, "in-dialog method"), id, "t"+id, 2))
			V.Class("lab: a service without dialogTimeout beside one with dialogTimeout 1")
			V.NonTrivial("two|" + id)
			if got.ep.ip != bep.ip {
				failf(rt, "second service of the configuration file (no dialogTimeout; the first service says dialogTimeout: 1): a dialog pinned to %s %v ago - far inside the default lifetime of 20 min - was load-balanced to %s", bep, time.Since(pinnedAt).Round(10*time.Millisecond), got.ep)
			}
		})
	}

	// a fault history on a service with the default dialog timeout (20 min): an
	// outage of the pinned backend dissolves nothing
	if osvc, err := newStdSvc(stdVariant{Pool: 2, PoolTCP: true}); err != nil {
		V.HarnessError(t, "cannot start lab instance: %v", err)
	} else {
		rcheck(t, "backend-outage", V.N(12, 150), func(rt *rapid.T) {
			obs, ok, err := osvc.backendOutage(rt, t.Name()+"/backend-outage")
			if _, lost := err.(labLost); lost {
				failf(rt, "%v\nhistory: %s", err, obs)
			} else if err != nil {
				V.HarnessError(rt, "%v", err)
			}
			if !ok {
				return
			}
			V.Class("lab: the pin outlives an outage of its backend")
			V.NonTrivial("outage|" + obs.String())
			V.SampleEvery(10, func() any { return obs })
			if f := outageSticky(obs); f != "" {
				failf(rt, "%s", f)
			}
		})
	}

	// ---- lab part: the wiring (dialogTimeout, Expires, BYE / NOTIFY paths) on a real proxy
	c15Lab(t, stdVariant{Pool: 4, Timeout: 1}, "lab")
	if os.Getenv("VERIF_BIN") != "" && !V.replay {
		// bin engine: no dialogTimeout in the YAML, DEFAULT_DIALOG_TIMEOUT=1 in the
		// environment of the real binary
		c15Lab(t, stdVariant{Pool: 4, Bin: true, BinEnv: []string{"DEFAULT_DIALOG_TIMEOUT=1"}}, "bin")
	}
}

type c15Dlg struct {
	fromTag   string // "" = "f"+id
	id        string
	callID    string
	at        labRx
	pinned    string
	pinBefore time.Time
	pinAfter  time.Time
	life      time.Duration
}

func c15Lab(t *testing.T, variant stdVariant, engine string) {
	V.Require("lab: BYE answered from another socket of the backend", "lab: another dialog with the same Call-ID outlives what ends the first", "lab: a refused re-INVITE leaves the pin in place", "lab: BYE answered dissolves the pin", "lab: NOTIFY terminated dissolves the pin", "lab: NOTIFY active keeps the pin", "lab: probe before expiry", "lab: probe after expiry", "lab: Expires extends the lifetime")
	svc, err := newStdSvc(variant)
	if err != nil {
		V.HarnessError(t, "cannot start %s instance: %v", engine, err)
	}
	s := svc
	if variant.Bin {
		defer s.in.stopBin()
		V.Require("bin: DEFAULT_DIALOG_TIMEOUT honoured by the real binary")
	}
	l := s.in.cfg.Listens[0]
	for _, b := range l.Backends {
		_, hp, _ := strings.Cut(b, "://")
		host, port := splitHostPort(hp)
		s.in.hub.udpEP("backend-udp", host, port)
	}
	ua := s.uas[0]
	send := func(b []byte) error { return ua.sendUDP(l.Addr, l.UDPPort, b) }
	lastRR := ""
	deco := 0
	request := func(method, callID, fromTag, toTag, extra string) ([]labRx, error) {
		// the parties' URIs are written now with, now without SIP-URI parameters and
		// display names: they do not take part in the identity of a dialog
		deco++
		to := []string{"<sip:b@nomatch.example>", "<sip:b@nomatch.example;user=phone>", "\"B\" <sip:b@nomatch.example;transport=udp;x>"}[deco%3]
		if toTag != "" {
			to += ";tag=" + toTag
		}
		from := []string{"<sip:a@a.example>", "A <sip:a@a.example;user=phone>"}[(deco/3)%2]
		wire := []byte(fmt.Sprintf("%s sip:svc.test SIP/2.0\r\nVia: SIP/2.0/UDP %s:5060;branch=z9hG4bK%s;rport\r\nFrom: %s;tag=%s\r\nTo: %s\r\nCall-ID: %s\r\nCSeq: 1 %s\r\n%sContent-Length: 0\r\n\r\n", method, ua.ip, s.nextID("c15b"), from, fromTag, to, callID, method, extra))
		s.model.learnRequest(s.model.transport(0, "udp"), ua.ip, &AMsg{IsReq: true, Hdrs: []AHdr{{Kind: hVia, Vias: []AVia{{Host: ua.ip}}}}})
		s.in.expect(wire)
		if err := send(wire); err != nil {
			return nil, err
		}
		rs, err := s.in.settle(send, 1)
		return labMessages(rs), err
	}
	answer := func(at labRx, code int, toTag, extra string) error {
		resp := buildResponse(at.msg, code, "Answer", toTag, extra)
		ep := at.ep
		bsend := func(b []byte) error { return ep.sendUDP(l.Addr, l.UDPPort, b) }
		s.in.expect(resp)
		if err := bsend(resp); err != nil {
			return err
		}
		_, err := s.in.settle(bsend, 1)
		return err
	}
	key := func(r labRx) string { return fmt.Sprintf("%s:%d", r.ep.ip, r.ep.port) }
	order := []string{}
	for _, b := range l.Backends {
		_, hp, _ := strings.Cut(b, "://")
		order = append(order, hp)
	}
	next := func() string {
		for i, k := range order {
			if k == lastRR {
				return order[(i+1)%len(order)]
			}
		}
		return ""
	}
	// steer the rotation so that the next load-balanced request would NOT go to avoid
	steer := func(avoid string) error {
		for i := 0; i < len(order)+1; i++ {
			if n := next(); n != "" && n != avoid {
				return nil
			}
			got, err := request("OPTIONS", "c15-filler-"+s.nextID("f"), "x", "", "")
			if err != nil || len(got) != 1 {
				return fmt.Errorf("filler request not delivered: %v", err)
			}
			lastRR = key(got[0])
		}
		return nil
	}
	pin := func(expires string) (*c15Dlg, error) {
		d := &c15Dlg{id: s.nextID("c15d")}
		d.callID = "c15-" + d.id
		got, err := request("INVITE", d.callID, "f"+d.id, "", "")
		if err != nil || len(got) != 1 {
			return nil, fmt.Errorf("INVITE not delivered to one backend: %v\n%s", err, labDescribe(got))
		}
		d.at, d.pinned = got[0], key(got[0])
		lastRR = d.pinned
		extra := ""
		d.life = time.Second
		if expires != "" {
			extra = "Expires: " + expires + "\r\n"
			var n int64
			fmt.Sscanf(expires, "%d", &n)
			if time.Duration(n)*time.Second > d.life {
				d.life = time.Duration(n) * time.Second
			}
		}
		d.pinBefore = time.Now()
		err = answer(d.at, 200, "t"+d.id, extra)
		d.pinAfter = time.Now()
		return d, err
	}
	// probe returns whether the in-dialog request reached the pinned backend
	probe := func(d *c15Dlg, method, extra string) (bool, time.Time, time.Time, error) {
		if err := steer(d.pinned); err != nil {
			return false, time.Time{}, time.Time{}, err
		}
		before := time.Now()
		ft := "f" + d.id
		if d.fromTag != "" {
			ft = d.fromTag
		}
		got, err := request(method, d.callID, ft, "t"+d.id, extra)
		after := time.Now()
		if err != nil || len(got) != 1 {
			return false, before, after, fmt.Errorf("in-dialog %s not delivered to exactly one backend: %v\n%s", method, err, labDescribe(got))
		}
		k := key(got[0])
		if k != d.pinned {
			lastRR = k
		}
		return k == d.pinned, before, after, nil
	}
	lost := func(err error) bool { _, ok := err.(labLost); return ok }

	rcheck(t, engine+"-termination", V.N(map[bool]int{false: 60, true: 15}[variant.Bin], map[bool]int{false: 400, true: 100}[variant.Bin]), func(rt *rapid.T) {
		d, err := pin("")
		if err != nil {
			if lost(err) {
				failf(rt, "%v", err)
			}
			V.HarnessError(rt, "%v", err)
		}
		hist := []string{"INVITE/200 pins " + d.id + " to " + d.pinned}
		// now and then the call has a second leg: the same INVITE (Call-ID, From tag)
		// lands on another backend as well, which answers with a To-tag of its own -
		// a dialog of its own, which nothing that happens to the first one ends
		var sib *c15Dlg
		if rapid.IntRange(0, 2).Draw(rt, "a second dialog with the same Call-ID and From tag") == 0 {
			sib = &c15Dlg{id: s.nextID("c15s"), callID: d.callID, fromTag: "f" + d.id, life: time.Second}
			got, err := request("INVITE", sib.callID, sib.fromTag, "", "")
			if err != nil || len(got) != 1 {
				if lost(err) {
					failf(rt, "%v", err)
				}
				V.HarnessError(rt, "second INVITE of the call not delivered to one backend: %v", err)
			}
			sib.at, sib.pinned = got[0], key(got[0])
			lastRR = sib.pinned
			sib.pinBefore = time.Now()
			if err := answer(sib.at, 200, "t"+sib.id, ""); err != nil {
				if lost(err) {
					failf(rt, "%v", err)
				}
				V.HarnessError(rt, "%v", err)
			}
			hist = append(hist, "a second INVITE of the same call (Call-ID, From tag) is answered by "+sib.pinned+" with another To-tag: dialog "+sib.id)
		}
		V.Journal(t.Name()+"/"+engine+"-termination", hist)
		expectPinned := true
		dontCare := false
		steps := rapid.IntRange(1, 4).Draw(rt, "steps")
		// the pin lives for 1 s: when the history ran so slowly (loaded or frozen
		// sandbox) that a probe may have been handled after the pin's timeout,
		// where the probe went no longer tells anything about termination
		probeT := probe
		probe := func(d *c15Dlg, method, extra string) (bool, time.Time, time.Time, error) {
			stuck, before, after, err := probeT(d, method, extra)
			if after.Sub(d.pinBefore) > d.life-50*time.Millisecond && !dontCare {
				dontCare = true
				V.Class("lab: termination history outlived the pin's timeout (rest is don't-care)")
			}
			return stuck, before, after, err
		}
		for i := 0; i < steps; i++ {
			switch rapid.IntRange(0, 4).Draw(rt, "op") {
			case 4: // a re-INVITE the backend refuses: the dialog - and its pin - live on
				stuck, _, _, err := probe(d, "INVITE", "")
				if err != nil {
					failf(rt, "%v\nhistory: %v", err, hist)
				}
				code := rapid.SampledFrom([]int{488, 491, 401, 407, 422, 486, 500, 603}).Draw(rt, "re-INVITE refused with")
				hist = append(hist, fmt.Sprintf("re-INVITE (reached pinned backend: %v), refused with %d", stuck, code))
				if !dontCare && stuck != expectPinned {
					failf(rt, "in-dialog INVITE reached the pinned backend: %v, expected %v\nhistory: %v", stuck, expectPinned, hist)
				}
				if stuck && expectPinned {
					if err := answerWith(s, l, d, code, "INVITE"); err != nil {
						if lost(err) {
							failf(rt, "%v", err)
						}
						V.HarnessError(rt, "%v", err)
					}
					V.Class("lab: a refused re-INVITE leaves the pin in place")
				}
			case 0: // BYE answered by the backend with any final status
				code := gFinalStatus(rt, "bye status")
				stuck, _, _, err := probe(d, "BYE", "")
				if err != nil {
					failf(rt, "%v\nhistory: %v", err, hist)
				}
				hist = append(hist, fmt.Sprintf("BYE (reached pinned backend: %v), answered %d", stuck, code))
				if expectPinned && !dontCare && !stuck {
					failf(rt, "BYE of a pinned dialog was not delivered to the pinned backend %s\nhistory: %v", d.pinned, hist)
				}
				if stuck {
					// the backend that got the BYE answers it
					got, _ := request("OPTIONS", "c15-noop-"+s.nextID("n"), "x", "", "")
					if len(got) == 1 {
						lastRR = key(got[0])
					}
					byeAt := d.at
					_ = byeAt
				}
				// answer from the pinned backend (it received the BYE when stuck)
				if stuck {
					if err := answerBye(s, l, d, code); err != nil {
						if lost(err) {
							failf(rt, "%v", err)
						}
						V.HarnessError(rt, "%v", err)
					}
					expectPinned = false
					V.Class("lab: BYE answered dissolves the pin")
				}
			case 1: // NOTIFY terminated
				stuck, _, _, err := probe(d, "NOTIFY", "Subscription-State: terminated\r\nEvent: x\r\n")
				if err != nil {
					failf(rt, "%v\nhistory: %v", err, hist)
				}
				hist = append(hist, fmt.Sprintf("NOTIFY terminated (reached pinned backend: %v)", stuck))
				if !dontCare && stuck != expectPinned {
					failf(rt, "NOTIFY (Subscription-State: terminated) reached the pinned backend: %v, expected %v\nhistory: %v", stuck, expectPinned, hist)
				}
				if expectPinned {
					V.Class("lab: NOTIFY terminated dissolves the pin")
				}
				expectPinned = false
			case 2: // NOTIFY active / terminated with reason (don't-care)
				state := rapid.SampledFrom([]string{"active", "active;expires=30", "pending", "terminated;reason=timeout"}).Draw(rt, "state")
				stuck, _, _, err := probe(d, "NOTIFY", "Subscription-State: "+state+"\r\nEvent: x\r\n")
				if err != nil {
					failf(rt, "%v\nhistory: %v", err, hist)
				}
				hist = append(hist, fmt.Sprintf("NOTIFY %s (reached pinned backend: %v)", state, stuck))
				if !dontCare && stuck != expectPinned {
					failf(rt, "NOTIFY (Subscription-State: %s) reached the pinned backend: %v, expected %v\nhistory: %v", state, stuck, expectPinned, hist)
				}
				if strings.HasPrefix(state, "terminated") {
					dontCare = true
				} else if expectPinned {
					V.Class("lab: NOTIFY active keeps the pin")
				}
			default: // plain in-dialog probe
				m := rapid.SampledFrom([]string{"INFO", "UPDATE", "MESSAGE"}).Draw(rt, "method")
				stuck, _, _, err := probe(d, m, "")
				if err != nil {
					failf(rt, "%v\nhistory: %v", err, hist)
				}
				hist = append(hist, fmt.Sprintf("%s (reached pinned backend: %v)", m, stuck))
				if !dontCare && stuck != expectPinned {
					failf(rt, "in-dialog %s reached the pinned backend: %v, expected %v (a dissolved pin must be load-balanced, a live one honoured)\nhistory: %v", m, stuck, expectPinned, hist)
				}
			}
			V.Journal(t.Name()+"/"+engine+"-termination", hist)
		}
		if sib != nil {
			m := rapid.SampledFrom([]string{"INFO", "UPDATE", "MESSAGE"}).Draw(rt, "method for the other dialog of the call")
			stuck, _, after, err := probeT(sib, m, "")
			if err != nil {
				failf(rt, "%v\nhistory: %v", err, hist)
			}
			hist = append(hist, fmt.Sprintf("%s in the call's other dialog %s (reached its backend: %v)", m, sib.id, stuck))
			V.Journal(t.Name()+"/"+engine+"-termination", hist)
			if after.Sub(sib.pinBefore) <= sib.life-50*time.Millisecond {
				V.Class("lab: another dialog with the same Call-ID outlives what ends the first")
				if !stuck {
					failf(rt, "in-dialog %s of dialog %s (pinned to %s less than a dialog timeout ago; nothing ended it) was load-balanced - what happened to the other dialog of the same call (same Call-ID and From tag, another To-tag) does not concern it\nhistory: %v", m, sib.id, sib.pinned, hist)
				}
			}
		}
		V.NonTrivial(strings.Join(hist[1:], "|"))
		V.SampleEvery(20, func() any { return hist })
	})

	// The backend answers the BYE from another socket than the one it listens on
	// (the answer still follows the Via chain through the proxy): the backend has
	// answered the BYE - the pin is dissolved.
	if !variant.Bin {
		rcheck(t, engine+"-bye-other-socket", V.N(8, 60), func(rt *rapid.T) {
			d, err := pin("")
			if err != nil {
				if lost(err) {
					failf(rt, "%v", err)
				}
				V.HarnessError(rt, "%v", err)
			}
			if err := steer(d.pinned); err != nil {
				V.HarnessError(rt, "%v", err)
			}
			got, err := request("BYE", d.callID, "f"+d.id, "t"+d.id, "")
			if err != nil || len(got) != 1 {
				if lost(err) {
					failf(rt, "%v", err)
				}
				V.HarnessError(rt, "BYE not delivered to one backend: %v", err)
			}
			if key(got[0]) != d.pinned || got[0].tcp != nil {
				return // where the BYE goes is judged by the termination histories
			}
			code := rapid.SampledFrom([]int{200, 200, 481, 408, 500}).Draw(rt, "bye status")
			resp := buildResponse(got[0].msg, code, "Answer", "", "")
			ep2, err := s.in.hub.udpEP("backend-sending-socket", got[0].ep.ip, 5081)
			if err != nil {
				V.HarnessError(rt, "bind: %v", err)
			}
			bsend := func(b []byte) error { return ep2.sendUDP(l.Addr, l.UDPPort, b) }
			s.in.expect(resp)
			if err := bsend(resp); err != nil {
				V.HarnessError(rt, "backend send: %v", err)
			}
			if _, err := s.in.settle(bsend, 1); err != nil {
				if lost(err) {
					failf(rt, "%v", err)
				}
				V.HarnessError(rt, "%v", err)
			}
			stuck, _, after, err := probe(d, "INFO", "")
			if err != nil {
				failf(rt, "%v", err)
			}
			if after.Sub(d.pinBefore) > d.life-50*time.Millisecond {
				return // the pin's lifetime may have run out meanwhile: nothing to tell
			}
			V.Class("lab: BYE answered from another socket of the backend")
			V.NonTrivial("byesock|" + d.id)
			if stuck {
				failf(rt, "dialog %s pinned to %s; its BYE was answered with %d by that backend from port 5081 (it listens on 5080; the answer followed the Via chain through the proxy); an INFO bearing the dialog's identifiers still went to the pinned backend although the rotation pointed elsewhere - the answered BYE has not dissolved the pin", d.id, d.pinned, code)
			}
		})
	}

	// every final status a backend can answer a BYE with (the statement says "answers a BYE", whatever the answer)
	t.Run(engine+"-bye-statuses", func(t *testing.T) {
		if V.replay && !strings.HasPrefix(V.only, "bye-status:") {
			return
		}
		var codes []int
		for _, c := range []int{200, 202, 204, 299, 300, 301, 302, 305, 380, 400, 401, 403, 404, 405, 407, 408, 410, 415, 420, 422, 423, 480, 481, 482, 483, 484, 486, 487, 488, 489, 491, 493, 499, 500, 501, 502, 503, 504, 513, 599, 600, 603, 604, 606, 699} {
			codes = append(codes, c)
		}
		if V.Thorough() && !variant.Bin {
			codes = nil
			for c := 200; c <= 699; c++ {
				codes = append(codes, c)
			}
		} else if variant.Bin {
			codes = []int{200, 401, 407, 481, 487, 503, 603}
		}
		for _, code := range codes {
			only := fmt.Sprintf("bye-status:%d", code)
			if !V.OnlyMatch(only) || V.ViolationCount() > 0 {
				continue
			}
			V.Eval()
			d, err := pin("")
			if err != nil {
				if lost(err) {
					V.Violation(t, only, nil, "%v", err)
					return
				}
				V.HarnessError(t, "%v", err)
			}
			V.Journal(t.Name(), map[string]any{"bye_answered_with": code, "dialog": d.id})
			stuck, _, _, err := probe(d, "BYE", "")
			if err != nil {
				V.Violation(t, only, nil, "%v", err)
				return
			}
			if !stuck {
				V.Violation(t, only, nil, "BYE of dialog %s, pinned a moment ago to %s, was not delivered to the pinned backend", d.id, d.pinned)
				return
			}
			if err := answerBye(s, l, d, code); err != nil {
				if lost(err) {
					V.Violation(t, only, nil, "%v", err)
					return
				}
				V.HarnessError(t, "%v", err)
			}
			m := []string{"INFO", "UPDATE", "MESSAGE", "OPTIONS"}[code%4]
			stuck, _, after, err := probe(d, m, "")
			if err != nil {
				V.Violation(t, only, nil, "%v", err)
				return
			}
			if after.Sub(d.pinBefore) > d.life-50*time.Millisecond {
				V.Class("lab: termination history outlived the pin's timeout (rest is don't-care)")
				continue
			}
			V.Class("lab: BYE answered dissolves the pin")
			V.Class(fmt.Sprintf("lab: BYE answered %dxx", code/100))
			V.NonTrivial(fmt.Sprintf("%s|bye|%d", engine, code))
			if stuck {
				V.Violation(t, only, map[string]any{"bye_answered_with": code}, "the pinned backend answered the BYE of dialog %s with %d, yet the next %s bearing the dialog's identifiers was still delivered to the formerly pinned backend %s instead of being load-balanced (the rotation's next backend was another one)", d.id, code, m, d.pinned)
				return
			}
		}
	})

	t.Run(engine+"-expiry", func(t *testing.T) {
		rounds := V.N(map[bool]int{false: 2, true: 1}[variant.Bin], map[bool]int{false: 10, true: 4}[variant.Bin])
		for r := 0; r < rounds && V.ViolationCount() == 0; r++ {
			var ds []*c15Dlg
			for i := 0; i < 12; i++ {
				exp := []string{"", "", "", "3", "2147483647", "0"}[i%6]
				d, err := pin(exp)
				if err != nil {
					if lost(err) {
						V.Violation(t, "", nil, "%v", err)
						return
					}
					V.HarnessError(t, "%v", err)
				}
				ds = append(ds, d)
			}
			judge := func(d *c15Dlg, phase string) bool {
				stuck, before, after, err := probe(d, "INFO", "")
				V.Eval()
				if err != nil {
					V.Violation(t, "", d.id, "%v", err)
					return false
				}
				latest := after.Sub(d.pinBefore)
				earliest := before.Sub(d.pinAfter)
				desc := map[string]any{"dialog": d.id, "lifetime": d.life.String(), "phase": phase, "age_between": []string{earliest.String(), latest.String()}}
				switch {
				case latest < d.life:
					V.Class("lab: probe before expiry")
					V.ClassIf(d.life > time.Second, "lab: Expires extends the lifetime")
					V.NonTrivial(fmt.Sprintf("%s|%s|before", d.id, phase))
					if !stuck {
						V.Violation(t, "", desc, "pin (dialogTimeout 1 s, lifetime %v) not honoured at age <= %v: the in-dialog request was load-balanced", d.life, latest)
						return false
					}
				case earliest >= d.life:
					V.Class("lab: probe after expiry")
					V.ClassIf(variant.Bin, "bin: DEFAULT_DIALOG_TIMEOUT honoured by the real binary")
					V.NonTrivial(fmt.Sprintf("%s|%s|after", d.id, phase))
					if stuck {
						V.Violation(t, "", desc, "pin (lifetime %v) still honoured at age >= %v", d.life, earliest)
						return false
					}
				}
				return true
			}
			time.Sleep(300 * time.Millisecond)
			for _, d := range ds {
				if !judge(d, "early") {
					return
				}
			}
			time.Sleep(time.Until(ds[len(ds)-1].pinAfter.Add(1150 * time.Millisecond)))
			for _, d := range ds {
				if !judge(d, "after the dialog timeout") {
					return
				}
			}
			// a pin whose response carried a larger Expires is still owed after more
			// than one dialog timeout of silence on that dialog (the probes above were
			// its last requests): once more, late but within Expires
			var long []*c15Dlg
			for _, d := range ds {
				if d.life == 3*time.Second {
					long = append(long, d)
				}
			}
			if len(long) > 0 {
				time.Sleep(time.Until(long[len(long)-1].pinAfter.Add(2350 * time.Millisecond)))
				for _, d := range long {
					if !judge(d, "within Expires, after more than one dialog timeout without a request of the dialog") {
						return
					}
				}
			}
			V.Sample(fmt.Sprintf("round %d: 12 dialogs (Expires absent/3/2147483647/0) probed at ~0.3 s and ~1.2 s", r))
		}
	})
}

// answerBye lets the pinned backend answer the BYE it received last.
func answerBye(s *stdSvc, l labListenCfg, d *c15Dlg, code int) error {
	return answerWith(s, l, d, code, "BYE")
}

// answerWith: the pinned backend answers an in-dialog request of the given method.
func answerWith(s *stdSvc, l labListenCfg, d *c15Dlg, code int, method string) error {
	resp := []byte(fmt.Sprintf("SIP/2.0 %d Answer\r\nVia: SIP/2.0/UDP %s:%d;branch=z9hG4bK%s\r\nVia: SIP/2.0/UDP %s:5060;branch=z9hG4bKx;rport=5060;received=%s\r\nFrom: <sip:a@a.example>;tag=f%s\r\nTo: <sip:b@nomatch.example>;tag=t%s\r\nCall-ID: %s\r\nCSeq: 1 %s\r\nContent-Length: 0\r\n\r\n",
		code, l.Addr, l.UDPPort, s.nextID("c15p"), s.uas[0].ip, s.uas[0].ip, d.id, d.id, d.callID, method))
	ep := d.at.ep
	bsend := func(b []byte) error { return ep.sendUDP(l.Addr, l.UDPPort, b) }
	s.in.expect(resp)
	if err := bsend(resp); err != nil {
		return err
	}
	_, err := s.in.settle(bsend, 1)
	return err
}

// ---- boundedness at proxy level -------------------------------------------------

type c15RecBackend struct {
	addr string
	mu   sync.Mutex
	last []byte
}

func (b *c15RecBackend) Send(msg *Message) error {
	w, err := msg.Bytes()
	b.mu.Lock()
	b.last = append([]byte(nil), w...)
	b.mu.Unlock()
	return err
}
func (b *c15RecBackend) GetAddress() string { return b.addr }
func (b *c15RecBackend) Close()             {}

// c15Hook is a ServerTransport double whose GetAddress runs a function inside
// the proxy's loop goroutine (the loop asks the transport a message came from).
type c15Hook struct {
	fn func()
	ch chan struct{}
}

func (t *c15Hook) Start(MessageHandler) error       { return nil }
func (t *c15Hook) Send(string, int, *Message) error { return nil }
func (t *c15Hook) GetProtocol() string              { return "UDP" }
func (t *c15Hook) GetAddress() string {
	if t.fn != nil {
		t.fn()
		t.fn = nil
		select {
		case t.ch <- struct{}{}:
		default:
		}
	}
	return "127.0.0.77"
}
func (t *c15Hook) GetPort() int { return 5060 }
func (t *c15Hook) IsExit() bool { return false }

// c15ProxyBoundedness: calls that are set up through a real Proxy object in
// their natural order (request relayed to a backend, then the backend's 200
// pins the dialog) and never torn down, one every 40 ms for five dialog
// timeouts of 1 s. Pins that expired more than 2.5 timeouts ago must be gone
// from the proxy's table (ongoing traffic purges within one further period).
func c15ProxyBoundedness(t *testing.T) {
	t.Run("proxy-boundedness", func(t *testing.T) {
		if (V.replay && V.only == "") || V.ViolationCount() > 0 {
			return
		}
		V.Require("proxy level: expired pins of abandoned calls purged by ongoing calls")
		for round := 0; round < V.N(1, 3); round++ {
			p := NewProxy("svc.test", 1, "127.0.0.77", false, NewPreConfigRoute(), NewPreConfigHostResolver(), NewSelfLearnRoute(), true, true)
			rb := NewRoundRobinBackend()
			be := &c15RecBackend{addr: "127.0.0.81:5080"}
			rb.AddBackend(be)
			tr := &c15Hook{}
			p.AddItem(&ProxyItem{backend: rb, transports: []ServerTransport{tr}})
			patientUntil(5*time.Second, 50*time.Microsecond, func() bool { return len(p.backendChangeChannel) == 0 })
			inLoop := func(fn func()) bool {
				h := &c15Hook{fn: fn, ch: make(chan struct{}, 1)}
				m := &Message{response: &StatusLine{version: "SIP/2.0", statusCode: 100, reason: "Barrier"}, headers: []*Header{}, body: []byte{}}
				p.HandleRawMessage(NewRawMessage("127.0.0.9", 9, h, false, m))
				_, ok := patientRecv(h.ch, 10*time.Second)
				return ok
			}
			type call struct {
				dlg  string
				born time.Time
			}
			var calls []call
			start := time.Now()
			worstGap, last := time.Duration(0), start
			for i := 0; time.Since(start) < 5*time.Second; i++ {
				id := fmt.Sprintf("c15pb-%d-%d", round, i)
				req, err := ParseMessage(bufio.NewReader(strings.NewReader(fmt.Sprintf("INVITE sip:u@svc.test SIP/2.0\r\nVia: SIP/2.0/UDP 127.0.0.9:5060;branch=z9hG4bK%s;rport\r\nFrom: <sip:a@a.example>;tag=f%s\r\nTo: <sip:u@svc.test>\r\nCall-ID: %s\r\nCSeq: 1 INVITE\r\nContent-Length: 0\r\n\r\n", id, id, id))))
				if err != nil {
					V.HarnessError(t, "%v", err)
				}
				p.HandleRawMessage(NewRawMessage("127.0.0.9", 5060, tr, true, req))
				if !inLoop(func() {}) {
					V.Violation(t, "", id, "proxy-level boundedness: the proxy loop did not handle the INVITE of call %d within 10 s", i)
					return
				}
				be.mu.Lock()
				relayed := be.last
				be.last = nil
				be.mu.Unlock()
				rm, err := sipRead(relayed)
				if err != nil {
					V.Violation(t, "", id, "proxy-level boundedness: INVITE %d was not relayed to the backend (%v)", i, err)
					return
				}
				resp, err := ParseMessage(bufio.NewReader(strings.NewReader(string(buildResponse(rm, 200, "OK", "t"+id, "")))))
				if err != nil {
					V.HarnessError(t, "%v", err)
				}
				dlg, err := resp.GetDialog()
				if err != nil {
					V.HarnessError(t, "%v", err)
				}
				born := time.Now()
				p.HandleRawMessage(NewRawMessage("127.0.0.81", 5080, tr, false, resp))
				calls = append(calls, call{dlg, born})
				V.Eval()
				time.Sleep(40 * time.Millisecond)
				if g := time.Since(last); g > worstGap {
					worstGap = g
				}
				last = time.Now()
			}
			if worstGap > 400*time.Millisecond {
				V.Class("proxy-level boundedness round skipped (traffic gap > 0.4 s)")
				continue
			}
			var stale []string
			pinnedOnce, size := false, 0
			now := time.Now()
			ok := inLoop(func() {
				size = len(p.dialogBasedBackends.backends)
				for _, c := range calls {
					_, present := p.dialogBasedBackends.backends[c.dlg]
					age := now.Sub(c.born)
					if present {
						pinnedOnce = true
					}
					if present && age > 3500*time.Millisecond {
						stale = append(stale, fmt.Sprintf("%s (pinned %v ago)", c.dlg, age.Round(10*time.Millisecond)))
					}
				}
			})
			if !ok {
				V.Violation(t, "", nil, "proxy-level boundedness: the proxy loop did not take the inspection barrier within 10 s")
				return
			}
			if !pinnedOnce {
				V.HarnessError(t, "proxy-level boundedness: no call was ever pinned (harness wiring)")
			}
			V.Class("proxy level: expired pins of abandoned calls purged by ongoing calls")
			V.NonTrivial(fmt.Sprintf("pb|%d|%d", round, len(calls)))
			V.Sample(map[string]any{"proxy_level_calls": len(calls), "table_size_at_end": size, "worst_gap_ms": worstGap.Milliseconds()})
			if len(stale) > 0 {
				V.Violation(t, "", stale[:min(len(stale), 5)], "proxy-level boundedness: %d of %d abandoned calls pinned more than 3.5 dialog timeouts (1 s) ago are still in the proxy's table after continuous traffic (a call every ~40 ms, worst gap %v); table size %d; e.g. %v", len(stale), len(calls), worstGap, size, stale[:min(len(stale), 3)])
				return
			}
		}
	})
}

//verif:needs core
package main

// C15 - dialog pins live exactly as long as promised and are forgotten on
// termination. Engine: unit with measured time (millisecond lifetimes on a
// DialogBasedBackend literal). No timer decides correctness: every pin and
// probe is bracketed by time.Now() and only probes that are certainly inside
// or certainly outside the lifetime are judged.

import (
	"fmt"
	"testing"
	"time"

	"pgregory.net/rapid"
)

type c15Backend struct{ addr string }

func (b *c15Backend) Send(msg *Message) error { return nil }
func (b *c15Backend) GetAddress() string      { return b.addr }
func (b *c15Backend) Close()                  {}

type c15Pin struct {
	before, after time.Time
	life          time.Duration
	backend       *c15Backend
	terminated    bool
}

func c15New(T time.Duration) *DialogBasedBackend {
	return &DialogBasedBackend{timeout: T, backends: make(map[string]*ExpireBackend), nextCleanTime: time.Now().Add(T)}
}

func TestC15(t *testing.T) {
	V.Rule("unit, measured time: rapid state machine over pin(d, Expires in {0,1,2,2^31-1} s) / lookup / terminate / sleep / traffic on a pin table with timeout T in {30,60,120} ms; a lookup whose latest possible age is below the lifetime max(T, Expires) must find the pinned backend, one whose earliest possible age is at or beyond it must not, anything between is a don't-care; after terminate: not found. Boundedness scenarios: expired keys plus one huge-Expires pin, then steady traffic at measured gaps <= T/4 for 3T: every key expired more than 1.5T ago must be gone from the table and the table size stays bounded. non-trivial = history with a probe on each side of an expiry, or a termination followed by a probe, or a huge-Expires pin followed by >= 2T of traffic; distinct by history text")
	V.Assume("time is measured around every product call; scheduling delays can only turn a judged probe into a don't-care (a boundedness scenario whose measured traffic gap exceeds T/4 is skipped and counted)")
	V.Require("probe before expiry", "probe after expiry", "terminate then probe", "huge Expires pin", "boundedness scenario judged")

	rcheck(t, "lifetimes", V.N(100, 600), func(rt *rapid.T) {
		T := time.Duration(rapid.SampledFrom([]int{30, 60, 120}).Draw(rt, "T_ms")) * time.Millisecond
		dbb := c15New(T)
		nkeys := rapid.IntRange(1, 12).Draw(rt, "keys")
		backends := []*c15Backend{{"10.0.0.1:5060"}, {"10.0.0.2:5060"}, {"10.0.0.3:5060"}}
		pins := map[int]*c15Pin{}
		hist := fmt.Sprintf("T=%v", T)
		V.Case(hist)
		sawBefore, sawAfter, sawTerm := false, false, false
		fresh := 0
		steps := rapid.IntRange(3, 40).Draw(rt, "steps")
		for i := 0; i < steps; i++ {
			switch rapid.IntRange(0, 6).Draw(rt, "op") {
			case 0, 1: // pin
				d := rapid.IntRange(0, nkeys-1).Draw(rt, "d")
				exp := rapid.SampledFrom([]int{0, 0, 0, 1, 2, 1<<31 - 1}).Draw(rt, "expires")
				b := backends[rapid.IntRange(0, 2).Draw(rt, "backend")]
				life := T
				if time.Duration(exp)*time.Second > T {
					life = time.Duration(exp) * time.Second
				}
				p := &c15Pin{backend: b, life: life}
				p.before = time.Now()
				dbb.AddBackend(fmt.Sprintf("dlg-%d", d), b, exp)
				p.after = time.Now()
				pins[d] = p
				hist += fmt.Sprintf(" pin(%d,exp=%d)", d, exp)
				V.ClassIf(exp == 1<<31-1, "huge Expires pin")
			case 2, 3: // lookup
				d := rapid.IntRange(0, nkeys-1).Draw(rt, "d")
				before := time.Now()
				got, err := dbb.GetBackend(fmt.Sprintf("dlg-%d", d))
				after := time.Now()
				hist += fmt.Sprintf(" lookup(%d)", d)
				V.Case(hist)
				p := pins[d]
				if p == nil || p.terminated {
					if err == nil {
						failf(rt, "lookup of dialog %d found backend %s although it was never pinned or was terminated [%s]", d, got.GetAddress(), hist)
					}
					if p != nil {
						sawTerm = true
						V.Class("terminate then probe")
					}
					continue
				}
				latest := after.Sub(p.before)
				earliest := before.Sub(p.after)
				switch {
				case latest < p.life:
					sawBefore = true
					V.Class("probe before expiry")
					if err != nil {
						failf(rt, "pin of dialog %d (lifetime %v) not honoured at age <= %v: %v [%s]", d, p.life, latest, err, hist)
					}
					if got != Backend(p.backend) {
						failf(rt, "pin of dialog %d returns backend %s, pinned to %s [%s]", d, got.GetAddress(), p.backend.addr, hist)
					}
				case earliest >= p.life:
					sawAfter = true
					V.Class("probe after expiry")
					if err == nil {
						failf(rt, "pin of dialog %d (lifetime %v) still honoured at age >= %v [%s]", d, p.life, earliest, hist)
					}
				default:
					V.Class("probe in the don't-care window")
				}
			case 4: // terminate
				d := rapid.IntRange(0, nkeys-1).Draw(rt, "d")
				dbb.RemoveDialog(fmt.Sprintf("dlg-%d", d))
				if p := pins[d]; p != nil {
					p.terminated = true
				}
				hist += fmt.Sprintf(" terminate(%d)", d)
			case 5: // sleep
				ms := rapid.IntRange(1, int(2*T/time.Millisecond)).Draw(rt, "sleep_ms")
				time.Sleep(time.Duration(ms) * time.Millisecond)
				hist += fmt.Sprintf(" sleep(%dms)", ms)
			default: // traffic: pins of fresh keys give the sweep its chance
				n := rapid.IntRange(1, 5).Draw(rt, "n")
				for j := 0; j < n; j++ {
					fresh++
					dbb.AddBackend(fmt.Sprintf("fresh-%d", fresh), backends[0], 0)
				}
				hist += fmt.Sprintf(" traffic(%d)", n)
			}
		}
		V.Case(hist)
		if sawBefore && sawAfter || sawTerm {
			V.NonTrivial(hist)
		}
		V.SampleEvery(20, func() any { return hist })
	})

	rcheck(t, "boundedness", V.N(25, 250), func(rt *rapid.T) {
		T := time.Duration(rapid.SampledFrom([]int{30, 60}).Draw(rt, "T_ms")) * time.Millisecond
		dbb := c15New(T)
		b := &c15Backend{"10.0.0.1:5060"}
		nshort := rapid.IntRange(1, 100).Draw(rt, "short-lived pins")
		hugeAt := rapid.IntRange(0, 3).Draw(rt, "huge pin at phase") // 0 = none, 1 before, 2 after the first sleep, 3 during traffic
		hugeExp := rapid.SampledFrom([]int{1<<31 - 1, 86400, 3600}).Draw(rt, "huge Expires")
		warm := rapid.Bool().Draw(rt, "let the first sweep period pass first")
		hist := fmt.Sprintf("T=%v short=%d hugeAt=%d hugeExp=%d warm=%v", T, nshort, hugeAt, hugeExp, warm)
		V.Case(hist)
		if warm {
			time.Sleep(T + T/4)
		}
		if hugeAt == 1 {
			dbb.AddBackend("huge", b, hugeExp)
		}
		type rec struct {
			key string
			end time.Time // latest possible end of lifetime
		}
		var shorts []rec
		for i := 0; i < nshort; i++ {
			k := fmt.Sprintf("short-%d", i)
			dbb.AddBackend(k, b, 0)
			shorts = append(shorts, rec{k, time.Now().Add(T)})
		}
		if hugeAt == 2 {
			time.Sleep(T + T/8)
			dbb.AddBackend("huge", b, hugeExp)
		}
		// steady traffic for 3.5 T at gaps of T/8, gaps measured
		start := time.Now()
		last := start
		worst := time.Duration(0)
		i := 0
		var traffic []rec
		for time.Since(start) < 3*T+T/2 {
			time.Sleep(T / 8)
			if hugeAt == 3 && i == 3 {
				dbb.AddBackend("huge", b, hugeExp)
			}
			k := fmt.Sprintf("traffic-%d", i)
			i++
			dbb.AddBackend(k, b, 0)
			now := time.Now()
			traffic = append(traffic, rec{k, now.Add(T)})
			if g := now.Sub(last); g > worst {
				worst = g
			}
			last = now
		}
		if worst > T/4 {
			V.Class("boundedness scenario skipped (measured traffic gap > T/4)")
			return
		}
		V.Class("boundedness scenario judged")
		V.ClassIf(hugeAt != 0, "huge Expires pin")
		if hugeAt != 0 {
			V.NonTrivial(hist)
		}
		V.SampleEvery(5, func() any { return hist })
		now := time.Now()
		live := 0
		for _, r := range append(shorts, traffic...) {
			_, present := dbb.backends[r.key]
			if now.Sub(r.end) > T+T/2 {
				if present {
					failf(rt, "pin %s expired %v ago (timeout %v) and is still in the table after continuous traffic at gaps <= %v; table size %d [%s]", r.key, now.Sub(r.end), T, worst, len(dbb.backends), hist)
				}
			} else {
				live++
			}
		}
		if hugeAt != 0 {
			live++
			if _, err := dbb.GetBackend("huge"); err != nil {
				failf(rt, "pin with Expires %d s is not honoured after %v [%s]", hugeExp, time.Since(start), hist)
			}
		}
		if len(dbb.backends) > live {
			failf(rt, "table holds %d pins, at most %d are within lifetime or expired less than 1.5 T ago [%s]", len(dbb.backends), live, hist)
		}
	})
}

//verif:needs core
package main

// C18 - static route lookup has fixed precedence and a stable answer.
// Engine: unit. Oracle: reference lookup written from the statement (own glob
// matcher), membership for ties among wildcards, stability over repetitions.

import (
	"encoding/json"
	"fmt"
	"strconv"
	"strings"
	"testing"

	"pgregory.net/rapid"
)

type c18Entry struct {
	Proto   string `json:"proto"`
	Pattern string `json:"pattern"`
	NextHop string `json:"nexthop"`
}

type c18Case struct {
	Table []c18Entry `json:"table"`
	Host  string     `json:"host"`
}

// c18Glob: '*' = any sequence (also empty), every other byte literal.
func c18Glob(pat, s string) bool {
	// iterative glob with backtracking on the last star
	p, i, star, mark := 0, 0, -1, 0
	for i < len(s) {
		if p < len(pat) && pat[p] == '*' {
			star, mark = p, i
			p++
		} else if p < len(pat) && pat[p] == s[i] {
			p++
			i++
		} else if star >= 0 {
			p = star + 1
			mark++
			i = mark
		} else {
			return false
		}
	}
	for p < len(pat) && pat[p] == '*' {
		p++
	}
	return p == len(pat)
}

func c18RefPort(e c18Entry) (string, int, bool) {
	pos := strings.LastIndex(e.NextHop, ":")
	if pos == -1 {
		if strings.EqualFold(e.Proto, "tls") {
			return e.NextHop, 5061, true
		}
		return e.NextHop, 5060, true
	}
	n, err := strconv.Atoi(e.NextHop[pos+1:])
	if err != nil {
		return "", 0, false
	}
	return e.NextHop[:pos], n, true
}

type c18Answer struct {
	proto, host string
	port        int
	err         bool
}

// c18Build creates the product table for a case.
func c18Build(tab []c18Entry) (*PreConfigRoute, string) {
	pcr := NewPreConfigRoute()
	for _, e := range tab {
		if err := pcr.AddRouteItem(e.Proto, e.Pattern, e.NextHop); err != nil {
			return nil, fmt.Sprintf("AddRouteItem(%q,%q,%q) failed: %v", e.Proto, e.Pattern, e.NextHop, err)
		}
	}
	return pcr, ""
}

// c18BuildConfig creates the product table the way main does: the table is
// written as the route section of a YAML configuration (consecutive entries
// with the same protocol and next hop become one route item with several
// dests), decoded by loadConfigFromReader and built by createPreConfigRoute.
func c18BuildConfig(tab []c18Entry) (*PreConfigRoute, string) {
	q := func(s string) string { return "'" + strings.ReplaceAll(s, "'", "''") + "'" }
	var sb strings.Builder
	sb.WriteString("proxies:\n- name: 'c18'\n  route:\n")
	items := 0
	for i := 0; i < len(tab); {
		j := i
		sb.WriteString("  - dests:\n")
		for j < len(tab) && tab[j].Proto == tab[i].Proto && tab[j].NextHop == tab[i].NextHop {
			sb.WriteString("    - " + q(tab[j].Pattern) + "\n")
			j++
		}
		sb.WriteString("    protocol: " + q(tab[i].Proto) + "\n    nexthop: " + q(tab[i].NextHop) + "\n")
		V.ClassIf(j-i >= 2, "table built from configuration with a multi-dest route item")
		items++
		i = j
	}
	cfg, err := loadConfigFromReader(strings.NewReader(sb.String()))
	if err != nil || len(cfg.Proxies) != 1 || len(cfg.Proxies[0].Route) != items {
		return nil, fmt.Sprintf("harness: generated configuration not decoded as written (%v):\n%s", err, sb.String())
	}
	return createPreConfigRoute(cfg.Proxies[0]), ""
}

// c18Check runs one (table, host) case on a fresh table; returns a failure text or "".
func c18Check(c c18Case, reps int) (string, int, string) {
	pcr, msg := c18Build(c.Table)
	if msg != "" {
		return msg, 0, ""
	}
	return c18CheckOn(pcr, c, reps, nil)
}

// c18CheckOn looks c.Host up reps times on an existing table object (which
// may have answered other lookups before: the answer must not depend on that).
func c18CheckOn(pcr *PreConfigRoute, c c18Case, reps int, firstSeen *c18Answer) (string, int, string) {
	// reference
	var literal *c18Entry
	var def *c18Entry
	var w []c18Entry
	for i := range c.Table {
		e := &c.Table[i]
		if e.Pattern == c.Host {
			literal = e
		}
		if e.Pattern == "default" {
			def = e
		}
		if strings.Contains(e.Pattern, "*") && c18Glob(e.Pattern, c.Host) {
			w = append(w, *e)
		}
	}
	var admissible []c18Entry
	kind := ""
	switch {
	case literal != nil:
		admissible = []c18Entry{*literal}
		kind = "literal"
	case len(w) > 0:
		admissible = w
		kind = "wildcard"
	case def != nil:
		admissible = []c18Entry{*def}
		kind = "default"
	default:
		kind = "none"
	}
	var first c18Answer
	haveFirst := false
	if firstSeen != nil && (firstSeen.host != "" || firstSeen.err) {
		first, haveFirst = *firstSeen, true
	}
	for r := 0; r < reps; r++ {
		proto, host, port, err := pcr.FindRoute(c.Host)
		a := c18Answer{proto, host, port, err != nil}
		if err != nil {
			a = c18Answer{err: true}
		}
		if len(admissible) == 0 {
			if err == nil {
				return fmt.Sprintf("host %q matches no entry, yet FindRoute returned %s %s:%d (lookup #%d on this table object)", c.Host, proto, host, port, r+1), len(w), kind
			}
		} else {
			if err != nil {
				return fmt.Sprintf("host %q must be routed by the %s rule, FindRoute returned error %v", c.Host, kind, err), len(w), kind
			}
			ok := false
			for _, e := range admissible {
				eh, ep, _ := c18RefPort(e)
				if eh == host && ep == port && e.Proto == proto {
					ok = true
				}
			}
			if !ok {
				return fmt.Sprintf("host %q: rule %s admits %v, FindRoute returned %s %s:%d", c.Host, kind, admissible, proto, host, port), len(w), kind
			}
		}
		if !haveFirst {
			first, haveFirst = a, true
			if firstSeen != nil {
				*firstSeen = a
			}
		} else if a != first {
			return fmt.Sprintf("host %q: unstable answer, an earlier lookup gave %+v, lookup #%d gave %+v", c.Host, first, r+1, a), len(w), kind
		}
	}
	return "", len(w), kind
}

var c18Patterns = []string{"a.example.com", "b.example.com", "aXexample.com", "example.com", "*.example.com", "a.*", "*.com", "*", "*example.com", "default", "10.20.*"}
var c18Hosts = []string{"a.example.com", "b.example.com", "aXexample.com", "example.com", "x.org", "a.b.example.com", "a.example.comX", "A.example.com", "", "10.20.1.7", "10.2.0.1"}

func c18Desc(c c18Case) string {
	var sb strings.Builder
	for _, e := range c.Table {
		sb.WriteString(e.Proto + "|" + e.Pattern + "|" + e.NextHop + ";")
	}
	sb.WriteString("@" + c.Host)
	return sb.String()
}

func c18Record(c c18Case, nw int, kind string) {
	V.Class("rule:" + kind)
	lit := false
	look := false
	for _, e := range c.Table {
		if e.Pattern == c.Host {
			lit = true
		}
		if strings.Contains(e.Pattern, ".") && !strings.Contains(e.Pattern, "*") && len(e.Pattern) == len(c.Host) && e.Pattern != c.Host {
			// same length, differs: candidate dotted look-alike
			diff := 0
			for i := range e.Pattern {
				if e.Pattern[i] != c.Host[i] {
					diff++
					if e.Pattern[i] != '.' && c.Host[i] != '.' {
						diff += 10
					}
				}
			}
			if diff == 1 {
				look = true
			}
		}
	}
	if nw >= 2 {
		V.Class("ties:>=2 wildcards match")
	}
	if lit && nw >= 1 {
		V.Class("literal and wildcard both match")
	}
	if look {
		V.Class("dotted look-alike")
	}
	if nw >= 2 || (lit && nw >= 1) || look {
		V.NonTrivial(c18Desc(c))
	}
}

// c18Regress: saved (table, host) cases, judged by the same reference lookup.
func c18Regress(c regressCase) string {
	if c.S("kind") != "lookup" {
		return "skip: kind " + c.S("kind")
	}
	var cs c18Case
	b, _ := json.Marshal(c.F)
	if err := json.Unmarshal(b, &cs); err != nil || len(cs.Table) == 0 {
		return "skip: table unreadable"
	}
	for _, build := range []func([]c18Entry) (*PreConfigRoute, string){c18Build, c18BuildConfig} {
		pcr, msg := build(cs.Table)
		if msg != "" {
			return msg
		}
		// other hosts first: the answer must not depend on what was looked up before
		for _, h := range c.Strings("lookups_before") {
			pcr.FindRoute(h)
		}
		if msg, _, _ := c18CheckOn(pcr, cs, 200, nil); msg != "" {
			return msg
		}
	}
	return ""
}

func TestC18(t *testing.T) {
	V.Rule("unit: route tables (exhaustive: all ordered tables of <=3 entries and all/sampled 4-entry tables over 11 patterns x 11 hosts (names and IPv4 literals); random: 5-30 generated entries, hosts derived from patterns by substitution and near-miss edits) looked up 50x (3x when at most one wildcard matches) on a fresh table built entry by entry, and as interleaved lookup histories (all hosts forward/backward/forward; random other hosts in between) on one table object built the way main builds it (the table written as a YAML route section - consecutive entries with equal protocol and next hop as one item with several dests - and loaded through loadConfigFromReader / createPreConfigRoute); non-trivial = >=2 wildcards match, or literal and wildcard both match, or a dotted look-alike; distinct by (table, host)")
	V.Assume("patterns and hosts use host-name characters and '*' only")
	V.Require("interleaved lookups on one table", "table built from configuration with a multi-dest route item", "rule:literal", "rule:wildcard", "rule:default", "rule:none", "ties:>=2 wildcards match", "literal and wildcard both match", "dotted look-alike")

	V.Regress(t, c18Regress)
	t.Run("exhaustive", func(t *testing.T) {
		protos := []string{"udp", "tcp", "tls", "TLS"}
		n := len(c18Patterns)
		count := 0
		runTable := func(idx []int) bool {
			tab := make([]c18Entry, len(idx))
			for k, i := range idx {
				nh := fmt.Sprintf("hop%d.test", i)
				if (i+k)%2 == 1 {
					// explicit ports, the protocol defaults among them (an explicit :5060 stays 5060 for tls)
					nh += ":" + strconv.Itoa([]int{5060, 6000 + i, 5061}[(i/2+k)%3])
				}
				tab[k] = c18Entry{Proto: protos[(i+k)%4], Pattern: c18Patterns[i], NextHop: nh}
			}
			// every third table: the second entry shares protocol and next hop with the
			// first (one route item with two dests in a configuration file)
			if sum := idx[0] + len(idx); len(idx) >= 2 && sum%3 == 0 {
				tab[1].Proto, tab[1].NextHop = tab[0].Proto, tab[0].NextHop
			}
			for _, h := range c18Hosts {
				c := c18Case{Table: tab, Host: h}
				desc := c18Desc(c)
				if !V.OnlyMatch(desc) {
					continue
				}
				// cheap pre-pass to decide the repetition count
				nw := 0
				for _, e := range tab {
					if strings.Contains(e.Pattern, "*") && c18Glob(e.Pattern, h) {
						nw++
					}
				}
				reps := 3
				if nw >= 2 {
					reps = 50
				}
				msg, nw2, kind := c18Check(c, reps)
				V.Eval()
				c18Record(c, nw2, kind)
				count++
				if count%997 == 1 {
					V.Sample(c)
				}
				if msg != "" {
					V.Violation(t, desc, c, "%s", msg)
					return false
				}
			}
			// history part: one table object answers all hosts, interleaved, three rounds
			// (an answer must not depend on what was looked up before)
			pcr, bmsg := c18BuildConfig(tab)
			if bmsg != "" {
				V.HarnessError(t, "%s", bmsg)
			}
			if V.only == "" {
				firsts := make([]c18Answer, len(c18Hosts))
				for round := 0; round < 3; round++ {
					for hi := range c18Hosts {
						k := hi
						if round == 1 {
							k = len(c18Hosts) - 1 - hi
						}
						c := c18Case{Table: tab, Host: c18Hosts[k]}
						V.Eval()
						reps := 1 + round%2
						if msg, _, _ := c18CheckOn(pcr, c, reps, &firsts[k]); msg != "" {
							V.Class("interleaved lookups on one table")
							V.Violation(t, "", map[string]any{"table": tab, "lookup_order": "all hosts of the universe, forward, backward, forward", "failing_host": c18Hosts[k]}, "interleaved lookups on one table object: %s", msg)
							return false
						}
					}
				}
				V.Class("interleaved lookups on one table")
			}
			return true
		}
		full4 := V.Thorough()
		// ordered tables of size 1..3 (size 4: ordered in thorough, one order per combination in quick)
		var rec func(idx []int, size int) bool
		rec = func(idx []int, size int) bool {
			if len(idx) == size {
				return runTable(idx)
			}
			for i := 0; i < n; i++ {
				used := false
				for _, j := range idx {
					if j == i {
						used = true
					}
				}
				if used {
					continue
				}
				if size == 4 && !full4 && len(idx) > 0 && i < idx[len(idx)-1] {
					continue
				}
				if !rec(append(idx, i), size) {
					return false
				}
			}
			return true
		}
		complete := true
		for size := 1; size <= 4; size++ {
			if !rec(nil, size) {
				complete = false
				break
			}
		}
		V.Exhaustive(complete && V.only == "")
		V.Extra("exhaustive_subspace", "all ordered tables of <=3 entries (4-entry tables: "+map[bool]string{true: "all orders", false: "one order per combination"}[full4]+") over the pattern universe x all hosts of the universe")
	})

	labels := []string{"a", "b", "ab", "example", "com", "org", "net", "x", "sip", "pbx1", "gw-2", "a1", "10", "20", "192", "7"}
	genLabel := rapid.SampledFrom(labels)
	genName := rapid.Custom(func(rt *rapid.T) string {
		k := rapid.IntRange(1, 4).Draw(rt, "nlabels")
		parts := make([]string, k)
		for i := range parts {
			parts[i] = genLabel.Draw(rt, "label")
		}
		return strings.Join(parts, ".")
	})
	genPattern := rapid.Custom(func(rt *rapid.T) string {
		name := genName.Draw(rt, "name")
		switch rapid.IntRange(0, 6).Draw(rt, "shape") {
		case 0, 1:
			return name
		case 2:
			return "*." + name
		case 3:
			return name + ".*"
		case 4:
			// star replaces one label or sits inside
			parts := strings.Split(name, ".")
			parts[rapid.IntRange(0, len(parts)-1).Draw(rt, "which")] = "*"
			return strings.Join(parts, ".")
		case 5:
			return "*" + name
		default:
			if rapid.Bool().Draw(rt, "star") {
				return "*"
			}
			return "default"
		}
	})
	rcheck(t, "random", V.N(3000, 20000), func(rt *rapid.T) {
		nent := rapid.IntRange(1, 30).Draw(rt, "entries")
		seen := map[string]bool{}
		var tab []c18Entry
		for i := 0; i < nent; i++ {
			p := genPattern.Draw(rt, "pattern")
			if seen[p] {
				continue
			}
			seen[p] = true
			nh := fmt.Sprintf("h%d.hop", i)
			if rapid.Bool().Draw(rt, "withport") {
				if rapid.Bool().Draw(rt, "defaultish port") {
					nh += ":" + strconv.Itoa(rapid.SampledFrom([]int{5060, 5061}).Draw(rt, "port"))
				} else {
					nh += ":" + strconv.Itoa(rapid.IntRange(1, 65535).Draw(rt, "port"))
				}
			}
			e := c18Entry{Proto: rapid.SampledFrom([]string{"udp", "tcp", "tls", "TLS", "Tls"}).Draw(rt, "proto"), Pattern: p, NextHop: nh}
			if len(tab) > 0 && rapid.IntRange(0, 3).Draw(rt, "same route item as the entry before") == 0 {
				e.Proto, e.NextHop = tab[len(tab)-1].Proto, tab[len(tab)-1].NextHop
			}
			tab = append(tab, e)
		}
		// host: derived from a pattern of the table, or fresh
		var host string
		src := tab[rapid.IntRange(0, len(tab)-1).Draw(rt, "from")].Pattern
		switch rapid.IntRange(0, 5).Draw(rt, "hostkind") {
		case 0:
			host = genName.Draw(rt, "fresh")
		case 1:
			host = strings.ReplaceAll(src, "*", genName.Draw(rt, "subst"))
		case 2:
			host = strings.ReplaceAll(src, "*", "")
		case 3:
			// near miss: one dot replaced by a letter
			host = strings.ReplaceAll(src, "*", genLabel.Draw(rt, "subst"))
			if i := strings.Index(host, "."); i >= 0 {
				host = host[:i] + "X" + host[i+1:]
			}
		case 4:
			host = strings.ReplaceAll(src, "*", genLabel.Draw(rt, "subst")) + genLabel.Draw(rt, "suffix")
		default:
			host = genLabel.Draw(rt, "prefix") + strings.ReplaceAll(src, "*", genLabel.Draw(rt, "subst"))
		}
		if host == "default" {
			host = "default.x"
		}
		c := c18Case{Table: tab, Host: host}
		V.Case(c)
		msg, nw, kind := c18Check(c, 50)
		if msg == "" {
			// history: other hosts first (hits and misses), then the same host again on the same object
			if pcr, bm := c18BuildConfig(tab); bm != "" {
				V.HarnessError(rt, "%s", bm)
			} else {
				var f0 c18Answer
				c18CheckOn(pcr, c, 1, &f0)
				nother := rapid.IntRange(1, 4).Draw(rt, "others")
				for i := 0; i < nother && msg == ""; i++ {
					oh := genName.Draw(rt, "otherhost")
					if rapid.Bool().Draw(rt, "otherfrompattern") {
						oh = strings.ReplaceAll(tab[rapid.IntRange(0, len(tab)-1).Draw(rt, "opat")].Pattern, "*", genLabel.Draw(rt, "osubst"))
					}
					if oh == "default" {
						oh = "default.y"
					}
					msg, _, _ = c18CheckOn(pcr, c18Case{Table: tab, Host: oh}, 2, nil)
					if msg == "" {
						msg, _, _ = c18CheckOn(pcr, c, 2, &f0)
					}
				}
				V.Class("interleaved lookups on one table")
			}
		}
		c18Record(c, nw, kind)
		V.SampleEvery(1500, func() any { return c })
		if msg != "" {
			failf(rt, "%s", msg)
		}
	})
}

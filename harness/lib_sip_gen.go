package main

// rapid generators for the abstract SIP model (DESIGN.md 4.1). Construction,
// not rejection; every random choice is a rapid draw.

import (
	"fmt"
	"strconv"
	"strings"

	"pgregory.net/rapid"
)

const tokAlpha = "abcdefghijklmnopqrstuvwxyzABCDEFGHIJKLMNOPQRSTUVWXYZ0123456789"
const tokSpecial = "-.!%*_+`'~"

func gFromAlphabet(rt *rapid.T, label string, alpha string, minLen, maxLen int) string {
	n := rapid.IntRange(minLen, maxLen).Draw(rt, label+".len")
	b := make([]byte, n)
	for i := range b {
		b[i] = alpha[rapid.IntRange(0, len(alpha)-1).Draw(rt, label+".c")]
	}
	return string(b)
}

// gTok: an RFC 3261 token; the special characters are drawn on purpose.
func gTok(rt *rapid.T, label string) string {
	switch rapid.IntRange(0, 3).Draw(rt, label+".shape") {
	case 0:
		return gFromAlphabet(rt, label, "abcxyz019", 1, 4)
	case 1:
		return gFromAlphabet(rt, label, tokAlpha, 1, 10)
	default:
		return gFromAlphabet(rt, label, tokAlpha+tokSpecial+tokSpecial, 1, 10)
	}
}

// gWord: alphanumeric only (safe everywhere).
func gWord(rt *rapid.T, label string) string {
	return gFromAlphabet(rt, label, "abcdefghijklmnopqrstuvwxyz0123456789", 1, 8)
}

var stdMethods = []string{"INVITE", "ACK", "BYE", "CANCEL", "OPTIONS", "REGISTER", "PRACK", "SUBSCRIBE", "NOTIFY", "PUBLISH", "INFO", "REFER", "MESSAGE", "UPDATE"}

func gMethod(rt *rapid.T, label string) string {
	if rapid.IntRange(0, 4).Draw(rt, label+".std") > 0 {
		return rapid.SampledFrom(stdMethods).Draw(rt, label)
	}
	return strings.ToUpper(gFromAlphabet(rt, label, "ABCDEFGHIJKLMNOPQRSTUVWXYZ-._!", 1, 10))
}

func gReason(rt *rapid.T, label string) string {
	n := rapid.IntRange(1, 4).Draw(rt, label+".words")
	w := make([]string, n)
	for i := range w {
		w[i] = gFromAlphabet(rt, label, tokAlpha+"-.!%'()", 1, 8)
	}
	return strings.Join(w, " ")
}

func gStatus(rt *rapid.T, label string) int {
	switch rapid.IntRange(0, 3).Draw(rt, label+".kind") {
	case 0:
		return rapid.SampledFrom([]int{100, 180, 183, 200, 202, 302, 404, 486, 487, 500, 503, 603, 699}).Draw(rt, label)
	default:
		return rapid.IntRange(100, 699).Draw(rt, label)
	}
}

// gFinalStatus: every final status 200-699, the ones that mean something
// special to SIP elements drawn more often (2xx, redirects, challenges 401 /
// 407, 408, 481, 487, 491, 5xx, 6xx).
func gFinalStatus(rt *rapid.T, label string) int {
	if rapid.IntRange(0, 2).Draw(rt, label+".kind") == 0 {
		return rapid.IntRange(200, 699).Draw(rt, label)
	}
	return rapid.SampledFrom([]int{200, 200, 202, 204, 300, 301, 302, 305, 380, 400, 401, 403, 404, 405, 407, 408, 410, 415, 420, 422, 423, 480, 481, 482, 483, 484, 486, 487, 488, 489, 491, 493, 500, 501, 502, 503, 504, 513, 600, 603, 604, 606, 699}).Draw(rt, label)
}

// gTxStatus: the status of one more response within a transaction -
// provisional (100, 18x, any 1xx) or final (gFinalStatus).
func gTxStatus(rt *rapid.T, label string) int {
	switch rapid.IntRange(0, 5).Draw(rt, label+".class") {
	case 0:
		return 100
	case 1:
		return rapid.SampledFrom([]int{180, 181, 182, 183, 199}).Draw(rt, label+".1xx")
	case 2:
		return rapid.IntRange(101, 199).Draw(rt, label+".1xx")
	}
	return gFinalStatus(rt, label)
}

// gOpaqueVia: a well-formed via-parm (RFC 3261 20.42: SLASH and COLON allow
// surrounding white space, sent-by may be an IPv6 reference) that this proxy's
// decoder does not take; such an entry further down the stack is none of the
// proxy's business and has to come out as it went in.
func gOpaqueVia(rt *rapid.T, label string) AVia {
	br := "z9hG4bK" + gFromAlphabet(rt, label+".br", tokAlpha, 4, 10)
	return AVia{Raw: rapid.SampledFrom([]string{
		"SIP/2.0/UDP [2001:db8::9]:5060;branch=" + br,
		"SIP/2.0/TCP [2001:db8::78]:5061;branch=" + br + ";rport",
		"SIP/2.0/UDP [::1];branch=" + br,
		"SIP / 2.0 / UDP relay.example.net:5060;branch=" + br,
		"SIP/2.0 /UDP relay.example.net;branch=" + br + ";ttl=1",
		"SIP/2.0/UDP relay.example.net : 5060;branch=" + br,
	}).Draw(rt, label+".form")}
}

// gParamList: header/URI/Via parameters. valAlpha is the value alphabet.
func gParamList(rt *rapid.T, label string, max int, valAlpha string, reserved map[string]bool) []AParam {
	n := rapid.IntRange(0, max).Draw(rt, label+".n")
	var out []AParam
	used := map[string]bool{}
	for i := 0; i < n; i++ {
		k := gFromAlphabet(rt, label+".k", tokAlpha+"-._!~*'+", 1, 6)
		if reserved[strings.ToLower(k)] {
			k = "x" + strconv.Itoa(i) + k
		}
		// the grammar does not forbid repeating a parameter name: do it now and then
		if len(out) > 0 && rapid.IntRange(0, 7).Draw(rt, label+".dup") == 0 {
			k = out[rapid.IntRange(0, len(out)-1).Draw(rt, label+".dupof")].K
		}
		used[k] = true
		p := AParam{K: k}
		if rapid.IntRange(0, 2).Draw(rt, label+".hasv") > 0 {
			p.HasV = true
			p.V = gFromAlphabet(rt, label+".v", valAlpha, 1, 8)
		}
		out = append(out, p)
	}
	return out
}

var uriParamReserved = map[string]bool{"lr": true, "transport": true, "tag": true, "maddr": true}
var viaParamReserved = map[string]bool{"branch": true, "received": true, "rport": true, "maddr": true, "ttl": true}
var hdrParamReserved = map[string]bool{"tag": true}

const uriParamValAlpha = tokAlpha + "-._!~*'%:+[]/&$"
const hdrParamValAlpha = tokAlpha + "-.!%*_+`'~"
const userAlpha = tokAlpha + "-_.!~*'&=+$/%"

type uriOpts struct {
	hostFn   func(rt *rapid.T, label string) string
	noParams bool // for bare From/To
	userFn   func(rt *rapid.T, label string) string
}

func gHostName(rt *rapid.T, label string) string {
	switch rapid.IntRange(0, 3).Draw(rt, label+".kind") {
	case 0:
		return fmt.Sprintf("%d.%d.%d.%d", rapid.IntRange(1, 223).Draw(rt, label+".a"), rapid.IntRange(0, 255).Draw(rt, label+".b"), rapid.IntRange(0, 255).Draw(rt, label+".c"), rapid.IntRange(1, 254).Draw(rt, label+".d"))
	case 1:
		return rapid.SampledFrom([]string{"example.com", "h", "pbx-1.example.org", "a.b.c.d.test", "x1.invalid", "EXAMPLE.com"}).Draw(rt, label)
	default:
		n := rapid.IntRange(1, 3).Draw(rt, label+".labels")
		parts := make([]string, n)
		for i := range parts {
			parts[i] = gFromAlphabet(rt, label+".l", "abcdefghijklmnopqrstuvwxyz0123456789", 1, 6)
			if rapid.IntRange(0, 4).Draw(rt, label+".hy") == 0 {
				parts[i] += "-" + gFromAlphabet(rt, label+".l2", "abcxyz012", 1, 3)
			}
		}
		return strings.Join(parts, ".")
	}
}

func gPort(rt *rapid.T, label string) int {
	switch rapid.IntRange(0, 3).Draw(rt, label+".kind") {
	case 0:
		return 0
	case 1:
		return rapid.SampledFrom([]int{5060, 5061, 1, 65535, 80}).Draw(rt, label)
	default:
		return rapid.IntRange(1, 65535).Draw(rt, label)
	}
}

func gSIPURI(rt *rapid.T, label string, o uriOpts) AURI {
	u := AURI{Scheme: "sip"}
	if rapid.IntRange(0, 5).Draw(rt, label+".sips") == 0 {
		u.Scheme = "sips"
	}
	if rapid.IntRange(0, 3).Draw(rt, label+".hasuser") > 0 {
		if o.userFn != nil {
			u.User = o.userFn(rt, label+".user")
		} else {
			u.User = gFromAlphabet(rt, label+".user", userAlpha, 1, 10)
		}
		if rapid.IntRange(0, 4).Draw(rt, label+".haspass") == 0 {
			u.Pass = gFromAlphabet(rt, label+".pass", tokAlpha+"-_.!~*'&=+$%", 1, 6)
		}
	}
	if o.hostFn != nil {
		u.Host = o.hostFn(rt, label+".host")
	} else {
		u.Host = gHostName(rt, label+".host")
	}
	u.Port = gPort(rt, label+".port")
	if !o.noParams {
		u.Params = gURIParams(rt, label+".params")
		nh := rapid.IntRange(0, 3).Draw(rt, label+".nhdrs")
		if rapid.IntRange(0, 2).Draw(rt, label+".hashdrs") > 0 {
			nh = 0
		}
		for i := 0; i < nh; i++ {
			h := AParam{K: gFromAlphabet(rt, label+".hk", tokAlpha+"-._!~*'+$/?:[]%", 1, 6), HasV: true}
			if rapid.Bool().Draw(rt, label+".hv?") {
				h.V = gFromAlphabet(rt, label+".hv", tokAlpha+"-._!~*'+$/?:[]%", 1, 8)
			}
			u.Hdrs = append(u.Hdrs, h)
		}
	}
	return u
}

// gURIParams: 0-6 URI parameters, valued or valueless, 'lr' in any position.
func gURIParams(rt *rapid.T, label string) []AParam {
	ps := gParamList(rt, label, 5, uriParamValAlpha, uriParamReserved)
	switch rapid.IntRange(0, 5).Draw(rt, label+".special") {
	case 0:
		ps = gInsertParam(rt, label+".lrpos", ps, AParam{K: "lr"})
	case 1:
		ps = gInsertParam(rt, label+".tpos", ps, AParam{K: "transport", V: rapid.SampledFrom([]string{"udp", "tcp", "UDP", "tls", "sctp"}).Draw(rt, label+".transport"), HasV: true})
	case 2:
		ps = gInsertParam(rt, label+".lrpos", ps, AParam{K: "lr"})
		ps = gInsertParam(rt, label+".tpos", ps, AParam{K: "transport", V: rapid.SampledFrom([]string{"udp", "tcp"}).Draw(rt, label+".transport"), HasV: true})
	}
	return ps
}

func gInsertParam(rt *rapid.T, label string, ps []AParam, p AParam) []AParam {
	pos := rapid.IntRange(0, len(ps)).Draw(rt, label)
	out := append([]AParam{}, ps[:pos]...)
	out = append(out, p)
	return append(out, ps[pos:]...)
}

func gAbsURI(rt *rapid.T, label string) AURI {
	switch rapid.IntRange(0, 3).Draw(rt, label+".kind") {
	case 0:
		return AURI{Abs: "tel:+" + gFromAlphabet(rt, label+".num", "0123456789", 3, 12)}
	case 1:
		s := "tel:" + gFromAlphabet(rt, label+".num", "0123456789-", 3, 10)
		n := rapid.IntRange(1, 3).Draw(rt, label+".np")
		for i := 0; i < n; i++ {
			s += ";" + gFromAlphabet(rt, label+".pk", "abcdefghijklmnopqrstuvwxyz-", 1, 8)
			if rapid.Bool().Draw(rt, label+".pv?") {
				s += "=" + gFromAlphabet(rt, label+".pv", tokAlpha+"-.%+", 1, 8)
			}
		}
		return AURI{Abs: s}
	case 2:
		return AURI{Abs: "urn:service:" + gFromAlphabet(rt, label+".svc", "abcdefghijklmnopqrstuvwxyz.", 2, 10)}
	default:
		return AURI{Abs: "urn:" + gFromAlphabet(rt, label+".nid", "abcdefghijklmnopqrstuvwxyz", 2, 6) + ":" + gFromAlphabet(rt, label+".nss", tokAlpha+"-.:%+=@;$_!*'", 1, 16)}
	}
}

// gDisplay: "", token display name(s) or quoted; always ends so that '<' can follow.
func gDisplay(rt *rapid.T, label string, allowComma bool) string {
	switch rapid.IntRange(0, 4).Draw(rt, label+".kind") {
	case 0, 1:
		return ""
	case 2:
		n := rapid.IntRange(1, 3).Draw(rt, label+".words")
		w := make([]string, n)
		for i := range w {
			w[i] = gFromAlphabet(rt, label+".w", tokAlpha+"-.!%*_+`'~", 1, 8)
		}
		return strings.Join(w, " ") + " "
	default:
		alpha := tokAlpha + " -.!%*_+`'~;:@=?/()[]{}|^&$#"
		q := "\"" + gFromAlphabet(rt, label+".q", alpha, 0, 12)
		if rapid.IntRange(0, 3).Draw(rt, label+".esc") == 0 {
			q += "\\\"" + gFromAlphabet(rt, label+".q2", alpha, 0, 4)
		}
		q += "\""
		if rapid.Bool().Draw(rt, label+".sp") {
			q += " "
		}
		return q
	}
}

// gNameAddr: a From/To value or a Route/Record-Route entry.
type naOpts struct {
	uri       uriOpts
	allowAbs  bool
	allowBare bool
	tag       *string // nil = random presence
	maxParams int
}

func gNameAddr(rt *rapid.T, label string, o naOpts) ANameAddr {
	var n ANameAddr
	if o.allowAbs && rapid.IntRange(0, 4).Draw(rt, label+".abs") == 0 {
		n.URI = gAbsURI(rt, label+".uri")
	} else {
		n.URI = gSIPURI(rt, label+".uri", o.uri)
	}
	n.Display = gDisplay(rt, label+".display", false)
	if o.allowBare && n.Display == "" && rapid.IntRange(0, 3).Draw(rt, label+".bare") == 0 {
		// a bare addr-spec must not contain ';' '?' ','
		if n.URI.IsSIP() {
			n.URI.Params, n.URI.Hdrs = nil, nil
			n.Bare = true
		} else if !strings.ContainsAny(n.URI.Abs, ";?,") {
			n.Bare = true
		}
	}
	n.Params = gParamList(rt, label+".params", o.maxParams, hdrParamValAlpha, hdrParamReserved)
	if o.maxParams > 0 && rapid.IntRange(0, 4).Draw(rt, label+".quotedparam") == 0 {
		// gen-value = token / host / quoted-string: a quoted value may hold '=', SP, ':' ...
		q := rapid.SampledFrom([]string{`"k=v"`, `"a b"`, `"x=1=2"`, `""`, `"=="`, `"sip:u@h:5060"`, `"tag=zz"`}).Draw(rt, label+".quotedvalue")
		n.Params = gInsertParam(rt, label+".quotedpos", n.Params, AParam{K: gFromAlphabet(rt, label+".qk", tokAlpha+"-", 1, 6) + "q", V: q, HasV: true})
	}
	if o.tag != nil {
		if *o.tag != "" {
			n.Params = gInsertParam(rt, label+".tagpos", n.Params, AParam{K: "tag", V: *o.tag, HasV: true})
		}
	} else if rapid.Bool().Draw(rt, label+".hastag") {
		n.Params = gInsertParam(rt, label+".tagpos", n.Params, AParam{K: "tag", V: gTok(rt, label+".tag"), HasV: true})
	}
	return n
}

type viaOpts struct {
	hostFn func(rt *rapid.T, label string) string
}

func gVia(rt *rapid.T, label string, o viaOpts) AVia {
	v := AVia{Proto: "SIP", Ver: "2.0", Transport: rapid.SampledFrom([]string{"UDP", "TCP", "TLS", "SCTP", "udp", "Tcp", "WS"}).Draw(rt, label+".transport")}
	if rapid.IntRange(0, 9).Draw(rt, label+".oddproto") == 0 {
		v.Proto, v.Ver = gFromAlphabet(rt, label+".proto", tokAlpha+"-.!%*_+~", 1, 5), gFromAlphabet(rt, label+".ver", tokAlpha+".", 1, 4)
		v.Transport = gFromAlphabet(rt, label+".trans", tokAlpha+"-", 1, 5)
	}
	if o.hostFn != nil {
		v.Host = o.hostFn(rt, label+".host")
	} else {
		v.Host = gHostName(rt, label+".host")
	}
	v.Port = gPort(rt, label+".port")
	v.Params = gParamList(rt, label+".params", 4, tokAlpha+"-.!%*_+`'~:[]", viaParamReserved)
	if rapid.IntRange(0, 5).Draw(rt, label+".hasbranch") > 0 {
		v.Params = gInsertParam(rt, label+".bpos", v.Params, AParam{K: "branch", V: "z9hG4bK" + gFromAlphabet(rt, label+".branch", tokAlpha+"-.!%*_+~", 1, 12), HasV: true})
	}
	if rapid.IntRange(0, 3).Draw(rt, label+".extra") == 0 {
		switch rapid.IntRange(0, 3).Draw(rt, label+".which") {
		case 0:
			v.Params = gInsertParam(rt, label+".pos", v.Params, AParam{K: "received", V: "192.0.2." + strconv.Itoa(rapid.IntRange(1, 254).Draw(rt, label+".rcv")), HasV: true})
		case 1:
			v.Params = gInsertParam(rt, label+".pos", v.Params, AParam{K: "rport"})
		case 2:
			v.Params = gInsertParam(rt, label+".pos", v.Params, AParam{K: "rport", V: strconv.Itoa(rapid.IntRange(1, 65535).Draw(rt, label+".rp")), HasV: true})
		default:
			v.Params = gInsertParam(rt, label+".pos", v.Params, AParam{K: "ttl", V: strconv.Itoa(rapid.IntRange(0, 255).Draw(rt, label+".ttl")), HasV: true})
			v.Params = gInsertParam(rt, label+".pos2", v.Params, AParam{K: "maddr", V: "224.0.1.75", HasV: true})
		}
	}
	return v
}

// ---- header-name spelling -------------------------------------------------

var hSpellings = map[int][]string{
	hVia:    {"Via", "v", "VIA", "via", "vIa", "V"},
	hRoute:  {"Route", "ROUTE", "route", "rOUTE"},
	hRR:     {"Record-Route", "RECORD-ROUTE", "record-route", "Record-route"},
	hFrom:   {"From", "f", "FROM", "from", "F", "fRoM"},
	hTo:     {"To", "t", "TO", "to", "T", "tO"},
	hCallID: {"Call-ID", "i", "CALL-ID", "call-id", "Call-Id", "I"},
	hCSeq:   {"CSeq", "CSEQ", "cseq", "Cseq"},
	hCL:     {"Content-Length", "l", "CONTENT-LENGTH", "content-length", "Content-length", "L"},
}

func gSpell(rt *rapid.T, label string, kind int) string {
	sp := hSpellings[kind]
	// index 0 (canonical) most likely, so that shrinking converges to it
	if rapid.IntRange(0, 2).Draw(rt, label+".odd") == 0 {
		return sp[rapid.IntRange(0, len(sp)-1).Draw(rt, label+".idx")]
	}
	return sp[0]
}

// names that the proxy interprets; extension headers never use them
var interpretedNames = map[string]bool{"via": true, "v": true, "route": true, "record-route": true, "from": true, "f": true, "to": true, "t": true, "call-id": true, "i": true, "cseq": true, "content-length": true, "l": true}

var extKnownNames = []string{"Content-Type", "CONTENT-TYPE", "c", "Supported", "k", "Subject", "s", "Contact", "m", "Event", "o", "Refer-To", "r", "Allow-Events", "u", "Accept-Contact", "a", "Referred-By", "b", "Content-Encoding", "e",
	"Max-Forwards", "max-forwards", "User-Agent", "Allow", "X-Custom", "P-Asserted-Identity", "Authorization", "Date", "Session-Expires", "x"}

func gExtName(rt *rapid.T, label string) string {
	if rapid.IntRange(0, 2).Draw(rt, label+".known") > 0 {
		return rapid.SampledFrom(extKnownNames).Draw(rt, label)
	}
	n := gFromAlphabet(rt, label, tokAlpha+tokSpecial, 1, 12)
	if interpretedNames[strings.ToLower(n)] {
		n = "X-" + n
	}
	return n
}

var hostileValueBits = []string{"%", "%s", "%d%n", "%41", "\"", "\"q;x,y\"", ";", ",", "<", ">", "=", ":", "@", "?", "<sip:a@b;lr>", "\\", "%!(NOVERB)", "Content-Length: 5", "é", "日本語", "\xf0\x9f\x98\x80", "\x80", "\xff\xfe", "\x00", "\t", "a  b", "\x7f", "\x1b[0m"}

// gExtValue: an opaque header value: never CR or LF.
func gExtValue(rt *rapid.T, label string, maxLong int) string {
	switch rapid.IntRange(0, 9).Draw(rt, label+".kind") {
	case 0:
		return ""
	case 1, 2:
		return gFromAlphabet(rt, label, tokAlpha+" ", 1, 20)
	case 3, 4, 5:
		n := rapid.IntRange(1, 6).Draw(rt, label+".bits")
		var sb strings.Builder
		for i := 0; i < n; i++ {
			if rapid.Bool().Draw(rt, label+".plain") {
				sb.WriteString(gFromAlphabet(rt, label+".p", tokAlpha, 1, 5))
			} else {
				sb.WriteString(rapid.SampledFrom(hostileValueBits).Draw(rt, label+".bit"))
			}
		}
		return sb.String()
	case 6:
		// arbitrary bytes except CR/LF
		n := rapid.IntRange(1, 40).Draw(rt, label+".n")
		b := make([]byte, n)
		for i := range b {
			c := byte(rapid.IntRange(0, 255).Draw(rt, label+".b"))
			if c == '\r' || c == '\n' {
				c = '.'
			}
			b[i] = c
		}
		return string(b)
	case 7:
		// whitespace-like runes at the edges (not SP/HTAB): they belong to the value
		edge := rapid.SampledFrom([]string{"\u00a0", "\u0085", "\u2003", "\v", "\f", "\u3000"}).Draw(rt, label+".edge")
		core := gFromAlphabet(rt, label, tokAlpha, 1, 6)
		switch rapid.IntRange(0, 2).Draw(rt, label+".where") {
		case 0:
			return edge + core
		case 1:
			return core + edge
		default:
			return edge + core + edge
		}
	case 8:
		if maxLong <= 0 {
			return gFromAlphabet(rt, label, tokAlpha, 1, 30)
		}
		base := rapid.SampledFrom([]int{4000, 4096, 8192, 16384, 1000, 12000}).Draw(rt, label+".long")
		n := base + rapid.IntRange(-100, 100).Draw(rt, label+".delta")
		if n > maxLong {
			n = maxLong
		}
		if n < 1 {
			n = 1
		}
		unit := gFromAlphabet(rt, label+".unit", tokAlpha+";,%\"", 1, 7)
		return strings.Repeat(unit, n/len(unit)+1)[:n]
	default:
		return " " + gFromAlphabet(rt, label, tokAlpha, 1, 8) + rapid.SampledFrom([]string{"", " ", "\t", "  "}).Draw(rt, label+".trail")
	}
}

func gExtHeaders(rt *rapid.T, label string, max int, maxLong int) []AHdr {
	n := 0
	switch rapid.IntRange(0, 5).Draw(rt, label+".nclass") {
	case 0:
		n = 0
	case 1, 2, 3:
		n = rapid.IntRange(1, 5).Draw(rt, label+".n")
	default:
		n = rapid.IntRange(0, max).Draw(rt, label+".n")
	}
	if n > max {
		n = max
	}
	var out []AHdr
	longs := 0
	for i := 0; i < n; i++ {
		name := ""
		if len(out) > 0 && rapid.IntRange(0, 9).Draw(rt, label+".repeat") < 3 {
			name = out[rapid.IntRange(0, len(out)-1).Draw(rt, label+".which")].Name
		} else {
			name = gExtName(rt, label+".name")
		}
		ml := maxLong
		if longs >= 2 {
			ml = 0
		}
		v := gExtValue(rt, label+".value", ml)
		if len(v) > 900 {
			longs++
		}
		out = append(out, AHdr{Kind: hExt, Name: name, SP: gSP(rt, label+".sp"), Value: v})
	}
	return out
}

// gSP: the white space between the colon and the value - usually one blank,
// sometimes none, several, a tab (RFC 3261 7.3.1 allows any linear white space
// there; none of it belongs to the value).
func gSP(rt *rapid.T, label string) string {
	switch rapid.IntRange(0, 11).Draw(rt, label) {
	case 0, 1:
		return ""
	case 2:
		return "  "
	case 3:
		return "\t"
	case 4:
		return " \t "
	}
	return " "
}

// gBody: sizes biased to 0, small, and the bufio window; content mixes.
func gBody(rt *rapid.T, label string, max int) []byte {
	if max <= 0 {
		return nil
	}
	var n int
	switch rapid.IntRange(0, 9).Draw(rt, label+".sizeclass") {
	case 0, 1, 2:
		return nil
	case 3, 4, 5:
		n = rapid.IntRange(1, 60).Draw(rt, label+".n")
	case 6:
		n = rapid.IntRange(4090, 4100).Draw(rt, label+".n")
	case 7:
		n = rapid.IntRange(1, 2000).Draw(rt, label+".n")
	default:
		n = rapid.IntRange(1, max).Draw(rt, label+".n")
	}
	if n > max {
		n = max
	}
	kind := rapid.IntRange(0, 4).Draw(rt, label+".kind")
	b := make([]byte, 0, n)
	switch kind {
	case 0:
		unit := "v=0\r\no=- 1 1 IN IP4 10.0.0.1\r\ns=-\r\n"
		for len(b) < n {
			b = append(b, unit...)
		}
	case 1:
		unit := "INVITE sip:x@y SIP/2.0\r\nVia: SIP/2.0/UDP 1.2.3.4\r\nContent-Length: 3\r\n\r\nabc\r\n\r\n"
		for len(b) < n {
			b = append(b, unit...)
		}
	case 2:
		if n <= 64 {
			for i := 0; i < n; i++ {
				b = append(b, byte(rapid.IntRange(0, 255).Draw(rt, label+".b")))
			}
		} else {
			seed := rapid.IntRange(0, 1<<30).Draw(rt, label+".seed")
			x := uint32(seed)*2654435761 + 1
			for i := 0; i < n; i++ {
				x ^= x << 13
				x ^= x >> 17
				x ^= x << 5
				b = append(b, byte(x))
			}
		}
	case 3:
		unit := rapid.SampledFrom([]string{"\r\n", "\n", "\x00", "\r", "\r\n\r\n", " \t"}).Draw(rt, label+".unit")
		for len(b) < n {
			b = append(b, unit...)
		}
	default:
		for len(b) < n {
			b = append(b, "abcdefghij"...)
		}
		// a body that ends like a line end
		tail := rapid.SampledFrom([]string{"", "\r", "\n", "\r\n", "\r\n\r\n"}).Draw(rt, label+".tail")
		if len(tail) <= n {
			b = append(b[:n-len(tail)], tail...)
		}
	}
	return b[:n]
}

// gIdent: Call-ID / tag / branch material.
func gIdent(rt *rapid.T, label string) string {
	switch rapid.IntRange(0, 3).Draw(rt, label+".kind") {
	case 0:
		return gFromAlphabet(rt, label, "ab-0", 1, 4)
	case 1:
		return gTok(rt, label)
	default:
		return gFromAlphabet(rt, label, "0123456789abcdef", 8, 16) + rapid.SampledFrom([]string{"", "@host.example", "@10.1.2.3"}).Draw(rt, label+".at")
	}
}

// ---- assembling a message from parts ---------------------------------------

type msgParts struct {
	IsReq      bool
	Method     string
	RURI       AURI
	Version    string
	Code       int
	Reason     string
	Vias       []AVia
	Routes     []ANameAddr
	RRs        []ANameAddr
	From, To   ANameAddr
	CallID     string
	CSeqN      int
	CSeqMethod string
	Ext        []AHdr
	Body       []byte
	AllowLF    bool
	Canonical  bool // canonical names and order (no style drawing)
	JoinOpaque bool // an undecodable Via entry may share a line with others (never the first Via line)
}

// gGroupLines splits a list into physical header lines with separators.
func gGroupLinesVia(rt *rapid.T, label string, vs []AVia, joinOpaque bool) []AHdr {
	var out []AHdr
	for i := 0; i < len(vs); {
		k := 1
		if len(vs)-i > 1 {
			k = rapid.IntRange(1, len(vs)-i).Draw(rt, label+".run")
		}
		// an entry the proxy cannot decode stays on a line of its own (joined with
		// others it would make their line undecodable too, which changes what the
		// proxy learns from the message)
		for j := i; j < i+k && !(joinOpaque && i > 0); j++ {
			if vs[j].Raw != "" {
				if j == i {
					k = 1
				} else {
					k = j - i
				}
				break
			}
		}
		h := AHdr{Kind: hVia, Name: gSpell(rt, label+".name", hVia), SP: gSP(rt, label+".sp"), Vias: vs[i : i+k]}
		for j := 1; j < k; j++ {
			h.Seps = append(h.Seps, rapid.SampledFrom([]string{",", ", "}).Draw(rt, label+".sep"))
		}
		out = append(out, h)
		i += k
	}
	return out
}

func gGroupLinesNA(rt *rapid.T, label string, kind int, ns []ANameAddr) []AHdr {
	var out []AHdr
	for i := 0; i < len(ns); {
		k := 1
		if len(ns)-i > 1 {
			k = rapid.IntRange(1, len(ns)-i).Draw(rt, label+".run")
		}
		h := AHdr{Kind: kind, Name: gSpell(rt, label+".name", kind), SP: gSP(rt, label+".sp"), NAs: ns[i : i+k]}
		for j := 1; j < k; j++ {
			h.Seps = append(h.Seps, rapid.SampledFrom([]string{",", ", "}).Draw(rt, label+".sep"))
		}
		out = append(out, h)
		i += k
	}
	return out
}

// assemble lays the parts out as an AMsg: header-name spelling, list layout,
// blank after the colon, interleaving of the header groups and line ends are
// all drawn (relative order inside each list header kind is preserved).
func assemble(rt *rapid.T, label string, p msgParts) *AMsg {
	m := &AMsg{IsReq: p.IsReq, Method: p.Method, RURI: p.RURI, Version: p.Version, Code: p.Code, Reason: p.Reason, Body: p.Body, EOL: "\r\n"}
	if m.Version == "" {
		m.Version = "SIP/2.0"
	}
	if p.AllowLF && rapid.IntRange(0, 3).Draw(rt, label+".lf") == 0 {
		m.EOL = "\n"
	}
	single := func(kind int, value string, nas []ANameAddr) []AHdr {
		return []AHdr{{Kind: kind, Name: gSpell(rt, label+".name", kind), SP: gSP(rt, label+".sp"), Value: value, NAs: nas}}
	}
	groups := [][]AHdr{
		gGroupLinesVia(rt, label+".via", p.Vias, p.JoinOpaque),
		gGroupLinesNA(rt, label+".route", hRoute, p.Routes),
		gGroupLinesNA(rt, label+".rr", hRR, p.RRs),
		single(hFrom, "", []ANameAddr{p.From}),
		single(hTo, "", []ANameAddr{p.To}),
		single(hCallID, p.CallID, nil),
		single(hCSeq, strconv.Itoa(p.CSeqN)+" "+p.CSeqMethod, nil),
		p.Ext,
		single(hCL, "", nil),
	}
	total := 0
	for _, g := range groups {
		total += len(g)
	}
	shuffle := rapid.IntRange(0, 2).Draw(rt, label+".shuffle") > 0
	cur := make([]int, len(groups))
	for len(m.Hdrs) < total {
		// candidates: groups with remaining lines
		var cand []int
		for gi, g := range groups {
			if cur[gi] < len(g) {
				cand = append(cand, gi)
			}
		}
		pick := cand[0]
		if shuffle && len(cand) > 1 {
			pick = cand[rapid.IntRange(0, len(cand)-1).Draw(rt, label+".pick")]
		}
		m.Hdrs = append(m.Hdrs, groups[pick][cur[pick]])
		cur[pick]++
	}
	return m
}

// fitUDP shrinks the message to at most limit bytes by trimming the body and
// then the longest extension values (UDP hops only).
func fitUDP(m *AMsg, limit int) {
	for len(m.Bytes()) > limit {
		over := len(m.Bytes()) - limit
		if len(m.Body) > 0 {
			cut := over
			if cut > len(m.Body) {
				cut = len(m.Body)
			}
			m.Body = m.Body[:len(m.Body)-cut]
			continue
		}
		li, ll := -1, 0
		for i, h := range m.Hdrs {
			if h.Kind == hExt && len(h.Value) > ll {
				li, ll = i, len(h.Value)
			}
		}
		if li < 0 || ll == 0 {
			return
		}
		cut := over
		if cut > ll {
			cut = ll
		}
		m.Hdrs[li].Value = m.Hdrs[li].Value[:ll-cut]
	}
}

// ---- generic messages (no routing constraints) ------------------------------

type anyOpts struct {
	MaxExt  int
	MaxLong int // longest extension value (0 = no long values)
	MaxBody int
	AllowLF bool
	Tiny    bool // very small messages (exhaustive cut enumeration)
}

// gAnyMsg: a well-formed request or response with generic content.
func gAnyMsg(rt *rapid.T, label string, o anyOpts) *AMsg {
	p := msgParts{IsReq: rapid.IntRange(0, 2).Draw(rt, label+".isreq") > 0, Version: "SIP/2.0", AllowLF: o.AllowLF}
	if o.Tiny {
		if p.IsReq {
			p.Method = rapid.SampledFrom([]string{"OPTIONS", "INVITE", "BYE", "X"}).Draw(rt, label+".method")
			p.RURI = AURI{Scheme: "sip", Host: rapid.SampledFrom([]string{"a", "h.test", "10.0.0.1"}).Draw(rt, label+".host")}
			p.CSeqMethod = p.Method
		} else {
			p.Code, p.Reason = rapid.SampledFrom([]int{100, 200, 404}).Draw(rt, label+".code"), rapid.SampledFrom([]string{"OK", "Not Found", "x"}).Draw(rt, label+".reason")
			p.CSeqMethod = "INVITE"
		}
		p.Vias = []AVia{{Proto: "SIP", Ver: "2.0", Transport: "UDP", Host: "h", Port: rapid.SampledFrom([]int{0, 5060}).Draw(rt, label+".vport")}}
		p.From = ANameAddr{URI: AURI{Scheme: "sip", Host: "a"}, Params: []AParam{{K: "tag", V: "1", HasV: true}}}
		p.To = ANameAddr{URI: AURI{Scheme: "sip", Host: "b"}}
		p.CallID = gFromAlphabet(rt, label+".callid", "abc", 1, 3)
		p.CSeqN = rapid.IntRange(0, 9).Draw(rt, label+".cseq")
		ne := rapid.IntRange(0, 2).Draw(rt, label+".next")
		for i := 0; i < ne; i++ {
			p.Ext = append(p.Ext, AHdr{Kind: hExt, Name: rapid.SampledFrom([]string{"X", "Subject", "c", "k"}).Draw(rt, label+".en"), SP: gSP(rt, label+".sp"),
				Value: rapid.SampledFrom([]string{"", "a", "a:b", "x y", "\t1"}).Draw(rt, label+".ev")})
		}
		nb := rapid.IntRange(0, 3).Draw(rt, label+".bodykind")
		switch nb {
		case 1:
			p.Body = []byte(gFromAlphabet(rt, label+".body", "ab\r\n", 1, 8))
		case 2:
			p.Body = []byte("\r\n\r\n")
		case 3:
			p.Body = []byte("X sip:a SIP/2.0\r\nl:0\r\n\r\n")
		}
		return assemble(rt, label+".layout", p)
	}
	if p.IsReq {
		p.Method = gMethod(rt, label+".method")
		if rapid.IntRange(0, 3).Draw(rt, label+".absruri") == 0 {
			p.RURI = gAbsURI(rt, label+".ruri")
		} else {
			p.RURI = gSIPURI(rt, label+".ruri", uriOpts{})
		}
		p.CSeqMethod = p.Method
	} else {
		p.Code, p.Reason = gStatus(rt, label+".code"), gReason(rt, label+".reason")
		p.CSeqMethod = gMethod(rt, label+".cseqmethod")
	}
	nv := rapid.IntRange(1, 4).Draw(rt, label+".nvia")
	for i := 0; i < nv; i++ {
		p.Vias = append(p.Vias, gVia(rt, label+".via", viaOpts{}))
	}
	nr := rapid.IntRange(0, 2).Draw(rt, label+".nroute")
	for i := 0; i < nr; i++ {
		p.Routes = append(p.Routes, gNameAddr(rt, label+".route", naOpts{maxParams: 2, tag: new(string)}))
	}
	p.From = gNameAddr(rt, label+".from", naOpts{allowAbs: true, allowBare: true, maxParams: 3})
	p.To = gNameAddr(rt, label+".to", naOpts{allowAbs: true, allowBare: true, maxParams: 3})
	p.CallID = gIdent(rt, label+".callid")
	p.CSeqN = rapid.IntRange(0, 1<<31-1).Draw(rt, label+".cseq")
	p.Ext = gExtHeaders(rt, label+".ext", o.MaxExt, o.MaxLong)
	p.Body = gBody(rt, label+".body", o.MaxBody)
	return assemble(rt, label+".layout", p)
}

// ---- restyling (C17): same abstract message, other spelling and list layout --

var extCompactPairs = map[string]string{"content-type": "c", "supported": "k", "subject": "s", "contact": "m", "event": "o", "refer-to": "r", "allow-events": "u", "accept-contact": "a", "referred-by": "b", "content-encoding": "e",
	"c": "Content-Type", "k": "Supported", "s": "Subject", "m": "Contact", "o": "Event", "r": "Refer-To", "u": "Allow-Events", "a": "Accept-Contact", "b": "Referred-By", "e": "Content-Encoding"}

func gRespellExt(rt *rapid.T, label, name string) string {
	switch rapid.IntRange(0, 4).Draw(rt, label+".how") {
	case 0:
		return strings.ToUpper(name)
	case 1:
		return strings.ToLower(name)
	case 2:
		if alt, ok := extCompactPairs[strings.ToLower(name)]; ok {
			return alt
		}
		return name
	case 3:
		b := []byte(name)
		for i := range b {
			if rapid.Bool().Draw(rt, label+".flip") {
				if b[i] >= 'a' && b[i] <= 'z' {
					b[i] -= 32
				} else if b[i] >= 'A' && b[i] <= 'Z' {
					b[i] += 32
				}
			}
		}
		return string(b)
	}
	return name
}

// restyle returns a twin of m: every header name independently respelled
// (canonical, compact where the RFC defines one, upper, lower, random case),
// every run of adjacent Via / Route / Record-Route lines re-laid-out (joined,
// split, partially joined). Values, order and everything else are the same.
func restyle(rt *rapid.T, label string, m *AMsg) *AMsg {
	t := m.Clone()
	var out []AHdr
	for i := 0; i < len(t.Hdrs); {
		h := t.Hdrs[i]
		if (h.Kind == hVia || h.Kind == hRoute || h.Kind == hRR) && h.Raw == "" {
			j := i
			var vias []AVia
			var nas []ANameAddr
			for j < len(t.Hdrs) && t.Hdrs[j].Kind == h.Kind && t.Hdrs[j].Raw == "" {
				vias = append(vias, t.Hdrs[j].Vias...)
				nas = append(nas, t.Hdrs[j].NAs...)
				j++
			}
			if h.Kind == hVia {
				out = append(out, gGroupLinesVia(rt, fmt.Sprintf("%s.v%d", label, i), vias, false)...)
			} else {
				out = append(out, gGroupLinesNA(rt, fmt.Sprintf("%s.n%d", label, i), h.Kind, nas)...)
			}
			i = j
			continue
		}
		if sp, ok := hSpellings[h.Kind]; ok {
			h.Name = sp[rapid.IntRange(0, len(sp)-1).Draw(rt, fmt.Sprintf("%s.s%d", label, i))]
		} else if h.Kind == hExt {
			h.Name = gRespellExt(rt, fmt.Sprintf("%s.e%d", label, i), h.Name)
			if interpretedNames[strings.ToLower(h.Name)] {
				h.Name = t.Hdrs[i].Name
			}
		}
		out = append(out, h)
		i++
	}
	t.Hdrs = out
	return t
}

//verif:needs core,sip,lab
package main

// C02 - responses follow the Via chain: pop one entry, go to the next.
// Engine: lab. (a) single responses over the space of Via layouts and
// parameters, reference model for the destination, textual comparison of the
// remaining Via entries; (b) request/response histories through backends
// (rapid state machine): the response returns to the hop the request came
// from carrying exactly the Via stack that hop sent.

import (
	"fmt"
	"regexp"
	"strconv"
	"strings"
	"testing"
	"time"

	"pgregory.net/rapid"
)

type c02Case struct {
	From     string `json:"sent_from"`
	Entry    int    `json:"listen_entry"`
	Wire     string `json:"wire"`
	Expected string `json:"expected"`
}

var c02Malformed = []string{"SIP/2.0 %s:5060;branch=z9hG4bKm", "SIP/2.0/UDP %s:abc;branch=z9hG4bKm", "garbage", "SIP/2.0/UDP", "SIP/2.0/UDP %s:1:2", "SIP/2.0/UDP/x %s:5060", ";branch=z9hG4bKm"}

// gTargetVia: a Via entry that designates a harness endpoint (or nothing).
func (s *stdSvc) gTargetVia(rt *rapid.T, label string) AVia {
	v := AVia{Proto: "SIP", Ver: "2.0"}
	v.Transport = rapid.SampledFrom([]string{"UDP", "UDP", "UDP", "TCP", "TCP", "udp", "Tcp", "TLS", "SCTP", "WS"}).Draw(rt, label+".transport")
	ua := rapid.IntRange(0, 3).Draw(rt, label+".ua")
	switch rapid.IntRange(0, 5).Draw(rt, label+".hostkind") {
	case 0:
		// (names as the host table writes them, one of them with capital letters)
		v.Host = []string{"ua-a.test", "ua-b.test", "UA-C.Corp.test", "ua-b.test"}[ua]
	case 1:
		v.Host = rapid.SampledFrom([]string{"unknown-host.example", "nowhere.invalid"}).Draw(rt, label+".unres")
	default:
		v.Host = s.ip(10 + ua)
	}
	v.Port = rapid.SampledFrom([]int{5060, 6010, 0, 0, s.high}).Draw(rt, label+".port")
	v.Params = gParamList(rt, label+".params", 3, tokAlpha+"-.!%*_+`'~", viaParamReserved)
	v.Params = gInsertParam(rt, label+".bpos", v.Params, AParam{K: "branch", V: "z9hG4bK" + s.nextID("t"), HasV: true})
	// received / rport
	switch rapid.IntRange(0, 3).Draw(rt, label+".received") {
	case 0:
		other := rapid.IntRange(0, 3).Draw(rt, label+".rcvua")
		v.Params = gInsertParam(rt, label+".rcvpos", v.Params, AParam{K: "received", V: s.ip(10 + other), HasV: true})
	}
	switch rapid.IntRange(0, 5).Draw(rt, label+".rport") {
	case 0:
		v.Params = gInsertParam(rt, label+".rppos", v.Params, AParam{K: "rport"})
	case 1:
		v.Params = gInsertParam(rt, label+".rppos", v.Params, AParam{K: "rport", V: strconv.Itoa(rapid.SampledFrom([]int{5060, 6010, s.high, s.high}).Draw(rt, label+".rpv")), HasV: true})
	case 2:
		v.Params = gInsertParam(rt, label+".rppos", v.Params, AParam{K: "rport", V: rapid.SampledFrom([]string{"abc", "60x", "-"}).Draw(rt, label+".rpbad"), HasV: true})
	}
	if rapid.IntRange(0, 5).Draw(rt, label+".maddr") == 0 {
		v.Params = gInsertParam(rt, label+".mpos", v.Params, AParam{K: "maddr", V: s.ip(13), HasV: true})
		v.Params = gInsertParam(rt, label+".tpos", v.Params, AParam{K: "ttl", V: "1", HasV: true})
	}
	return v
}

var c02CSeqLine = regexp.MustCompile(`(?im)^(cseq[ \t]*:.*?)INVITE([ \t]*\r?)$`)

type c02Txn struct {
	ID      string
	UA      int
	Ingress stdIngress
	SentVia []AVia
	At      labRx // reception at the backend
	SrcPort int
	Answers int
	Final   bool
	Rport   bool
	Method  string
	Wire    string // the request as sent
	CallID  string
	Cancel  bool // an INVITE that has been cancelled, or the CANCEL itself
}

func TestC02(t *testing.T) {
	V.Rule("lab: (c) one configuration with two entries under proxies: whose host tables map the same name to different machines (and the global table to a third): responses whose next Via names it, sent to either service in any order, go where the receiving service's table says. (a) responses with 1-6 Via entries over 1-6 header lines (full/compact/odd-case names, ',' / ', ' joins), the entry beneath the top one naming a harness endpoint by IPv4 literal or host-table name (or an unresolvable name), transports UDP/TCP/udp/Tcp and unsupported TLS/SCTP/WS, port present or absent (5060), received / rport absent / valueless / numeric / non-numeric, maddr, ttl, unknown parameters in any order, malformed second entries, every status class, sent from backend and non-backend addresses; (b) rapid state-machine histories over 4 user agents (UDP and TCP ingress, own Via stacks of 1-3 entries, rport requested or not) and UDP/TCP backends answering outstanding transactions in any order, 1xx before final. Oracle: (a) reference model for the destination (received over sent-by host; numeric rport over sent-by port only with received; default 5060; unsupported transport, unresolvable host, no or undecodable remaining Via => nothing), exactly one reception there and nothing elsewhere after a FIFO barrier, remaining Via entries textually intact and in order; (b) the response arrives at the socket/connection the request came from with exactly the Via stack the user agent sent (first entry modulo received/rport). non-trivial = >= 3 Via entries in >= 2 lines, or received/rport present, or a drop case; for (b) >= 2 transactions open at once; distinct by message / history")
	V.Require("tcp hop had ended the connection the proxy held to it", "burst of requests answered", "same Via lines sent again", "relayed:udp", "relayed:tcp", "drop:unsupported transport", "drop:no remaining via", "drop:malformed via", "drop: decodable Via entry below the undecodable one", "drop:unresolvable host", "received present", "rport numeric with received", "rport without received (ignored)", "port absent (5060)", ">=3 vias in >=2 lines", "history: >=2 transactions open", "history: answered out of order", "history: tcp ingress", "history: tcp backend", "history: CANCEL with the INVITE's branch")
	svc, err := newStdSvc(stdVariant{NoReceived: [3]string{"", "true", ""}})
	if err != nil {
		V.HarnessError(t, "cannot start lab instance: %v", err)
	}
	s := svc
	if err := s.primeHops(); err != nil {
		V.HarnessError(t, "priming: %v", err)
	}

	// user agents 0-2 are known to the proxy through a UDP listener (they have
	// sent a request before): a TCP Via entry naming them must still be answered over TCP
	for i, entry := range []int{0, 0, 1} {
		ua := s.uas[i]
		l := s.in.cfg.Listens[entry]
		msg := fmt.Sprintf("OPTIONS sip:nobody@unrouted.invalid SIP/2.0\r\nVia: SIP/2.0/UDP %s:5060;branch=z9hG4bKc02prime%d\r\nFrom: <sip:p@verif.invalid>;tag=p\r\nTo: <sip:nobody@unrouted.invalid>\r\nCall-ID: verif-c02prime-%d\r\nCSeq: 1 OPTIONS\r\nContent-Length: 0\r\n\r\n", ua.ip, i, i)
		s.model.learnRequest(s.model.transport(entry, "udp"), ua.ip, &AMsg{IsReq: true, Hdrs: []AHdr{{Kind: hVia, Vias: []AVia{{Host: ua.ip}}}}})
		send := func(b []byte) error { return ua.sendUDP(l.Addr, l.UDPPort, b) }
		if err := send([]byte(msg)); err != nil {
			V.HarnessError(t, "priming send: %v", err)
		}
		if rs, err := s.in.settle(send, 0); err != nil || len(labMessages(rs)) != 0 {
			V.HarnessError(t, "priming request misbehaved: %v\n%s", err, labDescribe(rs))
		}
	}

	rcheck(t, "single", V.N(2000, 20000), func(rt *rapid.T) {
		entry := rapid.IntRange(0, 2).Draw(rt, "entry")
		l := s.in.cfg.Listens[entry]
		var sender *labEP
		from := ""
		switch rapid.IntRange(0, 2).Draw(rt, "sender") {
		case 0:
			bl := s.in.cfg.Listens[rapid.IntRange(0, 1).Draw(rt, "bentry")]
			_, hp, _ := strings.Cut(bl.Backends[rapid.IntRange(0, 1).Draw(rt, "backend")], "://")
			h, p := splitHostPort(hp)
			sender, _ = s.in.hub.udpEP("backend-udp", h, p)
			from = "backend " + hp
		case 1:
			sender, _ = s.in.hub.udpEP("", s.ip(25), 5070)
			from = "hop " + s.ip(25)
		default:
			sender = s.uas2[rapid.IntRange(0, 3).Draw(rt, "ua")]
			from = "ua " + sender.ip
		}
		p := msgParts{IsReq: false, Version: "SIP/2.0", Code: gStatus(rt, "code"), Reason: gReason(rt, "reason")}
		p.CSeqMethod = gMethod(rt, "cseqmethod")
		p.CSeqN = rapid.IntRange(0, 1<<31-1).Draw(rt, "cseq")
		p.CallID = s.nextID("c02-")
		p.From = gNameAddr(rt, "from", naOpts{allowBare: true, maxParams: 2})
		p.To = gNameAddr(rt, "to", naOpts{allowBare: true, maxParams: 2})
		top := gVia(rt, "top", viaOpts{hostFn: func(rt *rapid.T, lb string) string {
			return rapid.SampledFrom([]string{l.Addr, "proxy-a.test", "whatever.example", s.ip(12)}).Draw(rt, lb)
		}})
		nv := rapid.IntRange(1, 6).Draw(rt, "nvias")
		p.Vias = []AVia{top}
		if nv >= 2 {
			p.Vias = append(p.Vias, s.gTargetVia(rt, "target"))
		}
		for i := 2; i < nv; i++ {
			p.Vias = append(p.Vias, gVia(rt, fmt.Sprintf("more%d", i), viaOpts{}))
		}
		p.Ext = gExtHeaders(rt, "ext", 3, 0)
		p.Body = gBody(rt, "body", 40)
		msg := assemble(rt, "layout", p)
		malformed := ""
		if nv >= 2 && rapid.IntRange(0, 7).Draw(rt, "malformed") == 0 {
			// replace the second entry by undecodable text: put it on a line of its own or join it
			malformed = rapid.SampledFrom(c02Malformed).Draw(rt, "malformedtext")
			if strings.Contains(malformed, "%s") {
				malformed = fmt.Sprintf(malformed, s.ip(10))
			}
			// rebuild the Via lines: [top] [malformed (+ rest)]
			var hdrs []AHdr
			done := false
			for _, h := range msg.Hdrs {
				if h.Kind != hVia {
					hdrs = append(hdrs, h)
					continue
				}
				if done {
					continue
				}
				done = true
				// a perfectly good entry (the one that was replaced: it names a harness
				// endpoint) may follow the undecodable one - it must not be used instead
				goodBelow := rapid.Bool().Draw(rt, "good entry below the undecodable one")
				V.ClassIf(goodBelow, "drop: decodable Via entry below the undecodable one")
				if rapid.Bool().Draw(rt, "sameline") {
					raw := top.String() + "," + malformed
					if goodBelow {
						raw += "," + p.Vias[1].String()
					}
					hdrs = append(hdrs, AHdr{Kind: hVia, Name: h.Name, SP: h.SP, Raw: raw})
				} else {
					hdrs = append(hdrs, AHdr{Kind: hVia, Name: h.Name, SP: h.SP, Vias: []AVia{top}})
					hdrs = append(hdrs, AHdr{Kind: hVia, Name: h.Name, SP: h.SP, Raw: malformed})
					if goodBelow {
						hdrs = append(hdrs, AHdr{Kind: hVia, Name: h.Name, SP: h.SP, Vias: []AVia{p.Vias[1]}})
					}
				}
			}
			msg.Hdrs = hdrs
		}
		wire := msg.Bytes()
		var hop mHop
		ok := false
		why := ""
		switch {
		case malformed != "":
			why = "malformed via"
		case nv < 2:
			why = "no remaining via"
		default:
			hop, ok = s.model.responseHop(p.Vias)
			if !ok {
				if hop.IP == "" {
					why = "unresolvable host"
				} else {
					why = "unsupported transport"
				}
			}
		}
		expText := fmt.Sprintf("-> %+v", hop)
		if !ok {
			expText = "sent nowhere (" + why + ")"
		}
		if ok && hop.Proto == "tcp" && rapid.IntRange(0, 3).Draw(rt, "the tcp hops have ended the connections they had accepted") == 0 {
			// A hop that ends an idle connection in an orderly way and keeps listening:
			// the response that follows the Via chain to it is delivered all the same
			// (over a new connection).
			ended := 0
			for _, e := range s.eps {
				if e.tcpL != nil && e.ip == hop.IP {
					ended += e.hangUp()
				}
			}
			if ended > 0 {
				time.Sleep(time.Duration(rapid.IntRange(2, 40).Draw(rt, "ms since the hop hung up")) * time.Millisecond)
				V.Class("tcp hop had ended the connection the proxy held to it")
			}
		}
		V.Journal(t.Name()+"/single", c02Case{from, entry, jsonBytes(wire), expText})
		send := func(b []byte) error { return sender.sendUDP(l.Addr, l.UDPPort, b) }
		s.in.expect(wire)
		if err := send(wire); err != nil {
			V.HarnessError(rt, "send: %v", err)
		}
		min := 0
		if ok {
			min = 1
		}
		rs, err := s.in.settle(send, min)
		if _, lost := err.(labLost); lost {
			failf(rt, "%v", err)
		} else if err != nil {
			V.HarnessError(rt, "%v", err)
		}
		got := labMessages(rs)
		// classes
		vlines := 0
		for _, h := range msg.Hdrs {
			if h.Kind == hVia {
				vlines++
			}
		}
		nontrivial := false
		if ok {
			V.Class("relayed:" + hop.Proto)
			tv := p.Vias[1]
			_, _, hasRcv := tv.Param("received")
			rp, rpHasV, hasRp := tv.Param("rport")
			_, numErr := strconv.Atoi(rp)
			V.ClassIf(hasRcv, "received present")
			V.ClassIf(hasRcv && hasRp && rpHasV && numErr == nil, "rport numeric with received")
			V.ClassIf(!hasRcv && hasRp && rpHasV && numErr == nil, "rport without received (ignored)")
			V.ClassIf(tv.Port == 0, "port absent (5060)")
			nontrivial = hasRcv || hasRp
		} else {
			V.Class("drop:" + why)
			nontrivial = true
		}
		V.ClassIf(nv >= 3 && vlines >= 2, ">=3 vias in >=2 lines")
		if nontrivial || (nv >= 3 && vlines >= 2) {
			V.NonTrivial(string(wire))
		}
		V.SampleEvery(500, func() any { return c02Case{from, entry, jsonBytes(wire), expText} })
		// oracle
		if !ok {
			if len(got) != 0 {
				failf(rt, "response must be sent nowhere (%s) but was relayed:\n%s", why, labDescribe(got))
			}
			return
		}
		if len(got) != 1 || !matchHop(got[0], hop) {
			failf(rt, "response must be relayed exactly once, to %+v; receptions:\n%s", hop, labDescribe(got))
		}
		outE := got[0].msg.Entries(hVia)
		if len(outE) != len(p.Vias)-1 {
			failf(rt, "exactly the top Via entry must be discarded: %d entries in, relayed %q", len(p.Vias), outE)
		}
		for i, v := range p.Vias[1:] {
			if outE[i] != v.String() {
				failf(rt, "remaining Via entry %d changed or moved:\n in: %q\nout: %q", i, v.String(), outE[i])
			}
		}
		// a later response of the same transaction carries the same Via lines
		// (180 then 200, or a retransmission): it must be handled the same way
		reps := rapid.IntRange(0, 2).Draw(rt, "same Via lines again")
		for r := 0; r < reps; r++ {
			m2 := msg.Clone()
			m2.Code = gStatus(rt, "code again")
			wire2 := m2.Bytes()
			V.Journal(t.Name()+"/single", map[string]any{"first": jsonBytes(wire), "again": jsonBytes(wire2), "expected": expText})
			s.in.expect(wire2)
			if err := send(wire2); err != nil {
				V.HarnessError(rt, "send: %v", err)
			}
			rs, err := s.in.settle(send, 1)
			if _, lost := err.(labLost); lost {
				failf(rt, "%v", err)
			} else if err != nil {
				V.HarnessError(rt, "%v", err)
			}
			got := labMessages(rs)
			V.Class("same Via lines sent again")
			if len(got) != 1 || !matchHop(got[0], hop) {
				failf(rt, "response #%d with the same Via lines must again be relayed exactly once, to %+v; receptions:\n%s", r+2, hop, labDescribe(got))
			}
			outE := got[0].msg.Entries(hVia)
			if len(outE) != len(p.Vias)-1 {
				failf(rt, "response #%d with the same Via lines: exactly the top Via entry must be discarded: %d entries in, relayed %q", r+2, len(p.Vias), outE)
			}
			for i, v := range p.Vias[1:] {
				if outE[i] != v.String() {
					failf(rt, "response #%d with the same Via lines: remaining Via entry %d changed:\n in: %q\nout: %q", r+2, i, v.String(), outE[i])
				}
			}
		}
	})

	rcheck(t, "histories", V.N(150, 1500), func(rt *rapid.T) {
		var open []*c02Txn
		maxOpen := 0
		outOfOrder := false
		hist := []string{}
		V.Case(hist)
		rt.Repeat(map[string]func(*rapid.T){
			"uaSendsRequest": func(rt *rapid.T) {
				if len(open) >= 6 {
					rt.Skip("enough open transactions")
				}
				g := s.gIngress(rt, "ingress", []int{0, 1})
				if g.TCP && rapid.Bool().Draw(rt, "second connection of the user agent") {
					// two connections from one address announcing the same sent-by
					g.Alt = true
					V.Class("history: second tcp connection of a user agent")
				}
				L := s.transportOf(g)
				tx := &c02Txn{ID: s.nextID("h"), UA: g.UA, Ingress: g}
				p := msgParts{IsReq: true, Version: "SIP/2.0", Method: rapid.SampledFrom([]string{"INVITE", "OPTIONS", "MESSAGE", "SUBSCRIBE", "INFO"}).Draw(rt, "method")}
				p.CSeqMethod, p.CSeqN = p.Method, rapid.IntRange(1, 9999).Draw(rt, "cseq")
				p.CallID = "c02h-" + tx.ID
				p.RURI = s.gServiceRURI(rt, "ruri", L)
				p.From = ANameAddr{URI: AURI{Scheme: "sip", User: "u" + strconv.Itoa(g.UA), Host: "ua.example"}, Params: []AParam{{K: "tag", V: "f" + tx.ID, HasV: true}}}
				p.To = ANameAddr{URI: AURI{Scheme: "sip", User: "svc", Host: "nomatch.example"}}
				send, srcIP, srcPort, err := s.sender(g)
				if err != nil {
					V.HarnessError(rt, "ingress: %v", err)
				}
				tx.SrcPort = srcPort
				own := AVia{Proto: "SIP", Ver: "2.0", Transport: map[bool]string{false: "UDP", true: "TCP"}[g.TCP], Host: srcIP, Port: 5060}
				if !g.TCP && s.model.receivedSupport(g.Entry) && rapid.Bool().Draw(rt, "sentby elsewhere") {
					// sent-by names another endpoint: only received/rport bring the response home
					own.Host, own.Port = s.ip(10+(g.UA+1)%4), 6010
					tx.Rport = true
				}
				own.Params = gParamList(rt, "ownparams", 2, tokAlpha+"-.!%*_+`'~", viaParamReserved)
				own.Params = gInsertParam(rt, "bpos", own.Params, AParam{K: "branch", V: "z9hG4bK" + tx.ID, HasV: true})
				if tx.Rport || rapid.Bool().Draw(rt, "rport") {
					own.Params = gInsertParam(rt, "rppos", own.Params, AParam{K: "rport"})
					tx.Rport = true
				}
				tx.SentVia = []AVia{own}
				extra := rapid.IntRange(0, 2).Draw(rt, "moreVias")
				for i := 0; i < extra; i++ {
					tx.SentVia = append(tx.SentVia, gVia(rt, fmt.Sprintf("below%d", i), viaOpts{}))
				}
				p.Vias = tx.SentVia
				msg := assemble(rt, "layout", p)
				s.model.learnRequest(L, srcIP, msg)
				hist = append(hist, fmt.Sprintf("ua%d sends %s %s via %s (rport=%v)", g.UA, p.Method, tx.ID, L, tx.Rport))
				V.Journal(t.Name()+"/histories", hist)
				tx.Method, tx.Wire, tx.CallID = p.Method, string(msg.Bytes()), p.CallID
				s.in.expect(msg.Bytes())
				if err := send(msg.Bytes()); err != nil {
					V.HarnessError(rt, "send: %v", err)
				}
				rs, err := s.in.settle(send, 1)
				if _, lost := err.(labLost); lost {
					failf(rt, "%v", err)
				} else if err != nil {
					V.HarnessError(rt, "%v", err)
				}
				got := labMessages(rs)
				if len(got) != 1 || !s.isBackendOf(got[0].ep, g.Entry, got[0].tcp != nil) {
					failf(rt, "request %s must reach exactly one backend of listen entry %d; receptions:\n%s", tx.ID, g.Entry, labDescribe(got))
				}
				tx.At = got[0]
				open = append(open, tx)
				if len(open) > maxOpen {
					maxOpen = len(open)
				}
				V.ClassIf(g.TCP, "history: tcp ingress")
				V.ClassIf(got[0].tcp != nil, "history: tcp backend")
			},
			"uaCancels": func(rt *rapid.T) {
				// RFC 3261 9.1: the CANCEL copies Request-URI, Via (branch included), From,
				// To, Call-ID and the CSeq number of the pending INVITE; it is a transaction
				// of its own and both are answered, in either order
				var cand []*c02Txn
				for _, o := range open {
					if o.Method == "INVITE" && !o.Cancel {
						cand = append(cand, o)
					}
				}
				if len(cand) == 0 || len(open) >= 7 {
					rt.Skip("no pending INVITE")
				}
				inv := cand[rapid.IntRange(0, len(cand)-1).Draw(rt, "which INVITE")]
				inv.Cancel = true
				wire := c02CSeqLine.ReplaceAllString(strings.Replace(inv.Wire, "INVITE ", "CANCEL ", 1), "${1}CANCEL${2}")
				tx := &c02Txn{ID: inv.ID + "-cancel", UA: inv.UA, Ingress: inv.Ingress, SentVia: inv.SentVia, SrcPort: inv.SrcPort, Rport: inv.Rport, Method: "CANCEL", Wire: wire, CallID: inv.CallID, Cancel: true}
				send, _, _, err := s.sender(tx.Ingress)
				if err != nil {
					V.HarnessError(rt, "ingress: %v", err)
				}
				hist = append(hist, fmt.Sprintf("ua%d sends CANCEL for %s (same branch)", tx.UA, inv.ID))
				V.Journal(t.Name()+"/histories", hist)
				s.in.expect([]byte(wire))
				if err := send([]byte(wire)); err != nil {
					V.HarnessError(rt, "send: %v", err)
				}
				rs, err := s.in.settle(send, 1)
				if _, lost := err.(labLost); lost {
					failf(rt, "%v", err)
				} else if err != nil {
					V.HarnessError(rt, "%v", err)
				}
				got := labMessages(rs)
				if len(got) != 1 || !s.isBackendOf(got[0].ep, tx.Ingress.Entry, got[0].tcp != nil) {
					failf(rt, "the CANCEL for %s must reach exactly one backend of listen entry %d; receptions:\n%s\nhistory: %v", inv.ID, tx.Ingress.Entry, labDescribe(got), hist)
				}
				tx.At = got[0]
				open = append(open, tx)
				V.Class("history: CANCEL with the INVITE's branch")
			},
			"backendAnswers": func(rt *rapid.T) {
				if len(open) == 0 {
					rt.Skip("nothing outstanding")
				}
				k := rapid.IntRange(0, len(open)-1).Draw(rt, "which")
				if k != 0 {
					outOfOrder = true
				}
				tx := open[k]
				code := gTxStatus(rt, "status")
				if tx.Answers >= 3 && code < 200 {
					code = 200
				}
				toTag := ""
				if code > 100 {
					toTag = "t" + tx.ID
				}
				resp := buildResponse(tx.At.msg, code, "Answer", toTag, "")
				hist = append(hist, fmt.Sprintf("backend %s answers %s with %d", tx.At.where(), tx.ID, code))
				V.Journal(t.Name()+"/histories", hist)
				// the backend answers where the request came from: over the same TCP
				// connection, or to the proxy's own Via (listener address and port) over UDP
				var send func([]byte) error
				if tx.At.tcp != nil {
					send = tx.At.tcp.send
				} else {
					pv, err := rVia(tx.At.msg.Entries(hVia)[0])
					if err != nil {
						failf(rt, "top Via at the backend unreadable: %v", err)
					}
					ep := tx.At.ep
					send = func(b []byte) error { return ep.sendUDP(pv.Host, pv.Port, b) }
				}
				s.in.expect(resp)
				if err := send(resp); err != nil {
					V.HarnessError(rt, "send: %v", err)
				}
				rs, err := s.in.settle(send, 1)
				if _, lost := err.(labLost); lost {
					failf(rt, "%v", err)
				} else if err != nil {
					V.HarnessError(rt, "%v", err)
				}
				got := labMessages(rs)
				tx.Answers++
				if len(got) != 1 {
					failf(rt, "response %d for %s must be relayed exactly once, to the user agent it belongs to; receptions:\n%s\nhistory: %v", code, tx.ID, labDescribe(got), hist)
				}
				r := got[0]
				// where: the connection the request used, or the socket it was sent from
				if tx.Ingress.TCP {
					c, _ := s.tcpConnOf(tx.Ingress)
					if r.tcp != c {
						failf(rt, "response for %s (sent over a TCP connection) arrived at %s\nhistory: %v", tx.ID, r.where(), hist)
					}
				} else {
					wantPort := 5060
					wantIP := s.ip(10 + tx.UA)
					if !s.model.receivedSupport(tx.Ingress.Entry) {
						wantIP, wantPort = tx.SentVia[0].Host, tx.SentVia[0].Port
					} else if !tx.Rport {
						wantPort = tx.SentVia[0].Port
					}
					if r.tcp != nil || r.ep.ip != wantIP || r.ep.port != wantPort {
						failf(rt, "response for %s must return to %s:%d, it arrived at %s\nhistory: %v", tx.ID, wantIP, wantPort, r.where(), hist)
					}
				}
				// what: exactly the Via stack the user agent sent
				outE := r.msg.Entries(hVia)
				if len(outE) != len(tx.SentVia) {
					failf(rt, "response for %s carries Via entries %q, the user agent sent %d entries\nhistory: %v", tx.ID, outE, len(tx.SentVia), hist)
				}
				for i, v := range tx.SentVia {
					if i == 0 {
						if f := checkStamped(v, outE[0], s.model.receivedSupport(tx.Ingress.Entry), s.ip(10+tx.UA), tx.SrcPort); f != "" {
							failf(rt, "response for %s: %s\nhistory: %v", tx.ID, f, hist)
						}
						continue
					}
					if outE[i] != v.String() {
						failf(rt, "response for %s: Via entry %d is %q, the user agent sent %q\nhistory: %v", tx.ID, i, outE[i], v.String(), hist)
					}
				}
				if id, _ := r.msg.First(hCallID); id != tx.CallID {
					failf(rt, "response for %s arrived with Call-ID %q", tx.ID, id)
				}
				if cs, _ := r.msg.First(hCSeq); !strings.HasSuffix(strings.TrimSpace(cs), tx.Method) {
					failf(rt, "response for the %s %s arrived with CSeq %q\nhistory: %v", tx.Method, tx.ID, cs, hist)
				}
				if code >= 200 {
					open = append(open[:k], open[k+1:]...)
				}
			},
		})
		V.ClassIf(maxOpen >= 2, "history: >=2 transactions open")
		V.ClassIf(outOfOrder, "history: answered out of order")
		if maxOpen >= 2 {
			V.NonTrivial(strings.Join(hist, "|"))
		}
		V.SampleEvery(40, func() any { return hist })
	})

	// bursts: requests of several hops read from the socket before the earlier
	// ones have been decoded; every response must still return to its own hop
	rcheck(t, "bursts", V.N(40, 300), func(rt *rapid.T) {
		entry := 0
		l := s.in.cfg.Listens[entry]
		k := rapid.IntRange(2, 30).Draw(rt, "requests")
		type sent struct {
			id  string
			src *labEP
		}
		var plan []sent
		var wires [][]byte
		for i := 0; i < k; i++ {
			ua := rapid.IntRange(0, 3).Draw(rt, "ua")
			src := s.uas[ua]
			if rapid.Bool().Draw(rt, "from6010") {
				src = s.uas2[ua]
				if rapid.Bool().Draw(rt, "from a port beyond 32767") {
					src = s.uas3[ua]
				}
			}
			id := s.nextID("c02burst-")
			// sent-by names another endpoint: only received/rport bring the response home
			wire := fmt.Sprintf("OPTIONS sip:svc.test SIP/2.0\r\nVia: SIP/2.0/UDP %s:6010;branch=z9hG4bK%s;rport\r\nFrom: <sip:a@b>;tag=1\r\nTo: <sip:svc@nomatch.example>\r\nCall-ID: %s\r\nCSeq: 1 OPTIONS\r\nContent-Length: 0\r\n\r\n", s.ip(10+(ua+1)%4), id, id)
			plan = append(plan, sent{id, src})
			wires = append(wires, []byte(wire))
			s.model.learnRequest(s.model.transport(entry, "udp"), src.ip, &AMsg{IsReq: true, Hdrs: []AHdr{{Kind: hVia, Vias: []AVia{{Host: s.ip(10 + (ua+1)%4)}}}}})
		}
		var desc []string
		for _, p := range plan {
			desc = append(desc, fmt.Sprintf("%s from %s:%d", p.id, p.src.ip, p.src.port))
		}
		V.Journal(t.Name()+"/bursts", desc)
		s.in.expect(wires...)
		for i, p := range plan {
			p.src.sendUDP(l.Addr, l.UDPPort, wires[i])
		}
		collect := func(min int) []labRx {
			var got []labRx
			seen := map[*labEP]bool{}
			for _, p := range plan {
				if seen[p.src] {
					continue
				}
				seen[p.src] = true
				src := p.src
				m := 0
				if len(seen) == 1 {
					m = min
				}
				rs, err := s.in.settle(func(b []byte) error { return src.sendUDP(l.Addr, l.UDPPort, b) }, m)
				if _, lost := err.(labLost); lost {
					failf(rt, "%v", err)
				} else if err != nil {
					V.HarnessError(rt, "%v", err)
				}
				got = append(got, labMessages(rs)...)
			}
			return got
		}
		atBackend := map[string]labRx{}
		for _, r := range collect(k) {
			id, _ := r.msg.First(hCallID)
			if _, dup := atBackend[id]; dup {
				failf(rt, "request %s of the burst reached two backends\nburst: %v", id, desc)
			}
			atBackend[id] = r
		}
		// the backends answer all of them at once
		var resps [][]byte
		type ans struct {
			send func([]byte) error
			wire []byte
		}
		var answers []ans
		for _, p := range plan {
			r, ok := atBackend[p.id]
			if !ok {
				failf(rt, "request %s of a burst of %d never reached a backend\nburst: %v", p.id, k, desc)
			}
			resp := buildResponse(r.msg, 200, "OK", "t", "")
			resps = append(resps, resp)
			if r.tcp != nil {
				answers = append(answers, ans{r.tcp.send, resp})
			} else {
				pv, err := rVia(r.msg.Entries(hVia)[0])
				if err != nil {
					failf(rt, "top Via at the backend unreadable")
				}
				ep := r.ep
				answers = append(answers, ans{func(b []byte) error { return ep.sendUDP(pv.Host, pv.Port, b) }, resp})
			}
		}
		s.in.expect(resps...)
		for _, a := range answers {
			a.send(a.wire)
		}
		// barriers through every answering path
		var got []labRx
		first := true
		seenB := map[string]bool{}
		for i, p := range plan {
			r := atBackend[p.id]
			key := r.where()
			if seenB[key] {
				continue
			}
			seenB[key] = true
			m := 0
			if first {
				m, first = k, false
			}
			rs, err := s.in.settle(answers[i].send, m)
			if _, lost := err.(labLost); lost {
				failf(rt, "%v", err)
			} else if err != nil {
				V.HarnessError(rt, "%v", err)
			}
			got = append(got, labMessages(rs)...)
		}
		V.Class("burst of requests answered")
		V.NonTrivial(strings.Join(desc, "|"))
		byID := map[string][]labRx{}
		for _, r := range got {
			id, _ := r.msg.First(hCallID)
			byID[id] = append(byID[id], r)
		}
		for _, p := range plan {
			rs := byID[p.id]
			if len(rs) != 1 {
				failf(rt, "the response to %s (sent from %s:%d inside a burst of %d) was relayed %d times, want once, to that hop\nburst: %v", p.id, p.src.ip, p.src.port, k, len(rs), desc)
			}
			if rs[0].ep != p.src || rs[0].tcp != nil {
				failf(rt, "the response to %s, sent from %s:%d inside a burst of %d requests, returned to %s instead\nburst: %v", p.id, p.src.ip, p.src.port, k, rs[0].where(), desc)
			}
		}
	})

	c02TwoServices(t)
}

// c02TwoServices: one configuration file with two entries under proxies:. A
// name in the Via chain is resolved by the host table of the service whose
// listener received the response - its own entries first, then the global ones.
func c02TwoServices(t *testing.T) {
	V.Require("two services: same name, different tables")
	s, err := newStdSvc(stdVariant{Two: true})
	if err != nil {
		V.HarnessError(t, "cannot start lab instance: %v", err)
	}
	type svcL struct {
		name string
		l    labListenCfg
		// where each name leads for this service ("" = unknown: the response is dropped)
		table map[string]string
	}
	svcs := []svcL{
		{"svc.test (first entry)", s.in.cfg.Listens[0], map[string]string{"hop-x.test": s.ip(21), "global-hop.test": s.ip(21), "only-b.test": "", "hop-c.test": s.ip(25)}},
		{"svc-b.test (second entry)", s.in.cfg.More[0].Listens[0], map[string]string{"hop-x.test": s.ip(25), "global-hop.test": s.ip(21), "only-b.test": s.ip(22), "hop-c.test": ""}},
	}
	src := s.uas[3]
	rcheck(t, "two-services", V.N(120, 1200), func(rt *rapid.T) {
		k := rapid.IntRange(1, 6).Draw(rt, "responses")
		var hist []string
		for i := 0; i < k; i++ {
			sv := svcs[rapid.IntRange(0, 1).Draw(rt, "service")]
			name := rapid.SampledFrom([]string{"hop-x.test", "hop-x.test", "global-hop.test", "only-b.test", "hop-c.test"}).Draw(rt, "name")
			port := rapid.SampledFrom([]int{5070, 5060, 0}).Draw(rt, "port")
			sentBy := name
			if port != 0 {
				sentBy = fmt.Sprintf("%s:%d", name, port)
			} else {
				port = 5060
			}
			id := s.nextID("c02two-")
			wire := []byte(fmt.Sprintf("SIP/2.0 200 OK\r\nVia: SIP/2.0/UDP %s:%d;branch=z9hG4bKp%s\r\nVia: SIP/2.0/UDP %s;branch=z9hG4bKu%s\r\nFrom: <sip:a@a.example>;tag=f\r\nTo: <sip:b@b.example>;tag=t\r\nCall-ID: %s\r\nCSeq: 1 OPTIONS\r\nContent-Length: 0\r\n\r\n", sv.l.Addr, sv.l.UDPPort, id, sentBy, id, id))
			hist = append(hist, fmt.Sprintf("response with next Via %s sent to %s", sentBy, sv.name))
			V.Journal(t.Name()+"/two-services", hist)
			send := func(b []byte) error { return src.sendUDP(sv.l.Addr, sv.l.UDPPort, b) }
			s.in.expect(wire)
			if err := send(wire); err != nil {
				V.HarnessError(rt, "send: %v", err)
			}
			want := sv.table[name]
			min := 1
			if want == "" {
				min = 0
			}
			rs, err := s.in.settle(send, min)
			if _, lost := err.(labLost); lost {
				failf(rt, "%v\nhistory: %v", err, hist)
			} else if err != nil {
				V.HarnessError(rt, "%v", err)
			}
			got := labMessages(rs)
			V.Eval()
			if want == "" {
				if len(got) != 0 {
					failf(rt, "%s does not know %s (neither its own nor the global host table): the response must be dropped; receptions:\n%shistory: %v", sv.name, name, labDescribe(got), hist)
				}
				V.Class("two services: name known to the other service only")
				continue
			}
			if len(got) != 1 || got[0].ep == nil || got[0].ep.ip != want || got[0].ep.port != port || got[0].tcp != nil {
				failf(rt, "%s resolves %s to %s: the response must arrive at %s:%d over UDP and nowhere else; receptions:\n%shistory: %v", sv.name, name, want, want, port, labDescribe(got), hist)
			}
			if name == "hop-x.test" {
				V.Class("two services: same name, different tables")
				V.NonTrivial(strings.Join(hist, "|"))
			}
		}
		V.SampleEvery(30, func() any { return hist })
	})
}

//verif:needs sip
package main

// Comparison of a decoded product Message with the abstract message it was
// generated from (used by the framing / isolation properties C10, C11).

import (
	"bytes"
	"fmt"
	"strings"
)

// prodEqual returns "" when the decoded message carries exactly the start
// line, the ordered raw headers and the body of the abstract message.
// Header values are compared modulo surrounding SP/HTAB only (a CR left at the
// end of a value, for instance, is a framing error).
func prodEqual(exp *AMsg, got *Message) string {
	if got == nil {
		return "no message decoded"
	}
	if exp.IsReq {
		if got.request == nil {
			return fmt.Sprintf("decoded a response, want request %q", exp.StartLine())
		}
		sl := got.request.method + " " + got.request.requestURI.String() + " " + got.request.version
		if sl != exp.StartLine() {
			return fmt.Sprintf("start line %q, want %q", sl, exp.StartLine())
		}
	} else {
		if got.response == nil {
			return fmt.Sprintf("decoded a request, want response %q", exp.StartLine())
		}
		sl := fmt.Sprintf("%s %d %s", got.response.version, got.response.statusCode, got.response.reason)
		if sl != exp.StartLine() {
			return fmt.Sprintf("start line %q, want %q", sl, exp.StartLine())
		}
	}
	if len(got.headers) != len(exp.Hdrs) {
		names := []string{}
		for _, h := range got.headers {
			names = append(names, h.name)
		}
		return fmt.Sprintf("%d headers decoded (%s), want %d", len(got.headers), strings.Join(names, ","), len(exp.Hdrs))
	}
	for i, h := range exp.Hdrs {
		g := got.headers[i]
		if g.name != h.Name {
			return fmt.Sprintf("header %d name %q, want %q", i, g.name, h.Name)
		}
		want := h.ValueText(len(exp.Body))
		if h.Kind == hCL && exp.CLOverride != "" {
			want = exp.CLOverride
		}
		gv := fmt.Sprintf("%v", g.value)
		if strings.Trim(gv, " \t") != strings.Trim(want, " \t") {
			return fmt.Sprintf("header %d (%s) value %s, want %s", i, h.Name, jsonBytes([]byte(gv)), jsonBytes([]byte(want)))
		}
	}
	if !bytes.Equal(got.body, exp.Body) {
		return fmt.Sprintf("body of %d bytes %s, want %d bytes %s", len(got.body), jsonBytes(got.body), len(exp.Body), jsonBytes(exp.Body))
	}
	return ""
}

// prodSame compares two decoded product messages (differential oracle).
func prodSame(a, b *Message) string {
	if (a == nil) != (b == nil) {
		return fmt.Sprintf("one side decoded a message, the other did not (a=%v b=%v)", a != nil, b != nil)
	}
	if a == nil {
		return ""
	}
	as, bs := a.String(), b.String()
	if as != bs {
		return fmt.Sprintf("decoded messages differ:\n--- a\n%s\n--- b\n%s", jsonBytes([]byte(as)), jsonBytes([]byte(bs)))
	}
	if len(a.headers) != len(b.headers) {
		return "header counts differ"
	}
	return ""
}

// prodEqualR compares a decoded product message with the independent reader's
// view of the same bytes (saved inputs have no abstract message).
func prodEqualR(exp *RMsg, got *Message) string {
	if got == nil {
		return "no message decoded"
	}
	sl := ""
	if got.request != nil {
		sl = got.request.method + " " + got.request.requestURI.String() + " " + got.request.version
	} else if got.response != nil {
		sl = fmt.Sprintf("%s %d %s", got.response.version, got.response.statusCode, got.response.reason)
	}
	if sl != exp.Start {
		return fmt.Sprintf("start line %q, want %q", sl, exp.Start)
	}
	if len(got.headers) != len(exp.Hdrs) {
		return fmt.Sprintf("%d headers decoded, want %d", len(got.headers), len(exp.Hdrs))
	}
	for i, h := range exp.Hdrs {
		g := got.headers[i]
		gv := fmt.Sprintf("%v", g.value)
		if g.name != h.Name || strings.Trim(gv, " \t") != strings.Trim(h.Value, " \t") {
			return fmt.Sprintf("header %d: %q: %s, want %q: %s", i, g.name, jsonBytes([]byte(gv)), h.Name, jsonBytes([]byte(h.Value)))
		}
	}
	if !bytes.Equal(got.body, exp.Body) {
		return fmt.Sprintf("body of %d bytes %s, want %d bytes %s", len(got.body), jsonBytes(got.body), len(exp.Body), jsonBytes(exp.Body))
	}
	return ""
}

//verif:needs core,sip,lab
package main

// C09 - concurrent listeners and backend changes never corrupt or kill the
// proxy. Engine: lab, built with the race detector. rapid draws a load plan
// (not a schedule): parallel stop-and-wait clients over UDP and TCP on three
// listen entries of one service that share the learned-route table, backends
// that answer every request, a churn goroutine that changes backend membership
// through the resolver's own entry point, and hammering of the pool,
// transport table and resolver locks.

import (
	"bufio"
	"fmt"
	"net"
	"os"
	"runtime"
	"strings"
	"sync"
	"sync/atomic"
	"testing"
	"time"

	"pgregory.net/rapid"
)

type c09Rig struct {
	in        *labInst
	cfg       labCfg
	pools     [2]string   // host names resolved dynamically (entry 0, entry 1)
	poolIPs   [2][]string // candidate addresses
	backendOf map[string]int
	mu        sync.Mutex
	seenAt    map[string][]string // Call-ID -> backends that received it
	clk       int64
	removals  [][2]int64 // logical intervals during which a removal may be in progress
	stop      int32
	churned   bool // the previous plan changed membership
	corrupt   string
	calls     map[int][]c09Call // per listen entry: dialogs set up by earlier transactions (of this or an earlier plan)
}

// c09Call: a dialog an INVITE of some client set up (the backend's 200 carried a To-tag).
type c09Call struct {
	id   string
	from int // the client whose INVITE it was (its From URI names it)
	at   time.Time
}

func (r *c09Rig) tick() int64 { return atomic.AddInt64(&r.clk, 1) }

func (r *c09Rig) record(callID, backend string) {
	r.mu.Lock()
	r.seenAt[callID] = append(r.seenAt[callID], backend)
	r.mu.Unlock()
}

func c09Respond(req *RMsg) []byte { return buildResponse(req, 200, "OK", "t", "") }

// c09Body: every request carries a body that is a function of its Call-ID, so
// that any receiver can tell whether it arrived intact.
func c09Body(callID string) string { return strings.Repeat(callID+";", 6) }

func (r *c09Rig) checkBody(m *RMsg, callID, at string) {
	if !strings.HasPrefix(callID, "c09-") || string(m.Body) == c09Body(callID) {
		return
	}
	r.mu.Lock()
	if r.corrupt == "" {
		r.corrupt = fmt.Sprintf("request %s arrived at %s with a body that is not the one sent: %s (sent %s)", callID, at, jsonBytes(m.Body[:min(len(m.Body), 300)]), jsonBytes([]byte(c09Body(callID))))
	}
	r.mu.Unlock()
}

func (r *c09Rig) udpBackend(ip string, port int) error {
	c, err := net.ListenUDP("udp", &net.UDPAddr{IP: net.ParseIP(ip), Port: port})
	if err != nil {
		return err
	}
	c.SetReadBuffer(4 << 20)
	name := fmt.Sprintf("%s:%d", ip, port)
	go func() {
		buf := make([]byte, 70000)
		for {
			n, _, err := c.ReadFromUDP(buf)
			if err != nil {
				return
			}
			m, err := sipRead(append([]byte(nil), buf[:n]...))
			if err != nil || strings.HasPrefix(m.Start, "SIP/") {
				continue
			}
			id, _ := m.First(hCallID)
			if !strings.HasPrefix(m.Start, "BYE ") { // (the BYE of an old dialog is not accounted for)
				r.record(id, name)
			}
			r.checkBody(m, id, name)
			es := m.Entries(hVia)
			if len(es) == 0 {
				continue
			}
			pv, err := rVia(es[0])
			if err != nil {
				continue
			}
			c.WriteToUDP(c09Respond(m), &net.UDPAddr{IP: net.ParseIP(pv.Host), Port: pv.Port})
		}
	}()
	return nil
}

func (r *c09Rig) tcpBackend(ip string, port int) error {
	ln, err := net.Listen("tcp", fmt.Sprintf("%s:%d", ip, port))
	if err != nil {
		return err
	}
	name := fmt.Sprintf("%s:%d", ip, port)
	go func() {
		for {
			c, err := ln.Accept()
			if err != nil {
				return
			}
			go func() {
				rd := bufio.NewReaderSize(c, 1<<16)
				for {
					m, err := sipReadStream(rd)
					if err != nil {
						c.Close()
						return
					}
					if strings.HasPrefix(m.Start, "SIP/") {
						continue
					}
					id, _ := m.First(hCallID)
					if !strings.HasPrefix(m.Start, "BYE ") {
						r.record(id, name)
					}
					r.checkBody(m, id, name)
					c.Write(c09Respond(m))
				}
			}()
		}
	}()
	return nil
}

func newC09Rig(bin bool) (*c09Rig, error) {
	in := labNewInst()
	ip := in.ip
	r := &c09Rig{in: in, backendOf: map[string]int{}, seenAt: map[string][]string{}, calls: map[int][]c09Call{}}
	r.pools = [2]string{fmt.Sprintf("c09-pool-a-%d.verif.invalid", in.c), fmt.Sprintf("c09-pool-b-%d.verif.invalid", in.c)}
	r.poolIPs = [2][]string{{ip(40), ip(41), ip(42)}, {ip(43), ip(44)}}
	// the global dynamic resolver without its polling goroutine (DNS is dead in
	// the harness: polling would only report failures and empty the pools)
	if dynamicHostResolver != nil {
		dynamicHostResolver.Stop()
	}
	dynamicHostResolver = &DynamicHostResolver{hostIPs: map[string]*AddressWithCallback{}}
	r.cfg = labCfg{
		Name: "svc.test",
		// (pins live for a second: calls set up by earlier transactions are expired,
		// and not necessarily swept yet, when their BYE comes)
		DialogTimeout: 1,
		Listens: []labListenCfg{
			{Addr: ip(1), UDPPort: 5060, TCPPort: 5060, Backends: []string{"udp://" + ip(31) + ":5080", "udp://" + r.pools[0] + ":5080"}},
			{Addr: ip(2), UDPPort: 5062, TCPPort: 5063, Backends: []string{"tcp://" + ip(33) + ":5080", "tcp://" + r.pools[1] + ":5080"}}, // a dynamically resolved pool of TCP backends
			{Addr: ip(3), UDPPort: 5064, Backends: []string{"udp://" + ip(34) + ":5080", "udp://" + ip(35) + ":5080"}},
		},
		// a static route whose next hop is a host-table name: every listener's loop
		// asks the shared host table
		Routes: []labRouteCfg{{Dests: []string{"c09-static.test"}, Protocol: "udp", NextHop: "c09-hop.test:5080"}, {Dests: []string{"c09-static2.test"}, Protocol: "udp", NextHop: "c09-hop2.test:5080"},
			// a wildcard: every listener's loop matches never-seen hosts against it
			{Dests: []string{"*.c09w.test", "c09-lit.c09x.test"}, Protocol: "udp", NextHop: "c09-hop2.test:5080"}},
		Hosts: [][2]string{{"c09-hop.test", ip(36)}, {"c09-hop2.test", ip(37)}},
	}
	r.backendOf[ip(36)+":5080"] = c09StaticHop
	r.backendOf[ip(37)+":5080"] = c09StaticHop2
	for _, a := range []string{ip(31), ip(34), ip(35), ip(36), ip(37)} {
		if err := r.udpBackend(a, 5080); err != nil {
			return nil, err
		}
	}
	if err := r.tcpBackend(ip(33), 5080); err != nil {
		return nil, err
	}
	for pi, pool := range r.poolIPs {
		for _, a := range pool {
			mk := r.udpBackend
			if pi == 1 {
				mk = r.tcpBackend
			}
			if err := mk(a, 5080); err != nil {
				return nil, err
			}
			r.backendOf[a+":5080"] = pi
		}
	}
	r.backendOf[ip(31)+":5080"] = 0
	r.backendOf[ip(33)+":5080"] = 1
	r.backendOf[ip(34)+":5080"] = 2
	r.backendOf[ip(35)+":5080"] = 2
	if bin {
		// the -race build of the real binary; pool names stay unresolvable there
		// (no churn in bin plans), the stable backends carry the load
		if err := in.startBin(r.cfg, true); err != nil {
			return nil, err
		}
		return r, nil
	}
	if err := in.start(r.cfg); err != nil {
		return nil, err
	}
	return r, nil
}

const c09StaticHop, c09StaticHop2 = 9, 10 // pseudo listen entries of the static routes' next hops

type c09Plan struct {
	Procs      int  `json:"gomaxprocs"`
	UDPClients int  `json:"udp_clients"`
	TCPClients int  `json:"tcp_clients"`
	PerClient  int  `json:"transactions_per_client"`
	Churn      bool `json:"membership_churn"`
	FastChurn  bool `json:"fast_churn"` // membership flips every few hundred microseconds (all transactions then fall under the relaxed delivery oracle; crash / race / progress oracles stay strict)
	Hammer     bool `json:"hammer_pool_transport_table_resolver"`
}

type c09Outcome struct {
	fail       string
	total      int
	strict     int
	dontCare   int
	listeners  map[int]bool
	membership int
}

func (r *c09Rig) run(plan c09Plan, tag string) c09Outcome {
	out := c09Outcome{listeners: map[int]bool{}}
	old := runtime.GOMAXPROCS(plan.Procs)
	defer runtime.GOMAXPROCS(old)
	atomic.StoreInt32(&r.stop, 0)
	var wg, bg sync.WaitGroup
	if r.churned {
		// the previous plan ended by emptying the pools; those removals are
		// asynchronous and may still be in flight under load: relaxed delivery
		// oracle for what starts within the first 400 ms of this plan
		s0 := r.tick()
		bg.Add(1)
		go func() {
			defer bg.Done()
			time.Sleep(400 * time.Millisecond)
			e0 := r.tick()
			r.mu.Lock()
			r.removals = append(r.removals, [2]int64{s0, e0})
			r.mu.Unlock()
		}()
	}
	r.churned = plan.Churn
	var failMu sync.Mutex
	setFail := func(format string, a ...any) {
		failMu.Lock()
		if out.fail == "" {
			out.fail = fmt.Sprintf(format, a...)
		}
		failMu.Unlock()
	}
	type txn struct {
		id     string
		entry  int
		want   int // listen entry whose backends must get it (c09StaticHop: the static route's hop)
		s, e   int64
		answer bool
	}
	nClients := plan.UDPClients + plan.TCPClients
	// under fast churn every transaction falls under the relaxed delivery oracle
	// (a dispatch may hit a backend that is just being closed): do not wait 20 s for those
	wait := 20 * time.Second
	if plan.Churn && plan.FastChurn {
		wait = 250 * time.Millisecond
	}
	txns := make([][]txn, nClients)
	entries := r.cfg.Listens
	client := func(ci int, tcp bool) {
		defer wg.Done()
		entry := ci % 3
		if tcp {
			entry = ci % 2 // entry 2 has no TCP listener
		}
		l := entries[entry]
		localIP := r.in.ip(10 + ci%8)
		var send func([]byte) error
		var recv func(budget *patience) (*RMsg, error)
		via := ""
		if tcp {
			d := net.Dialer{LocalAddr: &net.TCPAddr{IP: net.ParseIP(localIP)}, Timeout: 10 * time.Second}
			c, err := d.Dial("tcp", fmt.Sprintf("%s:%d", l.Addr, l.TCPPort))
			if err != nil {
				setFail("client %d: the TCP listener of listen entry %d does not accept: %v", ci, entry, err)
				return
			}
			defer c.Close()
			rd := bufio.NewReaderSize(c, 1<<16)
			send = func(b []byte) error { _, err := c.Write(b); return err }
			recv = func(budget *patience) (*RMsg, error) {
				// (running time, not wall-clock time: a frozen sandbox must not look like a lost answer)
				for {
					c.SetReadDeadline(time.Now().Add(40 * time.Millisecond)) // (below the cap a single wake-up may count for)
					if _, err := rd.Peek(1); err == nil {
						c.SetReadDeadline(time.Now().Add(20 * time.Second))
						return sipReadStream(rd)
					} else if ne, ok := err.(net.Error); !ok || !ne.Timeout() {
						return nil, err
					}
					if budget.spent() {
						return nil, os.ErrDeadlineExceeded
					}
				}
			}
			via = fmt.Sprintf("SIP/2.0/TCP %s:5060", localIP)
		} else {
			c, err := net.ListenUDP("udp", &net.UDPAddr{IP: net.ParseIP(localIP)})
			if err != nil {
				setFail("harness: %v", err)
				return
			}
			defer c.Close()
			c.SetReadBuffer(1 << 20)
			dst := &net.UDPAddr{IP: net.ParseIP(l.Addr), Port: l.UDPPort}
			buf := make([]byte, 70000)
			send = func(b []byte) error { _, err := c.WriteToUDP(b, dst); return err }
			recv = func(budget *patience) (*RMsg, error) {
				for {
					c.SetReadDeadline(time.Now().Add(40 * time.Millisecond)) // (below the cap a single wake-up may count for)
					n, _, err := c.ReadFromUDP(buf)
					if err == nil {
						return sipRead(append([]byte(nil), buf[:n]...))
					}
					if ne, ok := err.(net.Error); !ok || !ne.Timeout() {
						return nil, err
					}
					if budget.spent() {
						return nil, os.ErrDeadlineExceeded
					}
				}
			}
			via = fmt.Sprintf("SIP/2.0/UDP %s:%d", localIP, c.LocalAddr().(*net.UDPAddr).Port)
		}
		var silent *patience
		unanswered := 0
		byes := 0
		defer func() { V.ExtraAdd("byes_of_calls_whose_pin_had_just_expired", int64(byes)) }()
		for j := 0; j < plan.PerClient; j++ {
			if atomic.LoadInt32(&r.stop) != 0 {
				return
			}
			id := fmt.Sprintf("c09-%s-%d-%d", tag, ci, j)
			// a fixed mix of what the listeners' loops do with a message: plain
			// load-balancing, dialog-creating INVITEs (the backend's 200 carries a
			// To-tag: the pin is computed on the way back), in-dialog requests of
			// unknown dialogs (dialog identity computed, looked up, load-balanced),
			// statically routed requests (route table and host table consulted)
			method, ruri, to, want := "OPTIONS", "sip:svc.test", "<sip:svc@svc.test>", entry
			switch (ci + j) % 5 {
			case 0:
				// a To host nobody has asked about before (whatever the proxy keeps per
				// looked-up host is written by every listener's loop)
				to = fmt.Sprintf("<sip:svc@t%d-%d-%s.nomatch.example>", ci, j, tag)
			case 2:
				method = "INVITE"
			case 3:
				method, to = "INFO", fmt.Sprintf("\"Svc\" <sip:svc@svc.test:5060;user=phone>;tag=t%d", j)
			case 4:
				if !tcp {
					// (the hop answers to the top Via over UDP: TCP clients would not hear it)
					method, ruri, to, want = "MESSAGE", "sip:x@c09-static.test", "<sip:x@c09-static.test>", c09StaticHop
					switch (ci + j/5) % 3 {
					case 1:
						ruri, to, want = "sip:x@c09-static2.test", "<sip:x@c09-static2.test>", c09StaticHop2
					case 2:
						// a host nobody has asked about before, covered by the wildcard route
						h := fmt.Sprintf("w%d-%d-%s.c09w.test", ci, j, tag)
						ruri, to, want = "sip:x@"+h, "<sip:x@"+h+">", c09StaticHop2
					}
				}
			}
			wire := fmt.Sprintf("%s %s SIP/2.0\r\nVia: %s;branch=z9hG4bK%s;rport\r\nFrom: <sip:c%d@client.example>;tag=f\r\nTo: %s\r\nCall-ID: %s\r\nCSeq: %d %s\r\nContent-Length: %d\r\n\r\n%s", method, ruri, via, id, ci, to, id, j+1, method, len(c09Body(id)), c09Body(id))
			if tcp && j%3 == 0 {
				// TCP clients pipeline now and then: a companion request (not accounted
				// for, but checked for integrity where it arrives) in the same write
				cid := id + "-p"
				wire = fmt.Sprintf("MESSAGE sip:svc.test SIP/2.0\r\nVia: %s;branch=z9hG4bK%s;rport\r\nFrom: <sip:c%d@client.example>;tag=f\r\nTo: <sip:svc@svc.test>\r\nCall-ID: %s\r\nCSeq: %d MESSAGE\r\nContent-Length: %d\r\n\r\n%s", via, cid, ci, cid, j+1, len(c09Body(cid)), c09Body(cid)) + wire
			}
			if j%3 == 2 {
				// ahead of it, the BYE of a call that was set up more than a dialog timeout
				// ago through the same listen entry (not accounted for; wherever it
				// arrives its body is checked): its pin has expired
				var old string
				var oldFrom int
				r.mu.Lock()
				// (the youngest call whose pin has just expired: the older ones have been swept)
				cs := r.calls[entry]
				for len(cs) > 0 && time.Since(cs[0].at) > 1900*time.Millisecond {
					cs = cs[1:]
				}
				if len(cs) > 0 && time.Since(cs[0].at) > 1050*time.Millisecond {
					k := 0
					for k+1 < len(cs) && time.Since(cs[k+1].at) > 1050*time.Millisecond {
						k++
					}
					old, oldFrom = cs[k].id, cs[k].from
					cs = append(cs[:k:k], cs[k+1:]...)
					byes++
				}
				r.calls[entry] = cs
				r.mu.Unlock()
				if old != "" {
					bye := fmt.Sprintf("BYE sip:svc.test SIP/2.0\r\nVia: %s;branch=z9hG4bK%s-bye;rport\r\nFrom: <sip:c%d@client.example>;tag=f\r\nTo: <sip:svc@svc.test>;tag=t\r\nCall-ID: %s\r\nCSeq: 9 BYE\r\nContent-Length: %d\r\n\r\n%s", via, id, oldFrom, old, len(c09Body(old)), c09Body(old))
					if tcp {
						wire = bye + wire
					} else if err := send([]byte(bye)); err != nil {
						setFail("client %d: send failed: %v", ci, err)
						return
					}
				}
			}
			if j%4 == 1 {
				// ahead of it, a request that can go nowhere: its first Route entry carries
				// the listener's port and a name nobody knows (never seen before) - the
				// proxy asks its host table and the system resolver whether that is
				// itself, then fails to reach it and drops the request; nothing answers
				lp := l.UDPPort
				if tcp {
					lp = l.TCPPort
				}
				xid := id + "-x"
				probe := fmt.Sprintf("OPTIONS sip:x@elsewhere.example SIP/2.0\r\nVia: %s;branch=z9hG4bK%s\r\nRoute: <sip:nohost-%s.invalid:%d;lr>\r\nFrom: <sip:c%d@client.example>;tag=f\r\nTo: <sip:x@elsewhere.example>\r\nCall-ID: %s\r\nCSeq: 1 OPTIONS\r\nContent-Length: 0\r\n\r\n", via, xid, xid, lp, ci, xid)
				if tcp {
					wire = probe + wire
				} else if err := send([]byte(probe)); err != nil {
					setFail("client %d: send failed: %v", ci, err)
					return
				}
			}
			t := txn{id: id, entry: entry, want: want, s: r.tick()}
			if err := send([]byte(wire)); err != nil {
				setFail("client %d: send failed: %v", ci, err)
				return
			}
			budget := newPatience(wait)
			if unanswered > 0 && wait > 5*time.Second {
				budget = newPatience(5 * time.Second) // this client has already seen a request go unanswered: the plan is about to end
			}
			for {
				m, err := recv(budget)
				if err != nil {
					break // no answer within 20 s of running time (judged below: loss is admissible only around a removal)
				}
				if cid, _ := m.First(hCallID); cid == id {
					t.answer = true
					if method == "INVITE" {
						r.mu.Lock()
						if len(r.calls[entry]) < 4000 {
							r.calls[entry] = append(r.calls[entry], c09Call{id, ci, time.Now()})
						}
						r.mu.Unlock()
					}
					break
				} else if cs, _ := m.First(hCSeq); strings.HasSuffix(cs, " BYE") {
					// (the answer to the BYE of an old call)
				} else if !strings.HasPrefix(cid, fmt.Sprintf("c09-%s-%d-", tag, ci)) {
					setFail("client %d received a response that belongs to another client: Call-ID %q", ci, cid)
				}
			}
			t.e = r.tick()
			txns[ci] = append(txns[ci], t)
			if !t.answer && atomic.LoadInt32(&r.stop) != 0 {
				return
			}
			// a listener that has stopped relaying must not keep the plan (and the
			// test binary) waiting for every remaining transaction: an unanswered
			// request outside every membership change, or 30 s of running time
			// without any answer, ends the plan at once
			if t.answer {
				silent = nil
				continue
			}
			r.mu.Lock()
			soft := plan.Churn && plan.FastChurn
			for _, w := range r.removals {
				if t.s <= w[1] && w[0] <= t.e {
					soft = true
				}
			}
			churning := plan.Churn
			r.mu.Unlock()
			if silent == nil {
				silent = newPatience(30 * time.Second)
			}
			unanswered++
			if (!soft && !churning) || silent.spent() {
				setFail("client %d (listen entry %d, %s): request %s got no answer within %v and the requests before it none for 30 s: the listener no longer relays (message loop wedged or dead)", ci, entry, map[bool]string{true: "tcp", false: "udp"}[tcp], id, wait)
				atomic.StoreInt32(&r.stop, 1)
				return
			}
			// A dispatch can legitimately be lost when it hits a backend in the very
			// instant of its removal (a window of microseconds, once every 70-110 ms
			// in a plan with sparse churn). Four requests of one stop-and-wait client
			// going unanswered is beyond that: messages are being lost.
			if !(plan.Churn && plan.FastChurn) && unanswered >= 4 {
				setFail("client %d (listen entry %d, %s): %d of its first %d requests got no answer (the last one: %s) although the backend set changes only every 70-110 ms: requests or responses are being lost", ci, entry, map[bool]string{true: "tcp", false: "udp"}[tcp], unanswered, j+1, id)
				atomic.StoreInt32(&r.stop, 1)
				return
			}
		}
	}
	for ci := 0; ci < nClients; ci++ {
		wg.Add(1)
		go client(ci, ci >= plan.UDPClients)
	}
	if plan.Churn {
		bg.Add(1)
		go func() {
			defer bg.Done()
			k := 0
			if plan.FastChurn {
				s := r.tick()
				for atomic.LoadInt32(&r.stop) == 0 {
					pi := k % 2
					pool := r.poolIPs[pi]
					n := (k / 2) % (len(pool) + 1)
					dynamicHostResolver.addressResolved(r.pools[pi], append([]string{}, pool[:n]...), nil)
					out.membership++
					k++
					time.Sleep(time.Duration(100+(k%7)*50) * time.Microsecond)
				}
				e := r.tick()
				r.mu.Lock()
				r.removals = append(r.removals, [2]int64{s, e})
				r.mu.Unlock()
				return
			}
			for atomic.LoadInt32(&r.stop) == 0 {
				pi := k % 2
				pool := r.poolIPs[pi]
				n := (k / 2) % (len(pool) + 1)
				addrs := append([]string{}, pool[:n]...)
				s := r.tick()
				dynamicHostResolver.addressResolved(r.pools[pi], addrs, nil)
				time.Sleep(8 * time.Millisecond)
				e := r.tick()
				r.mu.Lock()
				r.removals = append(r.removals, [2]int64{s, e})
				r.mu.Unlock()
				out.membership++
				k++
				time.Sleep(time.Duration(60+k%40) * time.Millisecond)
			}
		}()
	}
	if plan.Hammer {
		pool := NewByteArrayPool(8, 1024)
		mgr := NewClientTransportMgr(func(net.Conn) {})
		res := &DynamicHostResolver{hostIPs: map[string]*AddressWithCallback{}}
		// a host table as every listener's loop of a service consults it, for names in
		// the table, literals, and names only the (disabled) system resolver could know
		table := NewPreConfigHostResolver()
		table.AddHostIP("hop-a.hammer.test", "127.0.0.101")
		table.AddHostIP("hop-b.hammer.test", "127.0.0.102")
		for h := 0; h < 3; h++ {
			bg.Add(1)
			go func(h int) {
				defer bg.Done()
				for i := 0; atomic.LoadInt32(&r.stop) == 0; i++ {
					b := pool.Alloc()
					b[0] = byte(i)
					pool.Free(b)
					pool.Size()
					host := fmt.Sprintf("127.0.0.%d", 100+(i+h)%4)
					if _, err := mgr.GetTransport("udp", host, 5060, "", ""); err != nil {
						setFail("GetTransport failed: %v", err)
					}
					mgr.GetTransport("tcp", host, 5060+h, "", fmt.Sprintf("OPTIONS-b%d", i%5))
					if i%3 == 0 {
						mgr.RemoveTransport("tcp", host, 5060+h, fmt.Sprintf("OPTIONS-b%d", i%5))
						mgr.RemoveTransport("udp", host, 5060, "")
					}
					if i%40 == 7 {
						// a minute passes: the next GetTransport runs the periodic sweep of the table
						mgr.Lock()
						mgr.lastCleanTime = time.Now().Unix() - 61
						mgr.Unlock()
						V.ExtraAdd("transport_table_sweeps_forced", 1)
					}
					table.GetIp([]string{"hop-a.hammer.test", "127.0.0.103", "hop-b.hammer.test"}[i%3])
					if i%8 == 0 {
						table.GetIp(fmt.Sprintf("unknown-%d-%d.hammer.invalid", h, i%64))
					}
					name := fmt.Sprintf("hammer-%d.verif.invalid", i%3)
					res.ResolveHost(name, func(string, []string, []string) {})
					res.GetAddrsOfHost(name)
					if i%5 == 0 {
						res.addressResolved(name, []string{host}, nil)
					}
					if i%64 == 0 {
						runtime.Gosched()
					}
				}
			}(h)
		}
	}
	wg.Wait()
	atomic.StoreInt32(&r.stop, 1)
	bgDone := make(chan struct{})
	go func() { bg.Wait(); close(bgDone) }()
	if _, ok := patientRecv(bgDone, 30*time.Second); !ok {
		setFail("the goroutines exercising the buffer pool, the transport table and the resolver did not finish within 30 s after being told to stop: one of them is wedged inside a product call (deadlock)")
		return out
	}
	// leave the pools empty and settled for the next plan
	for pi := range r.pools {
		dynamicHostResolver.addressResolved(r.pools[pi], []string{}, nil)
	}
	time.Sleep(100 * time.Millisecond)
	r.mu.Lock()
	if r.corrupt != "" && out.fail == "" {
		out.fail = r.corrupt
	}
	r.corrupt = ""
	r.mu.Unlock()
	if out.fail != "" {
		return out
	}
	// accounting
	r.mu.Lock()
	defer r.mu.Unlock()
	overlaps := func(s, e int64) bool {
		for _, w := range r.removals {
			if s <= w[1] && w[0] <= e {
				return true
			}
		}
		return false
	}
	for ci := range txns {
		if len(txns[ci]) != plan.PerClient {
			out.fail = fmt.Sprintf("client %d finished %d of %d transactions (an earlier one got no answer within 20 s)", ci, len(txns[ci]), plan.PerClient)
		}
		for _, t := range txns[ci] {
			out.total++
			out.listeners[t.entry] = true
			at := r.seenAt[t.id]
			soft := overlaps(t.s, t.e)
			if soft {
				out.dontCare++
			} else {
				out.strict++
			}
			if len(at) > 1 {
				return c09Outcome{fail: fmt.Sprintf("request %s was delivered to %d backends: %v", t.id, len(at), at)}
			}
			if len(at) == 1 && r.backendOf[at[0]] != t.want {
				if t.want >= c09StaticHop {
					return c09Outcome{fail: fmt.Sprintf("request %s has a static route to %s:5080 but reached %s", t.id, map[int]string{c09StaticHop: "c09-hop.test", c09StaticHop2: "c09-hop2.test"}[t.want], at[0])}
				}
				return c09Outcome{fail: fmt.Sprintf("request %s was sent to listen entry %d but reached backend %s of listen entry %d", t.id, t.entry, at[0], r.backendOf[at[0]])}
			}
			if !soft {
				if len(at) != 1 {
					return c09Outcome{fail: fmt.Sprintf("request %s (no membership change in flight) reached %d backends", t.id, len(at))}
				}
				if !t.answer {
					return c09Outcome{fail: fmt.Sprintf("request %s reached backend %s, which answered, but the response never returned to the client within 20 s", t.id, at[0])}
				}
			}
		}
	}
	for id := range r.seenAt {
		if strings.HasPrefix(id, "c09-"+tag+"-") {
			delete(r.seenAt, id)
		}
	}
	r.removals = nil
	return out
}

// c09Listener is a ServerTransport double: what the learned-route table keeps
// per host is the listener that saw it.
type c09Listener struct {
	proto, addr string
	port        int
}

func (l *c09Listener) Start(MessageHandler) error       { return nil }
func (l *c09Listener) Send(string, int, *Message) error { return nil }
func (l *c09Listener) GetProtocol() string              { return l.proto }
func (l *c09Listener) GetAddress() string               { return l.addr }
func (l *c09Listener) GetPort() int                     { return l.port }
func (l *c09Listener) IsExit() bool                     { return false }

type c09Sink struct {
	addr string
	hits int64
}

func (b *c09Sink) Send(*Message) error { atomic.AddInt64(&b.hits, 1); return nil }
func (b *c09Sink) GetAddress() string  { return b.addr }
func (b *c09Sink) Close()              {}

// c09SharedObjects drives the two objects every listener of a service shares
// with the others and with the resolver's goroutines - the learned-route table
// and the rotation - from several goroutines at once, the way the message
// loops do, and judges them by what sequential use promises: a host a loop has
// learned is known from then on (to that loop at once, to everybody once all
// loops are done), with the listener that learned it last; a dispatch reaches
// exactly one backend whatever is being added or removed meanwhile.
func c09SharedObjects(rt *rapid.T) string {
	procs := rapid.SampledFrom([]int{2, 4, 8, 16}).Draw(rt, "gomaxprocs")
	loops := rapid.IntRange(2, 6).Draw(rt, "message loops")
	perLoop := rapid.IntRange(200, 3000).Draw(rt, "hosts learned per loop")
	perMsg := rapid.IntRange(1, 8).Draw(rt, "hosts learned per message")
	old := runtime.GOMAXPROCS(procs)
	defer runtime.GOMAXPROCS(old)
	var fmu sync.Mutex
	fail := ""
	setFail := func(f string, a ...any) {
		fmu.Lock()
		if fail == "" {
			fail = fmt.Sprintf(f, a...)
		}
		fmu.Unlock()
	}
	guard := func(what string) {
		if p := recover(); p != nil {
			setFail("panic in %s: %v", what, p)
		}
	}

	table := NewSelfLearnRoute()
	listeners := make([]*c09Listener, loops)
	for i := range listeners {
		listeners[i] = &c09Listener{proto: []string{"udp", "tcp"}[i%2], addr: fmt.Sprintf("127.9.0.%d", i+1), port: 5060 + i}
	}
	host := func(loop, i int) string { return fmt.Sprintf("h%d-%d.learn.test", loop, i) }
	same := func(got ServerTransport, want *c09Listener) bool {
		return got != nil && got.GetProtocol() == want.proto && got.GetAddress() == want.addr && got.GetPort() == want.port
	}
	var start, wg sync.WaitGroup
	start.Add(1)
	for li := 0; li < loops; li++ {
		wg.Add(1)
		go func(li int) {
			defer wg.Done()
			defer guard("the learned-route table")
			start.Wait()
			me := listeners[li]
			for i := 0; i < perLoop; {
				n := perMsg
				if i+n > perLoop {
					n = perLoop - i
				}
				for k := 0; k < n; k++ {
					table.AddRoute(host(li, i+k), me)
				}
				i += n
				// a host seen again (the fast path) and one learned a while ago
				table.AddRoute(host(li, i-1), me)
				for _, j := range []int{i - 1, i / 2, 0} {
					got, ok := table.GetRoute(host(li, j))
					if !ok || !same(got, me) {
						setFail("learned-route table, %d loops: loop %d learned host %s through %s:%s:%d and does not find it (correctly) %d additions later: found=%v", loops, li, host(li, j), me.proto, me.addr, me.port, i-j, ok)
						return
					}
				}
			}
		}(li)
	}
	start.Done()
	// (a table that never lets its users finish - a lock taken twice, a lock never
	// released - is a verdict, not something to wait for until the test binary's deadline)
	waitAll := func(w *sync.WaitGroup, what string) bool {
		done := make(chan struct{})
		go func() { w.Wait(); close(done) }()
		if _, ok := patientRecv(done, 30*time.Second); !ok {
			setFail("%s: the goroutines using it at the same time have not finished after 30 s of running time - they wait for one another or for a lock that is never released", what)
			return false
		}
		return true
	}
	getFail := func() string { fmu.Lock(); defer fmu.Unlock(); return fail }
	if !waitAll(&wg, fmt.Sprintf("learned-route table taught %d hosts by each of %d loops", perLoop, loops)) {
		return getFail()
	}
	lost := 0
	first := ""
	for li := 0; li < loops && fail == ""; li++ {
		for i := 0; i < perLoop; i++ {
			got, ok := table.GetRoute(host(li, i))
			if !ok || !same(got, listeners[li]) {
				lost++
				if first == "" {
					first = host(li, i)
				}
			}
		}
	}
	if lost > 0 {
		setFail("learned-route table: %d loops learned %d hosts each at the same time; afterwards %d of them are unknown or bound to another listener (first: %s)", loops, perLoop, lost, first)
	}
	if fail != "" {
		return fail
	}

	// the rotation: loops dispatch while the resolver's goroutine adds and removes
	rb := NewRoundRobinBackend()
	stable := []*c09Sink{{addr: "10.9.0.1:5060"}, {addr: "10.9.0.2:5060"}}
	for _, b := range stable {
		rb.AddBackend(b)
	}
	extra := []*c09Sink{{addr: "10.9.0.3:5060"}, {addr: "10.9.0.4:5060"}}
	perDisp := rapid.IntRange(500, 20000).Draw(rt, "dispatches per loop")
	var done int32
	var sent int64
	var dwg sync.WaitGroup
	for li := 0; li < loops; li++ {
		dwg.Add(1)
		go func() {
			defer dwg.Done()
			defer guard("a dispatch while backends come and go")
			for i := 0; i < perDisp; i++ {
				if err := rb.Send(&Message{}); err != nil {
					setFail("rotation: a dispatch failed although two backends were registered all the time: %v", err)
					return
				}
				atomic.AddInt64(&sent, 1)
			}
		}()
	}
	var mwg sync.WaitGroup
	mwg.Add(1)
	go func() {
		defer mwg.Done()
		defer guard("a membership change")
		for i := 0; atomic.LoadInt32(&done) == 0; i++ {
			e := extra[i%2]
			rb.AddBackend(e)
			if i%3 == 0 {
				runtime.Gosched()
			}
			rb.RemoveBackend(e.addr)
		}
	}()
	if !waitAll(&dwg, "rotation dispatching while backends are added and removed") {
		atomic.StoreInt32(&done, 1)
		return getFail()
	}
	atomic.StoreInt32(&done, 1)
	if !waitAll(&mwg, "rotation: the goroutine that adds and removes backends") {
		return getFail()
	}
	if fail != "" {
		return fail
	}
	var hits int64
	for _, b := range append(append([]*c09Sink{}, stable...), extra...) {
		hits += atomic.LoadInt64(&b.hits)
	}
	if hits != sent {
		return fmt.Sprintf("rotation: %d dispatches returned without error while backends were added and removed, the backends received %d", sent, hits)
	}
	return ""
}

func TestC09(t *testing.T) {
	V.Rule("lab under the race detector: rapid draws load plans - GOMAXPROCS in {2,4,8,16}, 2-12 UDP and 1-8 TCP stop-and-wait clients spread over three listen entries of one service (shared learned-route table; UDP and TCP listeners; UDP, TCP and dynamically resolved backends), 30-250 transactions each with unique identifiers in a fixed mix (OPTIONS - every other one to a To host never seen before -, dialog-creating INVITE answered with a To-tag (the service's dialog timeout is 1 s; the BYE of a call set up 1.05-1.9 s ago - in this or an earlier plan - goes ahead of every third transaction when there is one), in-dialog INFO of an unknown dialog, MESSAGE with one of two literal static routes or, to a host never seen before, a wildcard route, whose next hops are host-table names), backends that answer every request, optional membership churn through the resolver's addressResolved entry point, sparse (a change every 70-110 ms) or fast (every 100-400 us), at least one stable backend per listen entry, every fourth transaction preceded by a request whose first Route entry names an unknown host with the listener's port (looked up, unreachable, dropped), optional hammering of ByteArrayPool, ClientTransportMgr, DynamicHostResolver and a host table from three goroutines; unit (shared-objects): the learned-route table taught 200-3000 hosts by each of 2-6 loops at once (every host known afterwards, with its listener; a loop finds what it learned itself at once) and the rotation dispatching from 2-6 loops while two further backends are added and removed without pause (no panic, every dispatch at exactly one backend). Oracle: no race report, no fatal error or panic, every client finishes (no transaction waits more than 20 s unless a membership change was in flight), every request reached exactly one backend of the listen entry it was sent to (at most one while a change was in flight), every response returned to the client that sent the request, every request body (a function of its Call-ID; TCP clients pipeline a companion request now and then) arrived intact. non-trivial = plan with >= 2 listeners receiving simultaneously and >= 1 membership change during traffic; distinct by plan")
	V.Assume("schedules are sampled by the Go scheduler under the drawn plan, not enumerated: this check can expose races, never show their absence")
	V.Require("unit: learned-route table and rotation driven by several loops at once", "engine:bin (-race binary under load)", "plan with fast churn", "plan with churn", "plan with hammering", ">=2 listeners in parallel", "tcp and udp clients together")
	rig, err := newC09Rig(false)
	if err != nil {
		V.HarnessError(t, "cannot start lab instance: %v", err)
	}
	rcheck(t, "shared-objects", V.N(12, 120), func(rt *rapid.T) {
		V.Class("unit: learned-route table and rotation driven by several loops at once")
		if f := c09SharedObjects(rt); f != "" {
			failf(rt, "%s", f)
		}
	})
	n := 0
	rcheck(t, "plans", V.N(8, 14), func(rt *rapid.T) {
		plan := c09Plan{
			Procs:      rapid.SampledFrom([]int{2, 4, 8, 16}).Draw(rt, "gomaxprocs"),
			UDPClients: rapid.IntRange(2, 12).Draw(rt, "udp clients"),
			TCPClients: rapid.IntRange(1, 8).Draw(rt, "tcp clients"),
			PerClient:  rapid.IntRange(30, 250).Draw(rt, "transactions each"),
			Churn:      rapid.IntRange(0, 3).Draw(rt, "churn") > 0,
			FastChurn:  rapid.IntRange(0, 2).Draw(rt, "fast churn") == 0,
			Hammer:     rapid.IntRange(0, 2).Draw(rt, "hammer") > 0,
		}
		// (the first plans of a run cover the classes the rule names, whatever is drawn)
		switch n {
		case 0:
			plan.Churn, plan.FastChurn, plan.Hammer = true, true, true
		case 1:
			plan.Churn, plan.FastChurn, plan.Hammer = true, false, true
		}
		n++
		V.Journal(t.Name()+"/plans", plan)
		out := rig.run(plan, fmt.Sprintf("p%d", n))
		V.ClassIf(plan.Churn && out.membership > 0, "plan with churn")
		V.ClassIf(plan.Churn && plan.FastChurn, "plan with fast churn")
		V.ClassIf(plan.Hammer, "plan with hammering")
		V.ClassIf(len(out.listeners) >= 2, ">=2 listeners in parallel")
		V.Class("tcp and udp clients together")
		V.ExtraAdd("transactions", int64(out.total))
		V.ExtraAdd("transactions_strict_oracle", int64(out.strict))
		V.ExtraAdd("transactions_during_membership_change", int64(out.dontCare))
		V.ExtraAdd("membership_changes", int64(out.membership))
		if len(out.listeners) >= 2 && out.membership > 0 {
			V.NonTrivial(fmt.Sprintf("%+v", plan))
		}
		V.Sample(plan)
		if out.fail != "" {
			failf(rt, "%s\nplan: %+v", out.fail, plan)
		}
	})

	if os.Getenv("VERIF_RACEBIN") != "" && !V.replay {
		brig, err := newC09Rig(true)
		if err != nil {
			V.HarnessError(t, "cannot start the -race binary: %v", err)
		}
		defer brig.in.stopBin()
		rcheck(t, "bin-plans", V.N(2, 6), func(rt *rapid.T) {
			plan := c09Plan{
				Procs:      16,
				UDPClients: rapid.IntRange(4, 12).Draw(rt, "udp clients"),
				TCPClients: rapid.IntRange(2, 8).Draw(rt, "tcp clients"),
				PerClient:  rapid.IntRange(100, 400).Draw(rt, "transactions each"),
			}
			n++
			V.Journal(t.Name()+"/bin-plans", plan)
			out := brig.run(plan, fmt.Sprintf("b%d", n))
			V.Class("engine:bin (-race binary under load)")
			V.ExtraAdd("bin_transactions", int64(out.total))
			V.Sample(map[string]any{"engine": "bin", "plan": plan})
			if d := brig.in.binDead(); d != "" {
				failf(rt, "%s\nplan: %+v", d, plan)
			}
			if out.fail != "" {
				failf(rt, "real binary: %s\nplan: %+v", out.fail, plan)
			}
			if r := brig.in.binRaces(); r > 0 {
				b, _ := os.ReadFile(brig.in.binLog)
				txt := string(b)
				if i := strings.Index(txt, "WARNING: DATA RACE"); i >= 0 {
					txt = txt[i:]
				}
				if len(txt) > 4000 {
					txt = txt[:4000]
				}
				failf(rt, "the -race build of the real binary reported %d data race(s) under load:\n%s", r, txt)
			}
		})
	}
}

//verif:needs core,sip,lab
package main

// C17 - header spelling and list layout do not change what the proxy does.
// Engine: lab, metamorphic: a generated request / response / short dialog
// history and its restyled twin (every header name independently respelled,
// Via/Route/Record-Route lists re-laid-out) are both executed; destination,
// decoded routing stacks, pinning decision, remaining headers (up to the name
// mapping) and body must agree.

import (
	"bytes"
	"fmt"
	"strings"
	"testing"

	"pgregory.net/rapid"
)

func c17Spellings(m *AMsg) string {
	var names []string
	for _, h := range m.Hdrs {
		names = append(names, h.Name)
	}
	return strings.Join(names, ",")
}

// c17Compare: the pairwise relation on two relayed messages.
func c17Compare(a, b *RMsg, pushedVia bool) string {
	norm := func(es []string) []string {
		out := append([]string{}, es...)
		if pushedVia && len(out) > 0 {
			if v, err := rVia(out[0]); err == nil {
				for i, p := range v.Params {
					if p.K == "branch" {
						v.Params[i].V = "<fresh>"
					}
				}
				out[0] = v.String()
			}
		}
		return out
	}
	for _, k := range []int{hVia, hRoute, hRR} {
		ea, eb := a.Entries(k), b.Entries(k)
		if k == hVia {
			ea, eb = norm(ea), norm(eb)
		}
		if len(ea) != len(eb) {
			return fmt.Sprintf("%s stacks differ between the two spellings/layouts: %q vs %q", hKindNames[k], ea, eb)
		}
		for i := range ea {
			if ea[i] != eb[i] {
				return fmt.Sprintf("%s entry %d differs between the two spellings/layouts:\n a: %q\n b: %q", hKindNames[k], i, ea[i], eb[i])
			}
		}
	}
	oa, ob := a.Others(), b.Others()
	if len(oa) != len(ob) {
		return fmt.Sprintf("number of relayed headers differs: %d vs %d (%v vs %v)", len(oa), len(ob), oa, ob)
	}
	for i := range oa {
		if rCanonName(oa[i][0]) != rCanonName(ob[i][0]) || oa[i][1] != ob[i][1] {
			return fmt.Sprintf("relayed header %d differs beyond its spelling: %q: %s vs %q: %s", i, oa[i][0], jsonBytes([]byte(oa[i][1])), ob[i][0], jsonBytes([]byte(ob[i][1])))
		}
	}
	if len(a.Values(hCL)) != 1 || len(b.Values(hCL)) != 1 {
		return fmt.Sprintf("Content-Length count: %d vs %d, want exactly one in each", len(a.Values(hCL)), len(b.Values(hCL)))
	}
	if !bytes.Equal(a.Body, b.Body) {
		return "bodies differ"
	}
	if a.Start != b.Start {
		return fmt.Sprintf("start lines differ: %q vs %q", a.Start, b.Start)
	}
	return ""
}

func TestC17(t *testing.T) {
	V.Rule("lab, metamorphic: generated requests (backend / Route / static-route paths, rich Via, Route and Record-Route lists, extension headers incl. those with compact forms) and responses, plus short dialog histories (INVITE -> response with both tags from the backend -> in-dialog follow-up), each executed twice: as generated and as a restyled twin in which every header name is independently respelled (canonical, compact v f t i l m c e k s o r u a b, upper, lower, random case) and every run of adjacent Via/Route/Record-Route lines is re-laid-out (joined, split, partially joined). Relation: same destination (same endpoint; any backend of the same listen entry), same decoded Via/Route/Record-Route stacks (fresh branch abstracted), same ordered remaining headers up to the harness's own name table, same body, exactly one Content-Length in each, same pinning decision; plus twin learning histories on two identical fresh services (an unroutable request teaches its Via hosts, a later request routed to one of them must be handled the same whether the teaching request was canonical or restyled). non-trivial = the twins differ in the spelling of a header the proxy looks up or in list layout; distinct by the pair")
	V.Require("pair:route set towards a refusing tcp hop, joined and one line per entry", "pair:learning history", "pair:request", "pair:response", "pair:dialog", "compact Content-Length", "compact Call-ID", "compact Via", "list layout differs", "compact From/To")
	svc, err := newStdSvc(stdVariant{Pool: 4, MustRR: [3]string{"", "true", ""}})
	if err != nil {
		V.HarnessError(t, "cannot start lab instance: %v", err)
	}
	s := svc
	for _, b := range s.in.cfg.Listens[0].Backends {
		proto, hp, _ := strings.Cut(b, "://")
		host, port := splitHostPort(hp)
		if proto == "udp" {
			s.in.hub.udpEP("backend-udp", host, port)
		}
	}
	if err := s.primeHops(); err != nil {
		V.HarnessError(t, "priming: %v", err)
	}
	classes := func(a, b *AMsg) {
		for _, m := range []*AMsg{a, b} {
			for _, h := range m.Hdrs {
				V.ClassIf(h.Kind == hCL && strings.EqualFold(h.Name, "l"), "compact Content-Length")
				V.ClassIf(h.Kind == hCallID && strings.EqualFold(h.Name, "i"), "compact Call-ID")
				V.ClassIf(h.Kind == hVia && strings.EqualFold(h.Name, "v"), "compact Via")
				V.ClassIf((h.Kind == hFrom && strings.EqualFold(h.Name, "f")) || (h.Kind == hTo && strings.EqualFold(h.Name, "t")), "compact From/To")
			}
		}
		la, lb := 0, 0
		for _, h := range a.Hdrs {
			if h.Kind == hVia || h.Kind == hRoute || h.Kind == hRR {
				la++
			}
		}
		for _, h := range b.Hdrs {
			if h.Kind == hVia || h.Kind == hRoute || h.Kind == hRR {
				lb++
			}
		}
		V.ClassIf(la != lb, "list layout differs")
	}

	rcheck(t, "refusing-hop", V.N(8, 100), func(rt *rapid.T) {
		s := s
		obs, ok, err := s.hopOutage(rt, t.Name()+"/refusing-hop", true)
		if _, lost := err.(labLost); lost {
			failf(rt, "%v\nhistory: %s", err, obs)
		} else if err != nil {
			V.HarnessError(rt, "%v", err)
		}
		if !ok {
			return
		}
		V.Class("pair:route set towards a refusing tcp hop, joined and one line per entry")
		V.NonTrivial("refusing|" + obs.String())
		V.SampleEvery(10, func() any { return obs })
		if f := hopTwins(obs); f != "" {
			failf(rt, "%s", f)
		}
	})
	rcheck(t, "requests", V.N(1200, 10000), func(rt *rapid.T) {
		rc := s.gRelayRequest(rt, relayOpts{LongLists: true, Paths: []string{"backend", "route", "static"}, MaxVias: 5, MaxRRs: 3, MaxExt: 8, MaxLong: 0, MaxBody: 200, Entries: []int{0, 1}})
		twin := restyle(rt, "twin", rc.Msg)
		rc2 := rc
		rc2.Msg, rc2.Wire = twin, jsonBytes(twin.Bytes())
		V.Journal(t.Name()+"/requests", map[string]any{"a": rc, "b": rc2})
		resA, err := s.runRequest(rc)
		if _, lost := err.(labLost); lost {
			failf(rt, "%v", err)
		} else if err != nil {
			V.HarnessError(rt, "%v", err)
		}
		resB, err := s.runRequest(rc2)
		if _, lost := err.(labLost); lost {
			failf(rt, "twin: %v", err)
		} else if err != nil {
			V.HarnessError(rt, "%v", err)
		}
		V.Class("pair:request")
		for _, m := range []*AMsg{rc.Msg, twin} {
			for _, h := range m.Hdrs {
				if h.Kind == hRR && len(h.ValueText(0)) > 4096 {
					V.ClassIf(rc.Ingress.TCP, "a joined list line longer than the 4096-byte reader window, over tcp")
				}
			}
		}
		classes(rc.Msg, twin)
		V.NonTrivial(c17Spellings(rc.Msg) + "|" + c17Spellings(twin) + "|" + string(rc.Msg.Bytes()))
		V.SampleEvery(150, func() any {
			return map[string]any{"path": rc.Path, "names_a": c17Spellings(rc.Msg), "names_b": c17Spellings(twin), "msg": rc.Msg.Summary()}
		})
		if len(resA.Got) != len(resB.Got) {
			failf(rt, "%s path: as generated the request produced %d receptions, its restyled twin %d\n a: %s\n b: %s\nreceptions a:\n%sreceptions b:\n%s", rc.Path, len(resA.Got), len(resB.Got), c17Spellings(rc.Msg), c17Spellings(twin), labDescribe(resA.Got), labDescribe(resB.Got))
		}
		if len(resA.Got) != 1 {
			return
		}
		ra, rb := resA.Got[0], resB.Got[0]
		if resA.Exp.ToBackend {
			if !s.isBackendOf(rb.ep, rc.Ingress.Entry, rb.tcp != nil) || !s.isBackendOf(ra.ep, rc.Ingress.Entry, ra.tcp != nil) {
				failf(rt, "backend path: destinations %s / %s", ra.where(), rb.where())
			}
		} else if ra.ep != rb.ep || (ra.tcp != nil) != (rb.tcp != nil) {
			failf(rt, "%s path: the request went to %s, its restyled twin to %s\n a: %s\n b: %s", rc.Path, ra.where(), rb.where(), c17Spellings(rc.Msg), c17Spellings(twin))
		}
		pushed := len(ra.msg.Entries(hVia)) == len(rc.Msg.Vias())+1
		if f := c17Compare(ra.msg, rb.msg, pushed); f != "" {
			failf(rt, "%s path: %s\n names a: %s\n names b: %s", rc.Path, f, c17Spellings(rc.Msg), c17Spellings(twin))
		}
	})

	rcheck(t, "responses", V.N(600, 5000), func(rt *rapid.T) {
		rc := s.gRelayResponse(rt, 8, 0, 200)
		twin := restyle(rt, "twin", rc.Msg)
		rc2 := rc
		rc2.Msg, rc2.Wire = twin, jsonBytes(twin.Bytes())
		V.Journal(t.Name()+"/responses", map[string]any{"a": rc, "b": rc2})
		resA, err := s.runResponse(rc)
		if _, lost := err.(labLost); lost {
			failf(rt, "%v", err)
		} else if err != nil {
			V.HarnessError(rt, "%v", err)
		}
		resB, err := s.runResponse(rc2)
		if _, lost := err.(labLost); lost {
			failf(rt, "twin: %v", err)
		} else if err != nil {
			V.HarnessError(rt, "%v", err)
		}
		V.Class("pair:response")
		classes(rc.Msg, twin)
		V.NonTrivial(c17Spellings(rc.Msg) + "|" + c17Spellings(twin) + "|" + string(rc.Msg.Bytes()))
		if len(resA.Got) != len(resB.Got) {
			failf(rt, "as generated the response produced %d receptions, its restyled twin %d\n a: %s\n b: %s\nreceptions a:\n%sreceptions b:\n%s", len(resA.Got), len(resB.Got), c17Spellings(rc.Msg), c17Spellings(twin), labDescribe(resA.Got), labDescribe(resB.Got))
		}
		if len(resA.Got) != 1 {
			return
		}
		ra, rb := resA.Got[0], resB.Got[0]
		if ra.ep != rb.ep || (ra.tcp != nil) != (rb.tcp != nil) {
			failf(rt, "the response went to %s, its restyled twin to %s\n a: %s\n b: %s", ra.where(), rb.where(), c17Spellings(rc.Msg), c17Spellings(twin))
		}
		if f := c17Compare(ra.msg, rb.msg, false); f != "" {
			failf(rt, "response: %s\n names a: %s\n names b: %s", f, c17Spellings(rc.Msg), c17Spellings(twin))
		}
	})

	// dialog histories: the pinning decision must not depend on spelling
	rcheck(t, "dialogs", V.N(300, 2500), func(rt *rapid.T) {
		l := s.in.cfg.Listens[0]
		runDialog := func(label string, respell bool) (bool, string) {
			id := s.nextID("c17d")
			ua := rapid.IntRange(0, 3).Draw(rt, label+".ua")
			uaEP := s.uas[ua]
			send := func(b []byte) error { return uaEP.sendUDP(l.Addr, l.UDPPort, b) }
			mk := func(method string, toTag string, seq int) *AMsg {
				p := msgParts{IsReq: true, Version: "SIP/2.0", Method: method, CSeqMethod: method, CSeqN: seq}
				p.RURI = AURI{Scheme: "sip", Host: "svc.test"}
				p.From = ANameAddr{URI: AURI{Scheme: "sip", User: "a", Host: "a.example"}, Params: []AParam{{K: "tag", V: "f" + id, HasV: true}}}
				p.To = ANameAddr{URI: AURI{Scheme: "sip", User: "b", Host: "nomatch.example"}}
				if toTag != "" {
					p.To.Params = []AParam{{K: "tag", V: toTag, HasV: true}}
				}
				p.CallID = "c17-" + id
				p.Vias = []AVia{{Proto: "SIP", Ver: "2.0", Transport: "UDP", Host: uaEP.ip, Port: 5060, Params: []AParam{{K: "branch", V: "z9hG4bK" + s.nextID("c17b"), HasV: true}}}}
				p.Ext = []AHdr{{Kind: hExt, Name: "Max-Forwards", SP: " ", Value: "70"}}
				m := assemble(rt, label+"."+method, msgParts{IsReq: true, Version: "SIP/2.0", Method: p.Method, CSeqMethod: p.CSeqMethod, CSeqN: p.CSeqN, RURI: p.RURI, From: p.From, To: p.To, CallID: p.CallID, Vias: p.Vias, Ext: p.Ext, Canonical: true})
				// canonical spelling first, restyled on demand
				for i := range m.Hdrs {
					if sp, ok := hSpellings[m.Hdrs[i].Kind]; ok {
						m.Hdrs[i].Name = sp[0]
					}
				}
				if respell {
					m = restyle(rt, label+".re."+method, m)
				}
				return m
			}
			s.model.learnRequest(s.model.transport(0, "udp"), uaEP.ip, &AMsg{IsReq: true, Hdrs: []AHdr{{Kind: hVia, Vias: []AVia{{Host: uaEP.ip}}}}})
			inv := mk("INVITE", "", 1)
			s.in.expect(inv.Bytes())
			if err := send(inv.Bytes()); err != nil {
				V.HarnessError(rt, "send: %v", err)
			}
			rs, err := s.in.settle(send, 1)
			if _, lost := err.(labLost); lost {
				failf(rt, "%v (names: %s)", err, c17Spellings(inv))
			} else if err != nil {
				V.HarnessError(rt, "%v", err)
			}
			got := labMessages(rs)
			if len(got) != 1 || !s.isBackendOf(got[0].ep, 0, got[0].tcp != nil) {
				failf(rt, "INVITE (names: %s) must reach one backend; receptions:\n%s", c17Spellings(inv), labDescribe(got))
			}
			at := got[0]
			// the backend answers; the response is respelled too
			resp := buildResponse(at.msg, 200, "OK", "t"+id, "")
			if respell {
				if rm, err := sipRead(resp); err == nil {
					var sb strings.Builder
					sb.WriteString(rm.Start + "\r\n")
					for i, h := range rm.Hdrs {
						name := h.Name
						if sp, ok := hSpellings[h.Kind]; ok {
							name = sp[rapid.IntRange(0, len(sp)-1).Draw(rt, fmt.Sprintf("%s.resp%d", label, i))]
						}
						sb.WriteString(name + ": " + h.Value + "\r\n")
					}
					sb.WriteString("\r\n")
					resp = []byte(sb.String())
				}
			}
			bep := at.ep
			bsend := func(b []byte) error { return bep.sendUDP(l.Addr, l.UDPPort, b) }
			s.in.expect(resp)
			if err := bsend(resp); err != nil {
				V.HarnessError(rt, "backend send: %v", err)
			}
			if _, err := s.in.settle(bsend, 1); err != nil {
				if _, lost := err.(labLost); lost {
					failf(rt, "%v", err)
				}
				V.HarnessError(rt, "%v", err)
			}
			// rotation-advancing traffic, then the in-dialog follow-up
			for i := 0; i < 1+rapid.IntRange(0, 2).Draw(rt, label+".advance"); i++ {
				o := mk("OPTIONS", "", 1)
				for k := range o.Hdrs {
					if o.Hdrs[k].Kind == hCallID {
						o.Hdrs[k].Value = "c17o-" + s.nextID("o")
					}
				}
				s.in.expect(o.Bytes())
				send(o.Bytes())
				s.in.settle(send, 1)
			}
			bye := mk(rapid.SampledFrom([]string{"BYE", "INFO", "UPDATE"}).Draw(rt, label+".followup"), "t"+id, 2)
			s.in.expect(bye.Bytes())
			if err := send(bye.Bytes()); err != nil {
				V.HarnessError(rt, "send: %v", err)
			}
			rs, err = s.in.settle(send, 1)
			if _, lost := err.(labLost); lost {
				failf(rt, "%v (names: %s)", err, c17Spellings(bye))
			} else if err != nil {
				V.HarnessError(rt, "%v", err)
			}
			got = labMessages(rs)
			if len(got) != 1 {
				failf(rt, "in-dialog follow-up (names: %s) must reach one backend; receptions:\n%s", c17Spellings(bye), labDescribe(got))
			}
			return got[0].ep == at.ep, c17Spellings(inv) + " / " + c17Spellings(bye)
		}
		stuckA, namesA := runDialog("plain", false)
		stuckB, namesB := runDialog("respelled", true)
		V.Class("pair:dialog")
		V.ClassIf(strings.Contains(namesB, "i,") || strings.Contains(namesB, ",i") || strings.Contains(namesB, "I,"), "compact Call-ID")
		V.NonTrivial(namesB + s.nextID(""))
		V.Case(map[string]any{"canonical": namesA, "respelled": namesB})
		if stuckA != stuckB {
			failf(rt, "pinning decision depends on spelling: with canonical names the in-dialog follow-up reached the answering backend: %v; with the respelled twin: %v\n canonical: %s\n respelled: %s", stuckA, stuckB, namesA, namesB)
		}
	})

	// learning histories: what an earlier request teaches the proxy must not
	// depend on how that request was spelled or laid out. Twin histories run on
	// two identical fresh services; every case uses a host no service has seen.
	svcA, err := newStdSvc(stdVariant{MustRR: [3]string{"true", "", ""}})
	if err != nil {
		V.HarnessError(t, "cannot start lab instance: %v", err)
	}
	svcB, err := newStdSvc(stdVariant{MustRR: [3]string{"true", "", ""}})
	if err != nil {
		V.HarnessError(t, "cannot start lab instance: %v", err)
	}
	fresh := 100
	rcheck(t, "learning-histories", V.N(50, 140), func(rt *rapid.T) {
		if fresh > 248 {
			rt.Skip("no unused address left in this process")
		}
		d := fresh
		fresh++
		entry := rapid.IntRange(0, 1).Draw(rt, "entry")
		ua := rapid.IntRange(0, 3).Draw(rt, "ua")
		nbelow := rapid.IntRange(1, 3).Draw(rt, "hops below the sender")
		which := rapid.IntRange(1, nbelow).Draw(rt, "which hop is routed to later")
		run := func(s *stdSvc, restyled bool, label string) (int, string) {
			l := s.in.cfg.Listens[entry]
			hop := s.ip(d)
			ep, err := s.in.hub.udpEP("fresh-hop", hop, 5070)
			if err != nil {
				V.HarnessError(rt, "bind: %v", err)
			}
			uaEP := s.uas[ua]
			send := func(b []byte) error { return uaEP.sendUDP(l.Addr, l.UDPPort, b) }
			// message 1: teaches the Via hosts (it is itself not routable)
			p := msgParts{IsReq: true, Version: "SIP/2.0", Method: "OPTIONS", CSeqMethod: "OPTIONS", CSeqN: 1}
			p.RURI = AURI{Scheme: "sip", User: "nobody", Host: "unrouted.invalid"}
			p.From = ANameAddr{URI: AURI{Scheme: "sip", User: "a", Host: "a.example"}, Params: []AParam{{K: "tag", V: "1", HasV: true}}}
			p.To = ANameAddr{URI: AURI{Scheme: "sip", User: "b", Host: "nomatch.example"}}
			p.CallID = s.nextID("c17l-")
			p.Vias = []AVia{{Proto: "SIP", Ver: "2.0", Transport: "UDP", Host: uaEP.ip, Port: 5060, Params: []AParam{{K: "branch", V: "z9hG4bK" + s.nextID("l"), HasV: true}}}}
			for i := 1; i <= nbelow; i++ {
				h := fmt.Sprintf("below%d.example", i)
				if i == which {
					h = hop
				}
				p.Vias = append(p.Vias, AVia{Proto: "SIP", Ver: "2.0", Transport: "UDP", Host: h, Port: 5070, Params: []AParam{{K: "branch", V: "z9hG4bK" + s.nextID("l"), HasV: true}}})
			}
			m1 := assemble(rt, label+".m1", p)
			for i := range m1.Hdrs { // canonical first
				if sp, ok := hSpellings[m1.Hdrs[i].Kind]; ok {
					m1.Hdrs[i].Name = sp[0]
				}
			}
			if restyled {
				m1 = restyle(rt, label+".restyle", m1)
			}
			s.in.expect(m1.Bytes())
			send(m1.Bytes())
			if rs, err := s.in.settle(send, 0); err != nil {
				failf(rt, "%v", err)
			} else if len(labMessages(rs)) != 0 {
				failf(rt, "the unroutable teaching request was relayed:\n%s", labDescribe(rs))
			}
			// message 2: routed to the taught host
			id := s.nextID("c17l2-")
			m2 := []byte(fmt.Sprintf("OPTIONS sip:x@%s:5070 SIP/2.0\r\nVia: SIP/2.0/UDP %s:5060;branch=z9hG4bK%s\r\nRoute: <sip:%s:5070;lr>\r\nFrom: <sip:a@a.example>;tag=1\r\nTo: <sip:b@nomatch.example>\r\nCall-ID: %s\r\nCSeq: 1 OPTIONS\r\nContent-Length: 0\r\n\r\n", hop, uaEP.ip, id, hop, id))
			s.in.expect(m2)
			send(m2)
			rs, err := s.in.settle(send, 1)
			if _, lost := err.(labLost); lost {
				failf(rt, "%v", err)
			} else if err != nil {
				V.HarnessError(rt, "%v", err)
			}
			got := labMessages(rs)
			if len(got) != 1 || got[0].ep != ep {
				failf(rt, "the request routed to %s:5070 must arrive there; receptions:\n%s", hop, labDescribe(got))
			}
			return len(got[0].msg.Entries(hVia))*10 + len(got[0].msg.Entries(hRR)), c17Spellings(m1)
		}
		a, namesA := run(svcA, false, "plain")
		b, namesB := run(svcB, true, "twin")
		V.Class("pair:learning history")
		V.NonTrivial(namesA + "|" + namesB + "|" + fmt.Sprint(d))
		V.Case(map[string]any{"teaching_request_names": namesA, "twin_names": namesB, "via_and_record_route_counts": []int{a, b}})
		if a != b {
			failf(rt, "after a teaching request with header lines [%s] the later request left the proxy with %d Via / %d Record-Route entries, after its restyled twin [%s] with %d / %d: what the proxy learns depends on spelling or layout", namesA, a/10, a%10, namesB, b/10, b%10)
		}
	})
}

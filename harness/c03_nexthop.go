//verif:needs core,sip,lab
package main

// C03 - each request goes to exactly one next hop chosen by fixed precedence.
// Engine: lab (real proxy in-process from generated YAML). The decision table
// of the property is enumerated cell by cell; every cell is instantiated with
// rapid-generated URIs, users, ports, parameters, methods and extra headers.
// Oracle: reference routing model + FIFO barrier for "sent nowhere else".

import (
	"fmt"
	"strings"
	"testing"

	"pgregory.net/rapid"
)

type c03Cell struct {
	Route int // 0 none, 1 own only, 2 own+next, 3 next only
	To    int // 0 exact static, 1 wildcard, 2 no exact/wildcard match (=> default if configured, else none)
	RURI  int // 0 name literal host, 1 regex-only, 2 user@host name, 3 urn/tel service, 4 listener address:port, 5 foreign
	Trans int // 0 udp, 1 tcp, 2 unsupported
}

func (c c03Cell) String() string {
	return fmt.Sprintf("route=%s,to=%s,ruri=%s,transport=%s",
		[]string{"none", "own", "own+next", "next"}[c.Route], []string{"exact", "wildcard", "nomatch"}[c.To],
		[]string{"literal", "regex", "userhost", "urn-tel", "listener", "foreign"}[c.RURI], []string{"udp", "tcp", "unsupported"}[c.Trans])
}

type c03Case struct {
	Instance string     `json:"instance"`
	Cell     string     `json:"cell"`
	Ingress  stdIngress `json:"ingress"`
	Wire     string     `json:"wire"`
	Expected string     `json:"expected"`
}

func c03Build(rt *rapid.T, s *stdSvc, cell c03Cell, g stdIngress) *AMsg {
	L := s.transportOf(g)
	p := msgParts{IsReq: true, Version: "SIP/2.0"}
	p.Method = gMethod(rt, "method")
	p.CSeqMethod = p.Method
	p.CSeqN = rapid.IntRange(1, 1<<20).Draw(rt, "cseq")
	user := gFromAlphabet(rt, "user", tokAlpha+"-_.!~*'&=+$/", 1, 8)
	// Request-URI
	switch cell.RURI {
	case 0:
		p.RURI = AURI{Scheme: "sip", Host: "svc.test", Port: gPort(rt, "rport")}
		if rapid.Bool().Draw(rt, "ruser") {
			p.RURI.User = user
		}
	case 1:
		p.RURI = AURI{Scheme: "sip", User: user, Host: "emergency.test", Port: gPort(rt, "rport")}
	case 2:
		p.RURI = AURI{Scheme: "sip", User: "sos", Host: "svc2.test", Port: gPort(rt, "rport")}
	case 3:
		p.RURI = AURI{Abs: rapid.SampledFrom([]string{"urn:service:sos", "tel:+1555", "tel:1234567", "urn:service:sos.fire"}).Draw(rt, "abs")}
	case 4:
		p.RURI = AURI{Scheme: "sip", Host: L.Addr, Port: L.Port}
		if L.Port == 5060 && rapid.Bool().Draw(rt, "noport") {
			p.RURI.Port = 0
		}
		if rapid.Bool().Draw(rt, "ruser") {
			p.RURI.User = user
		}
	default:
		p.RURI = AURI{Scheme: "sip", User: user, Host: rapid.SampledFrom([]string{"elsewhere.org", "svc.tes", "xsvc2.test", "10.9.8.7", s.ip(1)}).Draw(rt, "fhost"), Port: rapid.SampledFrom([]int{0, 5099, 6000}).Draw(rt, "fport")}
		if p.RURI.Host == s.ip(1) {
			p.RURI.Port = 5099 // listener address, wrong port: not the listener
		}
	}
	if p.RURI.IsSIP() && rapid.Bool().Draw(rt, "rparams") {
		p.RURI.Params = gParamList(rt, "rparamv", 3, uriParamValAlpha, uriParamReserved)
	}
	// To
	toHost := ""
	lab := gFromAlphabet(rt, "tolabel", "abcdefgh12", 1, 5)
	switch cell.To {
	case 0:
		toHost = []string{"static-udp.test", "static-tcp.test", "static-tls.test"}[cell.Trans]
		if cell.Trans == 0 {
			switch rapid.IntRange(0, 7).Draw(rt, "exactkind") {
			case 0:
				toHost = "static-noport.test"
			case 1:
				toHost = "lit.wudp.test" // literal covered by a wildcard configured before it
			case 2:
				toHost = "plain-w.test" // literals of a route item that also lists wildcards
			case 3:
				toHost = "tail-lit.test"
			case 4:
				toHost = "static-high.test" // next hop on a port beyond 32767
			case 5:
				toHost = "Static-Caps.Corp.test" // configured with capital letters, spelled the same in the message
			}
		}
	case 1:
		// (every position a wildcard can have in a route item with several dests)
		toHost = lab + [][]string{{".wudp.test", ".wmid.test", ".wlast.test"}, {".wtcp.test", ".wtcp2.test"}, {".wtls.test"}}[cell.Trans][rapid.IntRange(0, 2).Draw(rt, "wildcard position")%[]int{3, 2, 1}[cell.Trans]]
		if cell.Trans == 0 && rapid.IntRange(0, 3).Draw(rt, "ipv4 to host") == 0 {
			toHost = fmt.Sprintf("10.20.%d.%d", rapid.IntRange(0, 255).Draw(rt, "o3"), rapid.IntRange(1, 254).Draw(rt, "o4"))
		}
	default:
		toHost = rapid.SampledFrom([]string{"nomatch.example", "static-udp.tes", "xstatic-udp.test", "wudp.test", "staticXudp.test"}).Draw(rt, "tohost")
	}
	p.To = ANameAddr{URI: AURI{Scheme: "sip", User: gWord(rt, "touser"), Host: toHost, Port: gPort(rt, "toport")}, Display: gDisplay(rt, "todisplay", false)}
	p.From = ANameAddr{URI: AURI{Scheme: "sip", User: gWord(rt, "fromuser"), Host: "caller.example"}, Params: []AParam{{K: "tag", V: gWord(rt, "fromtag"), HasV: true}}}
	p.CallID = s.nextID("c03-")
	ua := s.uas[g.UA]
	trans := "UDP"
	if g.TCP {
		trans = "TCP"
	}
	p.Vias = []AVia{{Proto: "SIP", Ver: "2.0", Transport: trans, Host: ua.ip, Port: ua.port, Params: []AParam{{K: "branch", V: "z9hG4bK" + s.nextID("b"), HasV: true}}}}
	// Route
	next := func() ANameAddr {
		u := AURI{Scheme: "sip", Params: []AParam{{K: "lr"}}}
		switch cell.Trans {
		case 0:
			switch rapid.IntRange(0, 3).Draw(rt, "nexthop") {
			case 0:
				u.Host, u.Port = s.ip(25), rapid.SampledFrom([]int{5070, s.high}).Draw(rt, "nexthop port")
			case 1:
				u.Host, u.Port = "hop-c.test", 5070
			case 2:
				u.Host, u.Port = s.ip(25), 0 // default port 5060
			default:
				u.Host, u.Port = s.ip(25), 5070
				u.Params = append(u.Params, AParam{K: "transport", V: "udp", HasV: true})
			}
		case 1:
			u.Host, u.Port = s.ip(25), rapid.SampledFrom([]int{5070, 0}).Draw(rt, "tcpport")
			if rapid.Bool().Draw(rt, "byname") {
				u.Host = "hop-c.test"
			}
			u.Params = gInsertParam(rt, "tpos", u.Params, AParam{K: "transport", V: "tcp", HasV: true})
		default:
			u.Host, u.Port = s.ip(25), 5070
			u.Params = gInsertParam(rt, "tpos", u.Params, AParam{K: "transport", V: rapid.SampledFrom([]string{"tls", "sctp", "ws"}).Draw(rt, "unsupported"), HasV: true})
		}
		if rapid.Bool().Draw(rt, "nextuser") {
			u.User = gWord(rt, "nextuserv")
		}
		return ANameAddr{URI: u}
	}
	switch cell.Route {
	case 1:
		p.Routes = []ANameAddr{c03OwnRoute(rt, s, L)}
	case 2:
		p.Routes = []ANameAddr{c03OwnRoute(rt, s, L), next()}
	case 3:
		p.Routes = []ANameAddr{next()}
	}
	if cell.Route >= 2 && rapid.IntRange(0, 2).Draw(rt, "moreroutes") == 0 {
		p.Routes = append(p.Routes, ANameAddr{URI: AURI{Scheme: "sip", Host: "later.example", Params: []AParam{{K: "lr"}}}})
	}
	p.Ext = gExtHeaders(rt, "ext", 3, 0)
	p.Body = gBody(rt, "body", 30)
	return assemble(rt, "layout", p)
}

func c03Variants() []stdVariant {
	return []stdVariant{
		{Keep: "", Default: false},
		{Keep: "true", Default: false},
		{Keep: "false", Default: true},
		{Keep: "yes", Default: true},
	}
}

func TestC03(t *testing.T) {
	V.Rule("lab: the property's decision table {Route: none/own/own+next/next} x {To host: exact/wildcard/only default/none} x {Request-URI: name literal/regex-only/user@host/urn-tel/listener address:port/foreign} x {keep-next-hop-route on/off} x {next-hop transport udp/tcp/unsupported} enumerated cell by cell over 4 service instances started from generated YAML; each cell instantiated with rapid-generated users, ports, parameters, methods, aliases, extra headers, UDP or TCP ingress, any of the listen entries. Oracle: reference model (Route, then static route by To host, then service match, else drop); exactly one reception at the expected endpoint (any backend of the receiving listen entry for the backend outcome), nothing anywhere else after a FIFO barrier. non-trivial = >= 2 rules applicable (precedence decides) or a drop outcome; distinct by (instance, cell, message)")
	V.Assume("loopback delivery is effectively synchronous; a scheduling hiccup can only hide an extra copy (lost sensitivity), presence waits up to 20 s")
	V.Require("a request of a pinned dialog that matches none of the three rules", "a burst towards a tcp next hop the proxy had no connection to", "a tcp next hop that refuses connections, then accepts them", "outcome:route", "outcome:static", "outcome:backend", "outcome:drop", "precedence decides", "ingress:tcp", "unsupported transport dropped")
	k := V.N(8, 60)
	if V.replay {
		k = 0
	}
	variants := c03Variants()
	cellsCovered := map[string]bool{}
	// a fault history: the chosen destination cannot be reached, then it can
	fsvc, err := newStdSvc(stdVariant{})
	if err != nil {
		V.HarnessError(t, "cannot start lab instance: %v", err)
	}
	// a burst towards a TCP next hop the proxy has no connection to yet: every
	// request of the burst is sent to it, whatever the state of the connection
	// being set up when it is handled
	rcheck(t, "burst-to-fresh-hop", V.N(8, 80), func(rt *rapid.T) {
		s := fsvc
		l := s.in.cfg.Listens[0]
		ua := s.uas[rapid.IntRange(0, 3).Draw(rt, "ua")]
		s.seq++
		hip, hport := s.ip(26), 30000+s.seq%20000
		hop, err := s.in.hub.tcpEP("fresh-hop-tcp", hip, hport)
		if err != nil {
			V.HarnessError(rt, "hop cannot listen: %v", err)
		}
		defer hop.goDown()
		n := rapid.IntRange(10, 30).Draw(rt, "requests in the burst")
		send := func(b []byte) error { return ua.sendUDP(l.Addr, l.UDPPort, b) }
		var wires [][]byte
		ids := map[string]int{}
		for i := 0; i < n; i++ {
			id := s.nextID("burst-")
			ids[id] = 0
			wires = append(wires, []byte(fmt.Sprintf("MESSAGE sip:x@nomatch.example SIP/2.0\r\nVia: SIP/2.0/UDP %s:5060;branch=z9hG4bK%s\r\nMax-Forwards: 70\r\nRoute: <sip:%s:%d;transport=tcp;lr>\r\nFrom: <sip:a@a.example>;tag=f\r\nTo: <sip:x@nomatch.example>\r\nCall-ID: %s\r\nCSeq: 1 MESSAGE\r\nContent-Length: 0\r\n\r\n", ua.ip, id, hip, hport, id)))
		}
		s.model.learnRequest(s.model.transport(0, "udp"), ua.ip, &AMsg{IsReq: true, Hdrs: []AHdr{{Kind: hVia, Vias: []AVia{{Host: ua.ip}}}}})
		V.Journal(t.Name()+"/burst-to-fresh-hop", map[string]any{"hop": fmt.Sprintf("%s:%d", hip, hport), "requests": n})
		s.in.expect(wires...)
		for _, w := range wires {
			if err := send(w); err != nil {
				V.HarnessError(rt, "send: %v", err)
			}
		}
		rs, err := s.in.settle(send, n)
		if _, lost := err.(labLost); lost {
			failf(rt, "%v", err)
		} else if err != nil {
			V.HarnessError(rt, "%v", err)
		}
		V.Class("a burst towards a tcp next hop the proxy had no connection to")
		V.NonTrivial(fmt.Sprintf("burst|%d|%d", hport, n))
		V.EvalN(n)
		for _, r := range labMessages(rs) {
			id, _ := r.msg.First(hCallID)
			if _, mine := ids[id]; !mine {
				continue
			}
			if r.tcp == nil || r.ep != hop {
				failf(rt, "request %s of a burst of %d whose Route names %s:%d over TCP was delivered to %s", id, n, hip, hport, r.where())
			}
			ids[id]++
		}
		missing, twice := 0, 0
		for _, c := range ids {
			if c == 0 {
				missing++
			}
			if c > 1 {
				twice++
			}
		}
		if missing > 0 || twice > 0 {
			failf(rt, "a burst of %d requests, sent back to back over UDP, all with a Route naming the TCP element %s:%d (listening; the proxy had no connection to it yet): %d never arrived there, %d arrived more than once", n, hip, hport, missing, twice)
		}
	})
	// What the proxy remembers about a dialog (the backend that answered it) is no
	// fourth rule: a request of that dialog that matches none of the three rules -
	// no Route left, no static route for its To host, a Request-URI that is neither
	// the service nor the listener - is dropped like any other.
	rcheck(t, "in-dialog-no-rule", V.N(10, 100), func(rt *rapid.T) {
		s := fsvc
		entry := rapid.IntRange(0, 1).Draw(rt, "listen entry")
		l := s.in.cfg.Listens[entry]
		ua := s.uas[rapid.IntRange(0, 3).Draw(rt, "ua")]
		send := func(b []byte) error { return ua.sendUDP(l.Addr, l.UDPPort, b) }
		id := s.nextID("c03d-")
		mk := func(method, ruri, callID, toTag string, cseq int) []byte {
			to := "<sip:b@nomatch.example>"
			if toTag != "" {
				to += ";tag=" + toTag
			}
			return []byte(fmt.Sprintf("%s %s SIP/2.0\r\nVia: SIP/2.0/UDP %s:5060;branch=z9hG4bK%s-%d\r\nMax-Forwards: 70\r\nFrom: <sip:a@a.example>;tag=f%s\r\nTo: %s\r\nCall-ID: %s\r\nCSeq: %d %s\r\nContent-Length: 0\r\n\r\n", method, ruri, ua.ip, callID, cseq, id, to, callID, cseq, method))
		}
		one := func(wire []byte, min int) []labRx {
			s.model.learnRequest(s.model.transport(entry, "udp"), ua.ip, &AMsg{IsReq: true, Hdrs: []AHdr{{Kind: hVia, Vias: []AVia{{Host: ua.ip}}}}})
			s.in.expect(wire)
			if err := send(wire); err != nil {
				V.HarnessError(rt, "send: %v", err)
			}
			rs, err := s.in.settle(send, min)
			if _, lost := err.(labLost); lost {
				failf(rt, "%v", err)
			} else if err != nil {
				V.HarnessError(rt, "%v", err)
			}
			return labMessages(rs)
		}
		got := one(mk("INVITE", "sip:svc.test", id, "", 1), 1)
		if len(got) != 1 || got[0].tcp != nil || !s.isBackendOf(got[0].ep, entry, false) {
			return // the TCP backend's turn, or a misdelivery the decision table reports
		}
		bep := got[0].ep
		resp := buildResponse(got[0].msg, rapid.SampledFrom([]int{180, 200, 200}).Draw(rt, "answer"), "Answer", "t"+id, "")
		bsend := func(b []byte) error { return bep.sendUDP(l.Addr, l.UDPPort, b) }
		s.in.expect(resp)
		if err := bsend(resp); err != nil {
			V.HarnessError(rt, "backend send: %v", err)
		}
		if _, err := s.in.settle(bsend, 1); err != nil {
			if _, lost := err.(labLost); lost {
				failf(rt, "%v", err)
			}
			V.HarnessError(rt, "%v", err)
		}
		method := rapid.SampledFrom([]string{"BYE", "INFO", "INVITE", "UPDATE", "NOTIFY"}).Draw(rt, "in-dialog method")
		ruri := rapid.SampledFrom([]string{"sip:app@elsewhere.example:5070", "sip:b@" + bep.ip + ":5080", "sip:contact@198.51.100.7", "sips:app@elsewhere.example"}).Draw(rt, "request-uri")
		V.Journal(t.Name()+"/in-dialog-no-rule", map[string]any{"dialog": id, "pinned_to": bep.String(), "request": method + " " + ruri})
		V.Class("a request of a pinned dialog that matches none of the three rules")
		V.NonTrivial("nodlg|" + id)
		// control: the same request outside every dialog
		if got := one(mk(method, ruri, s.nextID("c03x-"), "tx", 2), 0); len(got) != 0 {
			failf(rt, "%s %s (no Route, To host without static route, Request-URI neither the service nor the listener) must be dropped; receptions:\n%s", method, ruri, labDescribe(got))
		}
		if got := one(mk(method, ruri, id, "t"+id, 2), 0); len(got) != 0 {
			failf(rt, "%s %s of the dialog %s (answered by backend %s) matches none of the three rules - no Route, To host without static route, Request-URI neither the service nor the listener - and must be dropped like the same request outside the dialog was; receptions:\n%s", method, ruri, id, bep, labDescribe(got))
		}
	})
	rcheck(t, "refusing-hop", V.N(10, 120), func(rt *rapid.T) {
		s := fsvc
		obs, ok, err := s.hopOutage(rt, t.Name()+"/refusing-hop", false)
		if _, lost := err.(labLost); lost {
			failf(rt, "%v\nhistory: %s", err, obs)
		} else if err != nil {
			V.HarnessError(rt, "%v", err)
		}
		if !ok {
			return
		}
		V.Class("a tcp next hop that refuses connections, then accepts them")
		V.NonTrivial("refusing|" + obs.String())
		V.SampleEvery(10, func() any { return obs })
		if f := hopDestination(obs); f != "" {
			failf(rt, "%s", f)
		}
	})
	for vi, v := range variants {
		svc, err := newStdSvc(v)
		if err != nil {
			V.HarnessError(t, "cannot start lab instance: %v", err)
		}
		if !v.Default && vi%2 == 1 {
			// on every other instance the usual next hops are elements the proxy has
			// heard from before (it then reaches them through the listener that
			// learned them): where a request goes is the same
			if err := svc.primeHops(); err != nil {
				V.HarnessError(t, "priming: %v", err)
			}
		}
		iname := fmt.Sprintf("keep=%q,default=%v", v.Keep, v.Default)
		for route := 0; route < 4; route++ {
			for to := 0; to < 3; to++ {
				for ruri := 0; ruri < 6; ruri++ {
					for trans := 0; trans < 3; trans++ {
						cell := c03Cell{route, to, ruri, trans}
						tname := fmt.Sprintf("i%d/%s", vi, cell)
						rcheck(t, tname, k, func(rt *rapid.T) {
							entries := []int{0, 1, 2}
							g := svc.gIngress(rt, "ingress", entries)
							msg := c03Build(rt, svc, cell, g)
							wire := msg.Bytes()
							L := svc.transportOf(g)
							send, srcIP, _, err := svc.sender(g)
							if err != nil {
								V.HarnessError(rt, "ingress: %v", err)
							}
							svc.model.learnRequest(L, srcIP, msg)
							exp := svc.model.route(L, msg)
							expText := exp.Rule
							if exp.Drop {
								expText += " -> drop (" + exp.Why + ")"
							} else if exp.ToBackend {
								expText += fmt.Sprintf(" -> a backend of listen entry %d", g.Entry)
							} else {
								expText += fmt.Sprintf(" -> %+v", exp.Hops)
							}
							V.Journal(t.Name()+"/"+tname, c03Case{iname, cell.String(), g, jsonBytes(wire), expText})
							svc.in.expect(wire)
							if err := send(wire); err != nil {
								V.HarnessError(rt, "send: %v", err)
							}
							min := 1
							if exp.Drop {
								min = 0
							}
							rs, err := svc.in.settle(send, min)
							if _, lost := err.(labLost); lost {
								failf(rt, "%v", err)
							} else if err != nil {
								V.HarnessError(rt, "%v", err)
							}
							got := labMessages(rs)
							// classes
							V.Class("outcome:" + map[bool]string{true: "drop", false: exp.Rule}[exp.Drop])
							V.ClassIf(exp.Applicable >= 2, "precedence decides")
							V.ClassIf(g.TCP, "ingress:tcp")
							V.ClassIf(exp.Drop && strings.Contains(exp.Why, "unsupported"), "unsupported transport dropped")
							cellsCovered[fmt.Sprintf("%s,keep=%v,default=%v", cell, svc.in.cfg.keepOn(), v.Default)] = true
							if exp.Applicable >= 2 || exp.Drop {
								V.NonTrivial(iname + "|" + cell.String() + "|" + string(wire))
							}
							V.SampleEvery(700, func() any { return c03Case{iname, cell.String(), g, jsonBytes(wire), expText} })
							// oracle
							if exp.Drop {
								if len(got) != 0 {
									failf(rt, "request must be dropped (%s) but was sent:\n%s", exp.Why, labDescribe(got))
								}
								return
							}
							if len(got) != 1 {
								failf(rt, "request must reach exactly one destination (%s); receptions:\n%s", expText, labDescribe(got))
							}
							r := got[0]
							if exp.ToBackend {
								if !svc.isBackendOf(r.ep, g.Entry, r.tcp != nil) {
									failf(rt, "request must reach a backend of listen entry %d; it arrived at %s", g.Entry, r.where())
								}
								return
							}
							ok := false
							for _, h := range exp.Hops {
								if matchHop(r, h) {
									ok = true
								}
							}
							if !ok {
								failf(rt, "request must be sent to %+v (rule %s); it arrived at %s", exp.Hops, exp.Rule, r.where())
							}
						})
					}
				}
			}
		}
	}
	V.Extra("decision_table_cells_covered", len(cellsCovered))
	V.Extra("decision_table_cells_total", 4*3*6*3*4)
}

//verif:needs core,sip,lab
package main

// C07 - received / rport record the packet's true source when enabled.
// Engine: lab, yaml mode only (the wiring of `no-received` from the YAML text
// to the listeners is part of the property). Oracle: the sender's Via entry at
// the next hop carries received=<true source IP> and, iff rport was asked for,
// rport=<true source port>, whatever the sender pre-filled; nothing else
// changes; the response then travels to the true source.

import (
	"fmt"
	"os"
	"strconv"
	"strings"
	"testing"

	"pgregory.net/rapid"
)

type c07Case struct {
	Instance int        `json:"instance"`
	Ingress  stdIngress `json:"ingress"`
	SrcPort  int        `json:"source_port"`
	TopVia   string     `json:"sender_via"`
	Stamp    bool       `json:"received_support"`
	Wire     string     `json:"wire"`
}

func (s *stdSvc) gSenderVia(rt *rapid.T, g stdIngress, fromPort int) AVia {
	v := AVia{Proto: "SIP", Ver: "2.0", Transport: map[bool]string{false: "UDP", true: "TCP"}[g.TCP]}
	switch rapid.IntRange(0, 4).Draw(rt, "sentby") {
	case 0:
		v.Host, v.Port = s.ip(10+g.UA), fromPort
	case 1:
		v.Host, v.Port = s.ip(10+(g.UA+1)%4), rapid.SampledFrom([]int{5060, 6010, s.high}).Draw(rt, "otherport") // another endpoint
	case 2:
		v.Host, v.Port = rapid.SampledFrom([]string{"ua-a.test", "ua-b.test"}).Draw(rt, "alias"), rapid.SampledFrom([]int{5060, 6010, 0}).Draw(rt, "aliasport")
	case 3:
		v.Host, v.Port = rapid.SampledFrom([]string{"nat-inside.example", "host.invalid"}).Draw(rt, "foreign"), rapid.SampledFrom([]int{5060, 0, 6010}).Draw(rt, "fport")
	default:
		v.Host, v.Port = s.ip(10+g.UA), rapid.SampledFrom([]int{5060, 6010, 0}).Draw(rt, "ownport")
	}
	v.Params = gParamList(rt, "vparams", 3, tokAlpha+"-.!%*_+`'~", viaParamReserved)
	v.Params = gInsertParam(rt, "bpos", v.Params, AParam{K: "branch", V: "z9hG4bK" + s.nextID("c07b"), HasV: true})
	switch rapid.IntRange(0, 3).Draw(rt, "rport") {
	case 0:
		v.Params = gInsertParam(rt, "rppos", v.Params, AParam{K: "rport"})
	case 1:
		v.Params = gInsertParam(rt, "rppos", v.Params, AParam{K: "rport", V: strconv.Itoa(rapid.SampledFrom([]int{5060, 6010, s.high}).Draw(rt, "spoofedrport")), HasV: true})
	}
	if rapid.IntRange(0, 2).Draw(rt, "received") == 0 {
		v.Params = gInsertParam(rt, "rcvpos", v.Params, AParam{K: "received", V: s.ip(10 + rapid.IntRange(0, 3).Draw(rt, "spoofedrcv")), HasV: true})
	}
	return v
}

func TestC07(t *testing.T) {
	V.Rule("lab (services started from generated YAML text, no-received absent / false / true per listen entry): requests from user agents at distinct loopback addresses over UDP (from port 5060, 6010 or one beyond 32767) and over accepted TCP connections, requests a TCP backend sends over the connection the proxy opened to it, and requests a TCP next hop sends over the connection the proxy opened to it on behalf of each of the three listen entries (their settings differ); the sender's top Via names its own or another endpoint, an alias or a foreign host, with rport absent / valueless / pre-filled with a wrong port, received absent / spoofed, further parameters around them, more Via entries beneath, laid out in any way; plus bursts of 2-40 requests sent back to back from several source sockets (each must be stamped with its own source). Oracle at the next hop: sender's entry = as sent with received=<source IP> (exactly one) and rport=<source port> iff rport was present; every other parameter and entry textually untouched; with received-support off the entry is textually the one sent. Then the backend answers and the response must arrive at (source IP, source port) if rport was requested, (source IP, sent-by port) otherwise, at the sent-by/received address as written when support is off, on the same connection for TCP. non-trivial = spoofed received or pre-filled rport, or sent-by different from the source; distinct by (instance, ingress, sender Via)")
	V.Require("source port beyond 32767", "engine:bin (real binary)", "support:on", "support:off", "ingress:udp", "ingress:tcp-accepted", "ingress:tcp-outbound-to-backend", "spoofed received", "pre-filled rport", "valueless rport", "no rport", "sent-by is another endpoint", "response returned to true source", "burst: >=2 sources interleaved")
	vars := []stdVariant{
		{NoReceived: [3]string{"", "false", "true"}},
		{NoReceived: [3]string{"true", "", "false"}, Keep: "on"},
	}
	var svcs []*stdSvc
	for _, v := range vars {
		s, err := newStdSvc(v)
		if err != nil {
			V.HarnessError(t, "cannot start lab instance: %v", err)
		}
		svcs = append(svcs, s)
	}

	active := svcs
	userAgents := func(rt *rapid.T) {
		vi := rapid.IntRange(0, len(active)-1).Draw(rt, "instance")
		s := active[vi]
		g := s.gIngress(rt, "ingress", []int{0, 1})
		L := s.transportOf(g)
		stamp := s.model.receivedSupport(g.Entry)
		// UDP: send from port 5060 or 6010 of the UA address
		var send func([]byte) error
		srcIP, srcPort := s.ip(10+g.UA), 0
		var srcEP *labEP
		if g.TCP {
			var err error
			send, srcIP, srcPort, err = s.sender(g)
			if err != nil {
				V.HarnessError(rt, "ingress: %v", err)
			}
		} else {
			srcEP = s.uas[g.UA]
			if rapid.Bool().Draw(rt, "from6010") {
				srcEP = s.uas2[g.UA]
				if rapid.Bool().Draw(rt, "from a port beyond 32767") {
					srcEP = s.uas3[g.UA]
					V.Class("source port beyond 32767")
				}
			}
			srcPort = srcEP.port
			l := s.in.cfg.Listens[g.Entry]
			send = func(b []byte) error { return srcEP.sendUDP(l.Addr, l.UDPPort, b) }
		}
		own := s.gSenderVia(rt, g, srcPort)
		p := msgParts{IsReq: true, Version: "SIP/2.0", Method: rapid.SampledFrom([]string{"INVITE", "OPTIONS", "MESSAGE", "REGISTER", "ACK", "CANCEL", "BYE", "PRACK", "UPDATE"}).Draw(rt, "method")}
		p.CSeqMethod, p.CSeqN = p.Method, rapid.IntRange(1, 9999).Draw(rt, "cseq")
		id := s.nextID("c07-")
		p.CallID = id
		p.RURI = s.gServiceRURI(rt, "ruri", L)
		p.From = ANameAddr{URI: AURI{Scheme: "sip", User: "u", Host: "ua.example"}, Params: []AParam{{K: "tag", V: "f" + id, HasV: true}}}
		p.To = ANameAddr{URI: AURI{Scheme: "sip", User: "svc", Host: "nomatch.example"}}
		p.Vias = []AVia{own}
		for i, n := 0, rapid.IntRange(0, 2).Draw(rt, "below"); i < n; i++ {
			p.Vias = append(p.Vias, gVia(rt, fmt.Sprintf("below%d", i), viaOpts{}))
		}
		p.Ext = gExtHeaders(rt, "ext", 2, 0)
		msg := assemble(rt, "layout", p)
		s.model.learnRequest(L, srcIP, msg)
		V.Journal(t.Name()+"/user-agents", c07Case{vi, g, srcPort, own.String(), stamp, jsonBytes(msg.Bytes())})
		s.in.expect(msg.Bytes())
		if err := send(msg.Bytes()); err != nil {
			V.HarnessError(rt, "send: %v", err)
		}
		rs, err := s.in.settle(send, 1)
		if _, lost := err.(labLost); lost {
			failf(rt, "%v", err)
		} else if err != nil {
			V.HarnessError(rt, "%v", err)
		}
		got := labMessages(rs)
		if len(got) != 1 || !s.isBackendOf(got[0].ep, g.Entry, got[0].tcp != nil) {
			failf(rt, "request must reach exactly one backend of listen entry %d; receptions:\n%s", g.Entry, labDescribe(got))
		}
		at := got[0]
		// classes
		_, rpHasV, hasRp := own.Param("rport")
		_, _, hasRcv := own.Param("received")
		V.ClassIf(stamp, "support:on")
		V.ClassIf(!stamp, "support:off")
		V.ClassIf(!g.TCP, "ingress:udp")
		V.ClassIf(g.TCP, "ingress:tcp-accepted")
		V.ClassIf(hasRcv, "spoofed received")
		V.ClassIf(hasRp && rpHasV, "pre-filled rport")
		V.ClassIf(hasRp && !rpHasV, "valueless rport")
		V.ClassIf(!hasRp, "no rport")
		V.ClassIf(own.Host != srcIP && isIPv4Literal(own.Host), "sent-by is another endpoint")
		if hasRcv || (hasRp && rpHasV) || own.Host != srcIP || own.Port != srcPort {
			V.NonTrivial(fmt.Sprintf("%d|%v|%s", vi, g, own.String()))
		}
		V.SampleEvery(200, func() any { return c07Case{vi, g, srcPort, own.String(), stamp, jsonBytes(msg.Bytes())} })
		// oracle 1: the Via stack at the backend
		outE := at.msg.Entries(hVia)
		if len(outE) != len(p.Vias)+1 {
			failf(rt, "backend must see the proxy's Via above the %d entries sent; it saw %q", len(p.Vias), outE)
		}
		if f := checkStamped(own, outE[1], stamp, srcIP, srcPort); f != "" {
			failf(rt, "listen entry %d (no-received: %q), packet from %s:%d: %s", g.Entry, s.in.cfg.Listens[g.Entry].NoReceived, srcIP, srcPort, f)
		}
		for i := 1; i < len(p.Vias); i++ {
			if outE[i+1] != p.Vias[i].String() {
				failf(rt, "Via entry %d beneath the sender's changed:\n in: %q\nout: %q", i, p.Vias[i].String(), outE[i+1])
			}
		}
		// oracle 2: the response goes to the true source
		resp := buildResponse(at.msg, 200, "OK", "t"+id, "")
		var bsend func([]byte) error
		if at.tcp != nil {
			bsend = at.tcp.send
		} else {
			pv, err := rVia(outE[0])
			if err != nil {
				failf(rt, "proxy's own Via unreadable: %q", outE[0])
			}
			ep := at.ep
			bsend = func(b []byte) error { return ep.sendUDP(pv.Host, pv.Port, b) }
		}
		stamped := stampModel(own, stamp, srcIP, srcPort)
		hop, ok := s.model.responseHop([]AVia{{}, stamped})
		s.in.expect(resp)
		if err := bsend(resp); err != nil {
			V.HarnessError(rt, "backend send: %v", err)
		}
		min := 0
		if ok || g.TCP {
			min = 1
		}
		rs, err = s.in.settle(bsend, min)
		if _, lost := err.(labLost); lost {
			failf(rt, "%v", err)
		} else if err != nil {
			V.HarnessError(rt, "%v", err)
		}
		got = labMessages(rs)
		if g.TCP {
			// connection affinity is C12's subject; here only: it must come back to this client
			c, _ := s.tcpClient(g.UA, g.Entry)
			if len(got) != 1 || got[0].tcp != c {
				if stamp {
					failf(rt, "response to a TCP request must return on the connection it came from; receptions:\n%s", labDescribe(got))
				}
			} else {
				V.Class("response returned to true source")
			}
			return
		}
		if !ok {
			if len(got) != 0 {
				failf(rt, "response has no usable return address (%+v) yet was relayed:\n%s", hop, labDescribe(got))
			}
			return
		}
		if len(got) != 1 || !matchHop(got[0], hop) {
			failf(rt, "received-support %v, packet came from %s:%d, sender's Via %q: response must go to %s:%d/%s; receptions:\n%s", stamp, srcIP, srcPort, own.String(), hop.IP, hop.Port, hop.Proto, labDescribe(got))
		}
		V.ClassIf(stamp && got[0].ep.ip == srcIP, "response returned to true source")
	}
	rcheck(t, "user-agents", V.N(1800, 10000), userAgents)

	// bin engine: the same property against the real binary started with the
	// generated YAML file (the wiring of no-received through main is the point)
	if os.Getenv("VERIF_BIN") != "" && !V.replay {
		var binSvcs []*stdSvc
		for _, v := range vars {
			v.Bin = true
			s, err := newStdSvc(v)
			if err != nil {
				V.HarnessError(t, "cannot start the binary: %v", err)
			}
			defer s.in.stopBin()
			binSvcs = append(binSvcs, s)
		}
		active = binSvcs
		rcheck(t, "bin-user-agents", V.N(150, 500), func(rt *rapid.T) {
			userAgents(rt)
			V.Class("engine:bin (real binary)")
		})
		for _, s := range binSvcs {
			if d := s.in.binDead(); d != "" {
				V.Violation(t, "", nil, "%s", d)
			}
		}
		active = svcs
	}

	// bursts: requests from several sources back to back, so that a datagram is
	// read from the socket before the previous one has been decoded
	rcheck(t, "bursts", V.N(150, 1200), func(rt *rapid.T) {
		s := svcs[0]
		entry := 0 // received-support on
		l := s.in.cfg.Listens[entry]
		k := rapid.IntRange(2, 40).Draw(rt, "requests")
		type sent struct {
			id      string
			src     *labEP
			own     AVia
			entries int
		}
		var plan []sent
		var wires [][]byte
		for i := 0; i < k; i++ {
			ua := rapid.IntRange(0, 3).Draw(rt, "ua")
			src := s.uas[ua]
			if rapid.Bool().Draw(rt, "from6010") {
				src = s.uas2[ua]
				if rapid.Bool().Draw(rt, "from a port beyond 32767") {
					src = s.uas3[ua]
				}
			}
			id := s.nextID("c07burst-")
			own := AVia{Proto: "SIP", Ver: "2.0", Transport: "UDP", Host: s.ip(10 + (ua+1)%4), Port: 5060, Params: []AParam{{K: "branch", V: "z9hG4bK" + id, HasV: true}, {K: "rport"}}}
			body := gFromAlphabet(rt, "body", "abcdef", 0, 300)
			wire := fmt.Sprintf("MESSAGE sip:svc.test SIP/2.0\r\nVia: %s\r\nFrom: <sip:a@b>;tag=1\r\nTo: <sip:svc@nomatch.example>\r\nCall-ID: %s\r\nCSeq: 1 MESSAGE\r\nContent-Length: %d\r\n\r\n%s", own.String(), id, len(body), body)
			plan = append(plan, sent{id: id, src: src, own: own})
			wires = append(wires, []byte(wire))
			s.model.learnRequest(s.model.transport(entry, "udp"), src.ip, &AMsg{IsReq: true, Hdrs: []AHdr{{Kind: hVia, Vias: []AVia{own}}}})
		}
		desc := []string{}
		for _, p := range plan {
			desc = append(desc, fmt.Sprintf("%s from %s:%d", p.id, p.src.ip, p.src.port))
		}
		V.Journal(t.Name()+"/bursts", desc)
		s.in.expect(wires...)
		for i, p := range plan {
			if err := p.src.sendUDP(l.Addr, l.UDPPort, wires[i]); err != nil {
				V.HarnessError(rt, "send: %v", err)
			}
		}
		// one barrier per source socket used (each source is FIFO)
		var got []labRx
		seenSrc := map[*labEP]bool{}
		for _, p := range plan {
			if seenSrc[p.src] {
				continue
			}
			seenSrc[p.src] = true
			src := p.src
			// presence waits: the first barrier round waits (up to 20 s) until every
			// request of the burst has arrived somewhere
			min := 0
			if len(seenSrc) == 1 {
				min = len(plan)
			}
			rs, err := s.in.settle(func(b []byte) error { return src.sendUDP(l.Addr, l.UDPPort, b) }, min)
			if _, lost := err.(labLost); lost {
				failf(rt, "%v", err)
			} else if err != nil {
				V.HarnessError(rt, "%v", err)
			}
			got = append(got, labMessages(rs)...)
		}
		V.Class("burst from several sources")
		V.ClassIf(len(seenSrc) >= 2, "burst: >=2 sources interleaved")
		V.NonTrivial(strings.Join(desc, "|"))
		V.SampleEvery(20, func() any { return desc })
		byID := map[string][]labRx{}
		for _, r := range got {
			id, _ := r.msg.First(hCallID)
			byID[id] = append(byID[id], r)
		}
		for _, p := range plan {
			rs := byID[p.id]
			if len(rs) != 1 {
				failf(rt, "request %s of a burst of %d was relayed %d times (want once, to a backend)\nburst: %v", p.id, k, len(rs), desc)
			}
			outE := rs[0].msg.Entries(hVia)
			if len(outE) != 2 {
				failf(rt, "request %s arrived with Via entries %q", p.id, outE)
			}
			if f := checkStamped(p.own, outE[1], true, p.src.ip, p.src.port); f != "" {
				failf(rt, "request %s sent from %s:%d inside a burst of %d requests from %d sources: %s\nburst: %v", p.id, p.src.ip, p.src.port, k, len(seenSrc), f, desc)
			}
		}
	})

	c07HopConnections(t, svcs)

	rcheck(t, "backend-connection", V.N(400, 3000), func(rt *rapid.T) {
		vi := rapid.IntRange(0, len(svcs)-1).Draw(rt, "instance")
		s := svcs[vi]
		// the proxy's outbound connection to the TCP backend of listen entry 0
		conn, err := s.backendConn()
		if err != nil {
			failf(rt, "%v", err)
		}
		stamp := s.model.receivedSupport(0)
		bip, bport := splitHostPort(conn.local)
		g := stdIngress{UA: 0, Entry: 0, TCP: true}
		own := s.gSenderVia(rt, g, bport)
		own.Host = rapid.SampledFrom([]string{bip, "backend.internal.example", s.ip(12)}).Draw(rt, "bsentby")
		// a request of the backend's own, routed to a user agent by Route
		ua := rapid.IntRange(0, 3).Draw(rt, "toua")
		uaport := rapid.SampledFrom([]int{5060, 6010}).Draw(rt, "touaport")
		p := msgParts{IsReq: true, Version: "SIP/2.0", Method: rapid.SampledFrom([]string{"NOTIFY", "SUBSCRIBE", "OPTIONS", "BYE", "ACK", "CANCEL"}).Draw(rt, "method")}
		p.CSeqMethod, p.CSeqN = p.Method, rapid.IntRange(1, 9999).Draw(rt, "cseq")
		p.CallID = s.nextID("c07b-")
		p.RURI = AURI{Scheme: "sip", User: "u", Host: s.ip(10 + ua), Port: uaport}
		p.From = ANameAddr{URI: AURI{Scheme: "sip", User: "svc", Host: "backend.example"}, Params: []AParam{{K: "tag", V: "b" + p.CallID, HasV: true}}}
		p.To = ANameAddr{URI: AURI{Scheme: "sip", User: "u", Host: "nomatch.example"}}
		p.Routes = []ANameAddr{{URI: AURI{Scheme: "sip", Host: s.ip(10 + ua), Port: uaport, Params: []AParam{{K: "lr"}}}}}
		p.Vias = []AVia{own}
		msg := assemble(rt, "layout", p)
		// learning: the request is received through the per-connection listener (address = local side of the proxy's connection)
		V.Journal(t.Name()+"/backend-connection", c07Case{vi, g, bport, own.String(), stamp, jsonBytes(msg.Bytes())})
		s.in.expect(msg.Bytes())
		if err := conn.send(msg.Bytes()); err != nil {
			V.HarnessError(rt, "send over the backend connection: %v", err)
		}
		rs, err := s.in.settle(conn.sendStrict, 1)
		if _, lost := err.(labLost); lost {
			failf(rt, "%v", err)
		} else if err != nil {
			V.HarnessError(rt, "%v", err)
		}
		got := labMessages(rs)
		if len(got) != 1 || got[0].ep == nil || got[0].ep.ip != s.ip(10+ua) || got[0].ep.port != uaport || got[0].tcp != nil {
			failf(rt, "the backend's request must be relayed to %s:%d by its Route; receptions:\n%s", s.ip(10+ua), uaport, labDescribe(got))
		}
		V.Class("ingress:tcp-outbound-to-backend")
		V.ClassIf(stamp, "support:on")
		V.ClassIf(!stamp, "support:off")
		V.NonTrivial(fmt.Sprintf("b|%d|%s", vi, own.String()))
		outE := got[0].msg.Entries(hVia)
		// the sender's entry is the last one (a Via may or may not have been pushed above it)
		if len(outE) < 1 {
			failf(rt, "relayed request lost its Via")
		}
		if f := checkStamped(own, outE[len(outE)-1], stamp, bip, bport); f != "" {
			failf(rt, "request received over the proxy's own connection to backend %s (listen entry 0, no-received: %q): %s", conn.local, s.in.cfg.Listens[0].NoReceived, f)
		}
	})
}

// c07HopConnections: requests that arrive over a connection the proxy itself
// opened towards a TCP next hop - for every listen entry (each has its own
// setting): a user agent's request enters listen entry e and is routed to the
// TCP hop, which then sends a request of its own back over that connection.
func c07HopConnections(t *testing.T, svcs []*stdSvc) {
	V.Require("ingress:tcp-outbound-to-next-hop", "ingress:tcp-outbound-to-next-hop of a later listen entry")
	rcheck(t, "hop-connection", V.N(300, 2500), func(rt *rapid.T) {
		vi := rapid.IntRange(0, len(svcs)-1).Draw(rt, "instance")
		s := svcs[vi]
		entry := rapid.IntRange(0, 2).Draw(rt, "entry")
		l := s.in.cfg.Listens[entry]
		stamp := s.model.receivedSupport(entry)
		ua := s.uas[rapid.IntRange(0, 3).Draw(rt, "ua")]
		hopIP, hopPort := s.ip(25), rapid.SampledFrom([]int{5070, 5061}).Draw(rt, "hop port")
		// 1. a request through listen entry e to the TCP hop
		id := s.nextID("c07h-")
		wire := []byte(fmt.Sprintf("OPTIONS sip:x@elsewhere.example SIP/2.0\r\nVia: SIP/2.0/UDP %s:5060;branch=z9hG4bK%s\r\nRoute: <sip:%s:%d;transport=tcp;lr>\r\nFrom: <sip:a@b>;tag=1\r\nTo: <sip:x@elsewhere.example>\r\nCall-ID: %s\r\nCSeq: 1 OPTIONS\r\nContent-Length: 0\r\n\r\n", ua.ip, id, hopIP, hopPort, id))
		s.model.learnRequest(s.model.transport(entry, "udp"), ua.ip, &AMsg{IsReq: true, Hdrs: []AHdr{{Kind: hVia, Vias: []AVia{{Host: ua.ip}}}}})
		send := func(b []byte) error { return ua.sendUDP(l.Addr, l.UDPPort, b) }
		V.Journal(t.Name()+"/hop-connection", map[string]any{"instance": vi, "entry": entry, "hop": fmt.Sprintf("%s:%d", hopIP, hopPort)})
		s.in.expect(wire)
		send(wire)
		rs, err := s.in.settle(send, 1)
		if _, lost := err.(labLost); lost {
			failf(rt, "%v", err)
		} else if err != nil {
			V.HarnessError(rt, "%v", err)
		}
		got := labMessages(rs)
		if len(got) != 1 || got[0].tcp == nil || got[0].ep == nil || got[0].ep.ip != hopIP || got[0].ep.port != hopPort {
			return // where a request goes is C03's subject
		}
		conn := got[0].tcp
		// 2. the hop's own request over that connection, routed to a user agent
		toUA := rapid.IntRange(0, 3).Draw(rt, "toua")
		own := s.gSenderVia(rt, stdIngress{UA: 0, Entry: entry, TCP: true}, hopPort)
		own.Host = rapid.SampledFrom([]string{hopIP, "hop.internal.example", s.ip(12)}).Draw(rt, "hop sent-by")
		p := msgParts{IsReq: true, Version: "SIP/2.0", Method: rapid.SampledFrom([]string{"NOTIFY", "OPTIONS", "MESSAGE", "BYE", "ACK"}).Draw(rt, "method")}
		p.CSeqMethod, p.CSeqN = p.Method, rapid.IntRange(1, 9999).Draw(rt, "cseq")
		p.CallID = s.nextID("c07hr-")
		p.RURI = AURI{Scheme: "sip", User: "u", Host: s.ip(10 + toUA), Port: 6010}
		p.From = ANameAddr{URI: AURI{Scheme: "sip", User: "hop", Host: "hop.example"}, Params: []AParam{{K: "tag", V: "h" + p.CallID, HasV: true}}}
		p.To = ANameAddr{URI: AURI{Scheme: "sip", User: "u", Host: "nomatch.example"}}
		p.Routes = []ANameAddr{{URI: AURI{Scheme: "sip", Host: s.ip(10 + toUA), Port: 6010, Params: []AParam{{K: "lr"}}}}}
		p.Vias = []AVia{own}
		msg := assemble(rt, "layout", p)
		V.Journal(t.Name()+"/hop-connection", c07Case{vi, stdIngress{Entry: entry, TCP: true}, hopPort, own.String(), stamp, jsonBytes(msg.Bytes())})
		s.in.expect(msg.Bytes())
		if err := conn.sendStrict(msg.Bytes()); err != nil {
			failf(rt, "%v", err)
		}
		rs, err = s.in.settle(conn.sendStrict, 1)
		if _, lost := err.(labLost); lost {
			failf(rt, "%v", err)
		} else if err != nil {
			V.HarnessError(rt, "%v", err)
		}
		got = labMessages(rs)
		if len(got) != 1 || got[0].ep == nil || got[0].ep.ip != s.ip(10+toUA) || got[0].ep.port != 6010 || got[0].tcp != nil {
			failf(rt, "the next hop's own request, sent over the connection the proxy opened to it for listen entry %d, must be relayed to %s:6010 by its Route; receptions:\n%s", entry, s.ip(10+toUA), labDescribe(got))
		}
		V.Class("ingress:tcp-outbound-to-next-hop")
		V.ClassIf(entry > 0, "ingress:tcp-outbound-to-next-hop of a later listen entry")
		V.ClassIf(stamp, "support:on")
		V.ClassIf(!stamp, "support:off")
		V.NonTrivial(fmt.Sprintf("h|%d|%d|%s", vi, entry, own.String()))
		outE := got[0].msg.Entries(hVia)
		if len(outE) < 1 {
			failf(rt, "relayed request lost its Via")
		}
		if f := checkStamped(own, outE[len(outE)-1], stamp, hopIP, hopPort); f != "" {
			failf(rt, "request received over the connection the proxy opened to the next hop %s:%d for listen entry %d (no-received: %q): %s", hopIP, hopPort, entry, l.NoReceived, f)
		}
	})
}

// backendConn returns the connection the proxy opened to the TCP backend of
// listen entry 0 (driving unpinned requests until the rotation reaches it).
func (s *stdSvc) backendConn() (*labTCPConn, error) {
	var ep *labEP
	for _, e := range s.eps {
		if e.tcpL != nil && e.name == "backend-tcp" {
			ep = e
		}
	}
	if ep == nil {
		return nil, fmt.Errorf("harness: no TCP backend endpoint")
	}
	live := func() *labTCPConn {
		ep.mu.Lock()
		defer ep.mu.Unlock()
		for i := len(ep.accs) - 1; i >= 0; i-- {
			if !ep.accs[i].isDead() {
				return ep.accs[i]
			}
		}
		return nil
	}
	if c := live(); c != nil {
		return c, nil
	}
	ua := s.uas[3]
	l := s.in.cfg.Listens[0]
	send := func(b []byte) error { return ua.sendUDP(l.Addr, l.UDPPort, b) }
	for i := 0; i < 6; i++ {
		id := s.nextID("open")
		msg := fmt.Sprintf("OPTIONS sip:svc.test SIP/2.0\r\nVia: SIP/2.0/UDP %s:5060;branch=z9hG4bK%s\r\nFrom: <sip:a@b>;tag=1\r\nTo: <sip:svc@nomatch.example>\r\nCall-ID: %s\r\nCSeq: 1 OPTIONS\r\nContent-Length: 0\r\n\r\n", ua.ip, id, id)
		s.model.learnRequest(s.model.transport(0, "udp"), ua.ip, &AMsg{IsReq: true, Hdrs: []AHdr{{Kind: hVia, Vias: []AVia{{Host: ua.ip}}}}})
		if err := send([]byte(msg)); err != nil {
			return nil, err
		}
		if _, err := s.in.settle(send, 1); err != nil {
			return nil, err
		}
		if c := live(); c != nil {
			return c, nil
		}
	}
	return nil, labLost{"six unpinned requests in a row never reached the TCP backend of listen entry 0 (3 backends in rotation)"}
}

var _ = strings.Contains

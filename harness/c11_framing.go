//verif:needs core,sip,prod,lab
package main

// C11 - TCP framing depends on the bytes, not on how the stream is segmented.
// Engine: unit (scripted chunking reader under the product's own receive
// loop shape: one bufio.Reader, ParseMessage until error). Oracle: the
// decoded sequence equals the generated sequence for every segmentation.

import (
	"bufio"
	"bytes"
	"fmt"
	"io"
	"net"
	"sort"
	"strings"
	"sync"
	"testing"
	"time"

	"pgregory.net/rapid"
)

type segReader struct {
	data []byte
	cuts []int // sorted cut offsets
	pos  int
	ci   int
}

func (s *segReader) Read(p []byte) (int, error) {
	if s.pos >= len(s.data) {
		return 0, io.EOF
	}
	end := len(s.data)
	for s.ci < len(s.cuts) && s.cuts[s.ci] <= s.pos {
		s.ci++
	}
	if s.ci < len(s.cuts) && s.cuts[s.ci] < end {
		end = s.cuts[s.ci]
	}
	n := copy(p, s.data[s.pos:end])
	s.pos += n
	return n, nil
}

// c11Decode runs the product's receive loop over the segmented stream.
func c11Decode(stream []byte, cuts []int) ([]*Message, error) {
	r := bufio.NewReader(&segReader{data: stream, cuts: cuts})
	var out []*Message
	for {
		m, err := ParseMessage(r)
		if err != nil {
			return out, err
		}
		out = append(out, m)
		if len(out) > 64 {
			return out, fmt.Errorf("more than 64 messages decoded")
		}
	}
}

func c11Check(exp []*AMsg, stream []byte, cuts []int) string {
	got, err := c11Decode(stream, cuts)
	if len(got) != len(exp) {
		return fmt.Sprintf("%d messages decoded, want %d (loop ended with: %v); cuts=%v", len(got), len(exp), err, c11ShortCuts(cuts))
	}
	for i := range exp {
		if d := prodEqual(exp[i], got[i]); d != "" {
			return fmt.Sprintf("message %d of %d: %s; cuts=%v", i+1, len(exp), d, c11ShortCuts(cuts))
		}
	}
	return ""
}

func c11ShortCuts(c []int) any {
	if len(c) > 24 {
		return fmt.Sprintf("%v...(%d cuts)", c[:24], len(c))
	}
	return c
}

type c11Stream struct {
	msgs   []*AMsg
	bytes  []byte
	starts []int // offset of each message's first byte
	bodies []int // offset of each body start
}

func c11Build(rt *rapid.T, n int, o anyOpts) *c11Stream {
	s := &c11Stream{}
	ka := func(label string) {
		k := rapid.IntRange(0, 6).Draw(rt, label)
		if k > 3 {
			k = 0
		}
		for i := 0; i < k; i++ {
			s.bytes = append(s.bytes, rapid.SampledFrom([]string{"\r\n", "\r\n", "\r\n\r\n", "\n"}).Draw(rt, label+".ka")...)
		}
	}
	for i := 0; i < n; i++ {
		ka("keepalive")
		m := gAnyMsg(rt, fmt.Sprintf("m%d", i), o)
		b := m.Bytes()
		s.starts = append(s.starts, len(s.bytes))
		s.bodies = append(s.bodies, len(s.bytes)+len(b)-len(m.Body))
		s.bytes = append(s.bytes, b...)
		s.msgs = append(s.msgs, m)
	}
	ka("trailing")
	return s
}

func (s *c11Stream) maxLine() int {
	max, cur := 0, 0
	for _, c := range s.bytes {
		cur++
		if c == '\n' {
			if cur > max {
				max = cur
			}
			cur = 0
		}
	}
	return max
}

func (s *c11Stream) desc(cuts []int) map[string]any {
	d := map[string]any{"messages": len(s.msgs), "stream_len": len(s.bytes), "max_line": s.maxLine(), "cuts": c11ShortCuts(cuts)}
	if len(s.bytes) <= 1500 {
		d["stream"] = jsonBytes(s.bytes)
	} else {
		sum := []any{}
		for _, m := range s.msgs {
			sum = append(sum, m.Summary())
		}
		d["summary"] = sum
	}
	return d
}

// interesting offsets: around every CR/LF, every 4096 multiple, every body start.
func (s *c11Stream) hotOffsets() []int {
	set := map[int]bool{}
	add := func(o int) {
		for d := -1; d <= 1; d++ {
			if o+d > 0 && o+d < len(s.bytes) {
				set[o+d] = true
			}
		}
	}
	for i, c := range s.bytes {
		if c == '\r' || c == '\n' {
			add(i)
			add(i + 1)
		}
		if i%4096 == 0 {
			add(i)
		}
		if len(set) > 4000 {
			break
		}
	}
	for _, b := range s.bodies {
		add(b)
	}
	for _, b := range s.starts {
		add(b)
	}
	out := make([]int, 0, len(set))
	for o := range set {
		out = append(out, o)
	}
	sort.Ints(out)
	return out
}

// c11Regress: a saved stream and cut list; the expectation is the independent
// reader's sequence of messages for the whole stream.
func c11Regress(c regressCase) string {
	if c.S("kind") != "stream" {
		return "skip: kind " + c.S("kind")
	}
	stream := []byte(c.S("wire"))
	if n := c.I("repeat_header_value_to"); n > 0 {
		// (long lines are stored compactly: the marker {LONG} stands for n bytes 'v')
		stream = bytes.ReplaceAll(stream, []byte("{LONG}"), bytes.Repeat([]byte("v"), n))
	}
	var exp []*RMsg
	rd := bufio.NewReaderSize(bytes.NewReader(stream), 1<<20)
	for {
		m, err := sipReadStream(rd)
		if err == io.EOF {
			break
		}
		if err != nil {
			return "skip: saved stream is not a sequence of well-formed messages for the independent reader: " + err.Error()
		}
		exp = append(exp, m)
	}
	cutSets := [][]int{c.Ints("cuts"), nil}
	var every []int
	for i := 1; i < len(stream); i++ {
		every = append(every, i)
	}
	cutSets = append(cutSets, every) // one byte per read
	for _, cuts := range cutSets {
		got, err := c11Decode(stream, cuts)
		if len(got) != len(exp) {
			return fmt.Sprintf("%d messages decoded, want %d (loop ended with: %v); cuts=%v", len(got), len(exp), err, c11ShortCuts(cuts))
		}
		for i := range exp {
			if d := prodEqualR(exp[i], got[i]); d != "" {
				return fmt.Sprintf("message %d of %d: %s; cuts=%v", i+1, len(exp), d, c11ShortCuts(cuts))
			}
		}
	}
	return ""
}

func TestC11(t *testing.T) {
	V.Rule("lab: besides client streams to the listeners, the response streams the proxy reads from TCP connections it opened itself (2-6 statically routed requests reuse one connection to a harness hop, which writes all responses back as one stream in scripted segments; each must reach the user agent once, intact). unit: concatenations of 1-8 generated messages (tiny ones for complete cut enumeration; large ones with header lines up to 20 KiB clustered around the 4096/8192 reader window, bodies up to 60 KiB incl. SIP-looking text and bodies ending in CR/LF, CRLF or LF line ends, 0-3 keep-alive CRLFs around them) decoded through the product's receive loop from a scripted reader that returns exactly the chosen segments; every header-line length within 20 bytes of the first five multiples of the 4096-byte reader window (CRLF and LF, three positions, three segmentations); all single and double cuts for short streams, recipe-generated multi-cuts (random, 1-byte runs, fixed sizes, cuts around every CR/LF/window/body boundary) otherwise; non-trivial = >=2 messages with a cut inside a header line or CRLF, or a line longer than the 4096-byte window; distinct by (stream, segmentation recipe)")
	V.Assume("header values are compared modulo surrounding SP/HTAB")
	V.Require("window-length enumeration", ">=2 messages", "line > 4096 bytes", "cut inside CRLF", "LF-only message", "keep-alive present")

	// every header-line length around the multiples of the reader's 4096-byte
	// window (the line reader works in window-sized fragments: what matters is
	// the line length modulo the window), both line ends, long line first /
	// in the middle / last, a few segmentations
	V.Regress(t, c11Regress)
	t.Run("window-lengths", func(t *testing.T) {
		if V.replay && V.only == "" {
			return
		}
		n := 0
		for k := 1; k <= 5; k++ {
			for d := -20; d <= 20; d++ {
				for _, eol := range []string{"\r\n", "\n"} {
					for pos := 0; pos < 3; pos++ {
						lineLen := k*4096 + d // including the line end
						name := "X-Long"
						valLen := lineLen - len(name) - 2 - len(eol)
						long := AHdr{Kind: hExt, Name: name, SP: " ", Value: strings.Repeat("v", valLen-1) + "w"}
						mk := func(id string, withLong bool) *AMsg {
							m := &AMsg{IsReq: true, Method: "MESSAGE", RURI: AURI{Scheme: "sip", Host: "h.test"}, Version: "SIP/2.0", EOL: eol, Body: []byte("body-" + id)}
							hs := []AHdr{{Kind: hVia, Name: "Via", SP: " ", Vias: []AVia{{Proto: "SIP", Ver: "2.0", Transport: "TCP", Host: "h"}}},
								{Kind: hCallID, Name: "Call-ID", SP: " ", Value: id}, {Kind: hCL, Name: "Content-Length", SP: " "}, {Kind: hExt, Name: "Subject", SP: " ", Value: "after " + id}}
							if withLong {
								switch pos {
								case 0:
									hs = append([]AHdr{long}, hs...)
								case 1:
									hs = append(hs[:2:2], append([]AHdr{long}, hs[2:]...)...)
								default:
									hs = append(hs, long)
								}
							}
							m.Hdrs = hs
							return m
						}
						msgs := []*AMsg{mk("a", false), mk("b", true), mk("c", false)}
						var stream []byte
						for _, m := range msgs {
							stream = append(stream, m.Bytes()...)
						}
						desc := fmt.Sprintf("line=%d eol=%q pos=%d", lineLen, eol, pos)
						if !V.OnlyMatch(desc) {
							continue
						}
						start := len(msgs[0].Bytes())
						segs := [][]int{nil, {start + lineLen - 2, start + lineLen - 1, start + lineLen}}
						var fixed []int
						for i := 4096; i < len(stream); i += 4096 {
							fixed = append(fixed, i)
						}
						segs = append(segs, fixed)
						for _, cuts := range segs {
							n++
							V.Eval()
							if msg := c11Check(msgs, stream, cuts); msg != "" {
								V.Violation(t, desc, map[string]any{"header_line_bytes_including_line_end": lineLen, "eol": eol, "long_header_position": pos, "cuts": cuts}, "a header line of %d bytes (line end %q, position %d): %s", lineLen, eol, pos, msg)
								return
							}
						}
						V.Class("line > 4096 bytes")
						V.NonTrivial("w|" + desc)
					}
				}
			}
		}
		V.Class("window-length enumeration")
		V.Extra("window_length_decodes", n)
	})

	rcheck(t, "tiny-all-cuts", V.N(100, 1200), func(rt *rapid.T) {
		n := rapid.IntRange(1, 3).Draw(rt, "nmsgs")
		s := c11Build(rt, n, anyOpts{Tiny: true, AllowLF: true})
		L := len(s.bytes)
		V.Case(s.desc(nil))
		if msg := c11Check(s.msgs, s.bytes, nil); msg != "" {
			failf(rt, "unsegmented stream: %s", msg)
		}
		segs := 0
		for i := 1; i < L; i++ {
			segs++
			if msg := c11Check(s.msgs, s.bytes, []int{i}); msg != "" {
				V.Case(s.desc([]int{i}))
				failf(rt, "%s", msg)
			}
		}
		stride := 1
		if L > 220 {
			stride = L / 110
		}
		for i := 1; i < L; i += stride {
			for j := i + 1; j < L; j += stride {
				segs++
				if msg := c11Check(s.msgs, s.bytes, []int{i, j}); msg != "" {
					V.Case(s.desc([]int{i, j}))
					failf(rt, "%s", msg)
				}
			}
		}
		V.EvalN(segs)
		V.ExtraAdd("segmentations_tried", int64(segs))
		V.ClassIf(stride == 1, "all double cuts enumerated")
		V.ClassIf(n >= 2, ">=2 messages")
		V.Class("cut inside CRLF")
		for _, m := range s.msgs {
			V.ClassIf(m.EOL == "\n", "LF-only message")
		}
		V.ClassIf(s.starts[0] > 0 || len(s.bytes) > s.bodies[len(s.bodies)-1]+len(s.msgs[len(s.msgs)-1].Body), "keep-alive present")
		if n >= 2 {
			V.NonTrivial(string(s.bytes))
		}
		V.SampleEvery(120, func() any { return s.desc(nil) })
	})

	rcheck(t, "large-recipes", V.N(250, 3000), func(rt *rapid.T) {
		n := rapid.IntRange(1, 8).Draw(rt, "nmsgs")
		s := c11Build(rt, n, anyOpts{MaxExt: 12, MaxLong: 20000, MaxBody: 60000, AllowLF: true})
		L := len(s.bytes)
		hot := s.hotOffsets()
		nrec := rapid.IntRange(8, 40).Draw(rt, "recipes")
		maxLine := s.maxLine()
		V.ClassIf(n >= 2, ">=2 messages")
		V.ClassIf(maxLine > 4096, "line > 4096 bytes")
		V.ClassIf(maxLine > 8192, "line > 8192 bytes")
		for _, m := range s.msgs {
			V.ClassIf(m.EOL == "\n", "LF-only message")
			V.ClassIf(len(m.Body) > 4096, "body > 4096 bytes")
		}
		V.SampleEvery(100, func() any { return s.desc(nil) })
		V.Case(s.desc(nil))
		if msg := c11Check(s.msgs, s.bytes, nil); msg != "" {
			failf(rt, "unsegmented stream: %s", msg)
		}
		for r := 0; r < nrec; r++ {
			var cuts []int
			kind := rapid.IntRange(0, 5).Draw(rt, "recipe")
			switch kind {
			case 0: // k random cuts
				k := rapid.IntRange(1, 200).Draw(rt, "k")
				for i := 0; i < k && L > 1; i++ {
					cuts = append(cuts, rapid.IntRange(1, L-1).Draw(rt, "cut"))
				}
			case 1: // a run of 1-byte segments
				if L > 1 {
					a := rapid.IntRange(1, L-1).Draw(rt, "from")
					b := a + rapid.IntRange(1, 300).Draw(rt, "run")
					for i := a; i < b && i < L; i++ {
						cuts = append(cuts, i)
					}
				}
			case 2: // fixed segment size
				sz := rapid.SampledFrom([]int{1, 2, 3, 7, 16, 100, 536, 1460, 4095, 4096, 4097, 8192}).Draw(rt, "size")
				if sz == 1 && L > 6000 {
					sz = 3
				}
				for i := sz; i < L; i += sz {
					cuts = append(cuts, i)
				}
			case 3: // cuts at hot offsets (around CR, LF, window, body start)
				k := rapid.IntRange(1, 30).Draw(rt, "k")
				for i := 0; i < k && len(hot) > 0; i++ {
					cuts = append(cuts, hot[rapid.IntRange(0, len(hot)-1).Draw(rt, "hot")])
				}
				V.Class("cut inside CRLF")
			case 4: // every hot offset
				cuts = append(cuts, hot...)
				V.Class("cut inside CRLF")
			default: // one cut inside the first long line
				if L > 1 {
					cuts = []int{rapid.IntRange(1, L-1).Draw(rt, "cut")}
				}
			}
			sort.Ints(cuts)
			V.Eval()
			V.Class(fmt.Sprintf("recipe:%d", kind))
			if n >= 2 || maxLine > 4096 {
				V.NonTrivial(fmt.Sprintf("%x|%d|%v", hash64(string(s.bytes)), kind, c11ShortCuts(cuts)))
			}
			if msg := c11Check(s.msgs, s.bytes, cuts); msg != "" {
				V.Case(s.desc(cuts))
				failf(rt, "%s", msg)
			}
		}
	})

	c11Lab(t)
}

// c11Lab: a real TCP client writes generated streams in scripted segments
// (TCP_NODELAY, a pause between writes) to the real accept/receive goroutines;
// the backends must receive exactly those messages, each intact.
func c11Lab(t *testing.T) {
	V.Require("lab: other peers aborted in the middle of an over-long header line just before", "lab: segmented stream relayed intact", "lab: a pause of about a second between two segments")
	svc, err := newStdSvc(stdVariant{})
	if err != nil {
		V.HarnessError(t, "cannot start lab instance: %v", err)
	}
	s := svc
	rcheck(t, "lab-segments", V.N(40, 500), func(rt *rapid.T) {
		entry := rapid.IntRange(0, 1).Draw(rt, "entry")
		l := s.in.cfg.Listens[entry]
		n := rapid.IntRange(1, 6).Draw(rt, "messages")
		aborted := rapid.IntRange(0, 5).Draw(rt, "other peers abort in the middle of an over-long header line just before") == 0
		var msgs []*AMsg
		var stream []byte
		var wires [][]byte
		for i := 0; i < n; i++ {
			for k := rapid.IntRange(0, 4).Draw(rt, "keepalive"); k > 2; k-- {
				stream = append(stream, "\r\n"...)
			}
			m := gAnyMsg(rt, fmt.Sprintf("m%d", i), anyOpts{MaxExt: 6, MaxLong: 9000, MaxBody: 20000, AllowLF: true})
			// make it a request for the service with a unique Call-ID
			m.IsReq, m.Method, m.RURI, m.Version = true, "MESSAGE", AURI{Scheme: "sip", User: "u", Host: "svc.test"}, "SIP/2.0"
			var hs []AHdr
			for _, h := range m.Hdrs {
				if h.Kind == hRoute {
					continue
				}
				if h.Kind == hCallID {
					h.Value = s.nextID("c11-")
				}
				if h.Kind == hTo {
					h.NAs = []ANameAddr{{URI: AURI{Scheme: "sip", User: "x", Host: "nomatch.example"}}}
				}
				if h.Kind == hCSeq {
					h.Value = "1 MESSAGE"
				}
				hs = append(hs, h)
			}
			if aborted {
				// (then this stream has header lines longer than the reader window, too)
				hs = append([]AHdr{{Kind: hExt, Name: "X-Long-Line", SP: " ", Value: strings.Repeat(fmt.Sprintf("m%d.", i), rapid.IntRange(1100, 2400).Draw(rt, "long units"))}}, hs...)
			}
			m.Hdrs = hs
			msgs = append(msgs, m)
			wires = append(wires, m.Bytes())
			stream = append(stream, m.Bytes()...)
		}
		// segmentation
		var cuts []int
		L := len(stream)
		if aborted {
			// other peers, just before: each stops several KiB into a header line that
			// never ends, and resets its connection
			var wg sync.WaitGroup
			for k, n := 0, rapid.IntRange(3, 8).Draw(rt, "peers that abort"); k < n; k++ {
				part := []byte(fmt.Sprintf("MESSAGE sip:u@svc.test SIP/2.0\r\nVia: SIP/2.0/TCP %s:5060;branch=z9hG4bKab%d\r\nX-Never-Ends: %s", s.ip(12), k, strings.Repeat(fmt.Sprintf("stale-%d.", k), rapid.IntRange(500, 1400).Draw(rt, "units written"))))
				wg.Add(1)
				go func() {
					defer wg.Done()
					c, err := net.DialTimeout("tcp", fmt.Sprintf("%s:%d", l.Addr, l.TCPPort), 5*time.Second)
					if err != nil {
						return
					}
					c.Write(part)
					time.Sleep(3 * time.Millisecond)
					if tc, ok := c.(*net.TCPConn); ok {
						tc.SetLinger(0)
					}
					c.Close()
				}()
			}
			wg.Wait()
			time.Sleep(2 * time.Millisecond)
			V.Class("lab: other peers aborted in the middle of an over-long header line just before")
		}
		switch rapid.IntRange(0, 3).Draw(rt, "recipe") {
		case 0:
			for i, k := 0, rapid.IntRange(1, 30).Draw(rt, "k"); i < k; i++ {
				cuts = append(cuts, rapid.IntRange(1, L-1).Draw(rt, "cut"))
			}
		case 1:
			sz := rapid.SampledFrom([]int{1, 7, 100, 1460, 4096, 4097}).Draw(rt, "size")
			if sz < 100 && L > 3000 {
				sz = 100
			}
			for i := sz; i < L; i += sz {
				cuts = append(cuts, i)
			}
		case 2:
			a := rapid.IntRange(1, L-1).Draw(rt, "from")
			for i := a; i < a+60 && i < L; i++ {
				cuts = append(cuts, i)
			}
		}
		sort.Ints(cuts)
		c, err := s.in.hub.dialTCP("c11", s.ip(13), l.Addr, l.TCPPort)
		if err != nil {
			failf(rt, "TCP listener does not accept: %v", err)
		}
		defer c.close()
		V.Journal(t.Name()+"/lab-segments", map[string]any{"messages": n, "stream_len": L, "cuts": c11ShortCuts(cuts)})
		s.model.learnRequest(s.model.transport(entry, "tcp"), s.ip(13), &AMsg{IsReq: true})
		s.in.expect(wires...)
		// how the bytes are split includes when the parts arrive: now and then the
		// sender falls silent for about a second at one of the cuts (a slow link, a
		// sender assembling its message in pieces)
		pauseAt := -1
		if len(cuts) > 0 && rapid.IntRange(0, 7).Draw(rt, "a pause of about a second at one cut") == 0 {
			pauseAt = cuts[rapid.IntRange(0, len(cuts)-1).Draw(rt, "which cut")]
			V.Class("lab: a pause of about a second between two segments")
		}
		pos := 0
		for _, cut := range append(cuts, L) {
			if cut <= pos {
				continue
			}
			if err := c.send(stream[pos:cut]); err != nil {
				failf(rt, "the proxy closed the connection in the middle of a well-formed stream (after %d of %d bytes): %v", pos, L, err)
			}
			pos = cut
			if cut == pauseAt {
				time.Sleep(time.Duration(700+rapid.IntRange(0, 600).Draw(rt, "pause ms")) * time.Millisecond)
			} else if len(cuts) < 200 {
				time.Sleep(50 * time.Microsecond)
			}
		}
		rs, err := s.in.settle(c.sendStrict, n)
		if _, lost := err.(labLost); lost {
			failf(rt, "%v (stream of %d messages, %d bytes, cuts %v)", err, n, L, c11ShortCuts(cuts))
		} else if err != nil {
			V.HarnessError(rt, "%v", err)
		}
		got := labMessages(rs)
		V.Class("lab: segmented stream relayed intact")
		V.NonTrivial(fmt.Sprintf("%x|%v", hash64(string(stream)), c11ShortCuts(cuts)))
		byID := map[string][]labRx{}
		for _, r := range got {
			id, _ := r.msg.First(hCallID)
			byID[id] = append(byID[id], r)
		}
		for i, m := range msgs {
			id := m.First(hCallID).Value
			rs := byID[id]
			if len(rs) != 1 {
				failf(rt, "message %d of %d in the stream was relayed %d times (stream %d bytes, cuts %v)", i+1, n, len(rs), L, c11ShortCuts(cuts))
			}
			if f := checkContent(m, rs[0].msg); f != "" {
				failf(rt, "message %d of %d in the stream (cuts %v): %s", i+1, n, c11ShortCuts(cuts), f)
			}
		}
		if len(got) != n {
			failf(rt, "%d messages were relayed for a stream of %d messages", len(got), n)
		}
	})
	c11Bulk(t, s)
	c11Mixed(t, s)
	c11ReturnStreams(t, s)
}

// c11Mixed: one stream that carries requests and responses in turn (a peer that
// is caller and callee over the connection it opened). All of them are relayed
// to one TCP element - the requests by their Route, the responses by their
// second Via - so the order in which they arrive there, connection by
// connection, is the order in which the proxy processed them: stream order,
// however the stream was cut.
func c11Mixed(t *testing.T, s *stdSvc) {
	V.Require("lab: requests and responses in turn on one stream")
	rcheck(t, "lab-mixed-stream", V.N(15, 150), func(rt *rapid.T) {
		l := s.in.cfg.Listens[0]
		sinkIP, sinkPort := s.ip(24), 5070
		pairs := rapid.IntRange(2, 5).Draw(rt, "request/response pairs")
		var wires [][]byte
		var ids []string
		for i := 0; i < 2*pairs; i++ {
			id := s.nextID("c11m-")
			ids = append(ids, id)
			var w string
			if i%2 == 0 {
				w = fmt.Sprintf("MESSAGE sip:x@elsewhere.example SIP/2.0\r\nVia: SIP/2.0/TCP %s:5060;branch=z9hG4bK%s\r\nRoute: <sip:%s:%d;transport=tcp;lr>\r\nFrom: <sip:a@a.example>;tag=f\r\nTo: <sip:x@elsewhere.example>\r\nCall-ID: %s\r\nCSeq: %d MESSAGE\r\nContent-Length: 0\r\n\r\n", s.ip(13), id, sinkIP, sinkPort, id, i+1)
			} else {
				w = fmt.Sprintf("SIP/2.0 %d Answer\r\nVia: SIP/2.0/TCP %s:%d;branch=z9hG4bKp%s\r\nVia: SIP/2.0/TCP %s:%d;branch=z9hG4bK%s\r\nFrom: <sip:b@b.example>;tag=g\r\nTo: <sip:a@a.example>;tag=t\r\nCall-ID: %s\r\nCSeq: %d OPTIONS\r\nContent-Length: 0\r\n\r\n", rapid.SampledFrom([]int{180, 200, 404}).Draw(rt, "status"), l.Addr, l.TCPPort, id, sinkIP, sinkPort, id, id, i+1)
			}
			wires = append(wires, []byte(w))
		}
		c, err := s.in.hub.dialTCP("c11", s.ip(13), l.Addr, l.TCPPort)
		if err != nil {
			failf(rt, "TCP listener does not accept: %v", err)
		}
		defer c.close()
		s.model.learnRequest(s.model.transport(0, "tcp"), s.ip(13), &AMsg{IsReq: true})
		s.in.expect(wires...)
		oneWrite := rapid.Bool().Draw(rt, "all in one write")
		V.Journal(t.Name()+"/lab-mixed-stream", map[string]any{"messages": 2 * pairs, "one_write": oneWrite})
		if oneWrite {
			var all []byte
			for _, w := range wires {
				all = append(all, w...)
			}
			if err := c.send(all); err != nil {
				failf(rt, "the proxy closed the connection in the middle of a well-formed stream: %v", err)
			}
		} else {
			for _, w := range wires {
				if err := c.send(w); err != nil {
					failf(rt, "the proxy closed the connection in the middle of a well-formed stream: %v", err)
				}
			}
		}
		rs, err := s.in.settle(c.sendStrict, 2*pairs)
		if _, lost := err.(labLost); lost {
			failf(rt, "%v (a stream of %d requests and responses in turn)", err, 2*pairs)
		} else if err != nil {
			V.HarnessError(rt, "%v", err)
		}
		V.Class("lab: requests and responses in turn on one stream")
		V.NonTrivial(fmt.Sprintf("mixed|%d|%v|%s", pairs, oneWrite, ids[0]))
		pos := map[string]int{}
		for i, id := range ids {
			pos[id] = i
		}
		perConn := map[*labTCPConn][]int{}
		seen := 0
		for _, r := range labMessages(rs) {
			id, _ := r.msg.First(hCallID)
			p, mine := pos[id]
			if !mine {
				continue
			}
			if r.tcp == nil || r.ep == nil || r.ep.ip != sinkIP || r.ep.port != sinkPort {
				return // where messages go is C02's and C03's subject
			}
			seen++
			perConn[r.tcp] = append(perConn[r.tcp], p)
		}
		if seen != 2*pairs {
			failf(rt, "a stream of %d requests and responses in turn: %d of them were relayed", 2*pairs, seen)
		}
		for conn, ps := range perConn {
			for i := 1; i < len(ps); i++ {
				if ps[i] < ps[i-1] {
					failf(rt, "a stream of %d requests and responses in turn (written %s): on %s they arrived in the order %v of their positions in the stream - message %d was processed only after message %d, which follows it in the stream", 2*pairs, map[bool]string{true: "in one piece", false: "message by message"}[oneWrite], conn, ps, ps[i]+1, ps[i-1]+1)
				}
			}
		}
	})
}

// c11Bulk: how the stream is split includes not being split at all while being
// large - several hundred KiB handed to the kernel at once, so that the proxy
// finds far more than one read's worth of bytes waiting whenever it reads. The
// requests leave over TCP (a static route to a TCP hop), every body is a
// function of its position in the stream, and all of them must come out once,
// intact, in order.
func c11Bulk(t *testing.T, s *stdSvc) {
	V.Require("lab: several hundred KiB written at once")
	rcheck(t, "lab-bulk", V.N(12, 150), func(rt *rapid.T) {
		entry := rapid.IntRange(0, 1).Draw(rt, "entry")
		l := s.in.cfg.Listens[entry]
		n := rapid.IntRange(6, 14).Draw(rt, "messages")
		type exp struct {
			id   string
			body []byte
		}
		var exps []exp
		var stream []byte
		var wires [][]byte
		for i := 0; i < n; i++ {
			id := s.nextID("c11b-")
			blen := rapid.IntRange(20000, 62000).Draw(rt, "body len")
			var bb strings.Builder
			for k := 0; bb.Len() < blen; k++ {
				fmt.Fprintf(&bb, "%s/%d/%07d\r\n", id, i, k)
			}
			body := []byte(bb.String()[:blen])
			long := ""
			if rapid.IntRange(0, 2).Draw(rt, "long header") == 0 {
				long = "X-Long: " + strings.Repeat(fmt.Sprintf("%d.", i), rapid.IntRange(1000, 9000).Draw(rt, "long units")) + "\r\n"
			}
			w := []byte(fmt.Sprintf("MESSAGE sip:x@r.wtcp.test SIP/2.0\r\nVia: SIP/2.0/TCP %s:5060;branch=z9hG4bK%s\r\nMax-Forwards: 70\r\nFrom: <sip:a@a.example>;tag=%s\r\nTo: <sip:x@r.wtcp.test>\r\nCall-ID: %s\r\nCSeq: %d MESSAGE\r\n%sContent-Type: text/plain\r\nContent-Length: %d\r\n\r\n", s.ip(13), id, id, id, i+1, long, len(body)))
			w = append(w, body...)
			exps = append(exps, exp{id, body})
			wires = append(wires, w)
			stream = append(stream, w...)
		}
		L := len(stream)
		c, err := s.in.hub.dialTCP("c11", s.ip(13), l.Addr, l.TCPPort)
		if err != nil {
			failf(rt, "TCP listener does not accept: %v", err)
		}
		defer c.close()
		V.Journal(t.Name()+"/lab-bulk", map[string]any{"messages": n, "stream_len": L})
		s.model.learnRequest(s.model.transport(entry, "tcp"), s.ip(13), &AMsg{IsReq: true})
		s.in.expect(wires...)
		// one write, or two with the boundary anywhere
		cut := L
		if rapid.Bool().Draw(rt, "two writes") {
			cut = rapid.IntRange(1, L-1).Draw(rt, "cut")
		}
		if err := c.send(stream[:cut]); err != nil {
			failf(rt, "the proxy closed the connection in the middle of a well-formed stream of %d bytes: %v", L, err)
		}
		if cut < L {
			if err := c.send(stream[cut:]); err != nil {
				failf(rt, "the proxy closed the connection in the middle of a well-formed stream of %d bytes (after %d): %v", L, cut, err)
			}
		}
		rs, err := s.in.settle(c.sendStrict, n)
		if _, lost := err.(labLost); lost {
			failf(rt, "%v (stream of %d messages, %d bytes, written at once)", err, n, L)
		} else if err != nil {
			V.HarnessError(rt, "%v", err)
		}
		got := labMessages(rs)
		V.Class("lab: several hundred KiB written at once")
		V.NonTrivial(fmt.Sprintf("bulk|%x", hash64(string(stream))))
		V.EvalN(n)
		byID := map[string][]labRx{}
		var order []string
		for _, r := range got {
			id, _ := r.msg.First(hCallID)
			byID[id] = append(byID[id], r)
			order = append(order, id)
		}
		for i, e := range exps {
			rs := byID[e.id]
			if len(rs) != 1 {
				failf(rt, "message %d of %d of a stream of %d bytes written at once was relayed %d times; receptions:\n%s", i+1, n, L, len(rs), labDescribe(got))
			}
			if rs[0].tcp == nil || rs[0].ep == nil || rs[0].ep.ip != s.ip(24) {
				return // where a request goes is C03's and C18's subject
			}
			if string(rs[0].msg.Body) != string(e.body) {
				d := 0
				for d < len(e.body) && d < len(rs[0].msg.Body) && e.body[d] == rs[0].msg.Body[d] {
					d++
				}
				failf(rt, "message %d of %d of a stream of %d bytes written at once: body of %d bytes relayed as %d bytes, first difference at offset %d: %s", i+1, n, L, len(e.body), len(rs[0].msg.Body), d, jsonBytes(rs[0].msg.Body[d:min(len(rs[0].msg.Body), d+80)]))
			}
		}
		if len(got) != n {
			failf(rt, "%d messages were relayed for a stream of %d messages written at once:\n%s", len(got), n, labDescribe(got))
		}
		for i := range exps {
			if order[i] != exps[i].id {
				failf(rt, "the messages of one connection, relayed over one connection, came out in another order: position %d carries %s, expected %s", i+1, order[i], exps[i].id)
			}
		}
	})
}

// c11ReturnStreams: the byte streams the proxy reads from connections it opened
// itself. Requests with a static TCP route make the proxy connect to a harness
// hop and reuse that connection; the hop then writes the responses to all of
// them back as one stream in scripted segments. Every response must come out
// at the user agent exactly once and intact, whatever the segmentation and
// however often the connection has been used before.
func c11ReturnStreams(t *testing.T, s *stdSvc) {
	V.Require("lab: segmented response stream on a proxy-opened connection relayed intact", "lab: response stream on the connection to a tcp backend")
	// the hop must be known to the proxy, otherwise it does not put itself into
	// the Via chain and the responses would not come back through it
	if err := s.primeHops(); err != nil {
		V.HarnessError(t, "priming: %v", err)
	}
	rcheck(t, "lab-return-streams", V.N(30, 400), func(rt *rapid.T) {
		l := s.in.cfg.Listens[0]
		ua := s.uas[rapid.IntRange(0, 3).Draw(rt, "ua")]
		k := rapid.IntRange(2, 6).Draw(rt, "requests")
		send := func(b []byte) error { return ua.sendUDP(l.Addr, l.UDPPort, b) }
		// the peer: a statically routed TCP hop, or the TCP backend of the listen
		// entry (which was listening before the proxy started)
		toBackend := rapid.Bool().Draw(rt, "peer is the tcp backend")
		target, peerIP, peerPort := "x@r.wtcp.test", s.ip(24), 5070
		if toBackend {
			target, peerIP, peerPort = "svc.test", s.ip(33), 5080
			k *= 3 // two of three land on the UDP backends of the rotation
			V.Class("lab: response stream on the connection to a tcp backend")
		}
		var reqs []labRx
		for i := 0; i < k; i++ {
			id := s.nextID("c11r-")
			wire := []byte(fmt.Sprintf("MESSAGE sip:%s SIP/2.0\r\nVia: SIP/2.0/UDP %s:5060;branch=z9hG4bK%s;rport\r\nMax-Forwards: 70\r\nFrom: <sip:a@a.example>;tag=%s\r\nTo: <sip:%s>\r\nCall-ID: %s\r\nCSeq: 1 MESSAGE\r\nContent-Length: 0\r\n\r\n", target, ua.ip, id, id, strings.Replace(target, "svc.test", "svc@nomatch.example", 1), id))
			s.model.learnRequest(s.model.transport(0, "udp"), ua.ip, &AMsg{IsReq: true, Hdrs: []AHdr{{Kind: hVia, Vias: []AVia{{Host: ua.ip}}}}})
			s.in.expect(wire)
			if err := send(wire); err != nil {
				V.HarnessError(rt, "send: %v", err)
			}
			rs, err := s.in.settle(send, 1)
			if _, lost := err.(labLost); lost {
				failf(rt, "%v", err)
			} else if err != nil {
				V.HarnessError(rt, "%v", err)
			}
			got := labMessages(rs)
			if toBackend && len(got) == 1 && got[0].tcp == nil && s.isBackendOf(got[0].ep, 0, false) {
				continue // a UDP backend's turn
			}
			if len(got) != 1 || got[0].tcp == nil || got[0].ep == nil || got[0].ep.ip != peerIP || got[0].ep.port != peerPort {
				return // where a request goes is C03's, C05's and C18's subject
			}
			if len(got[0].msg.Entries(hVia)) != 2 {
				return // the proxy did not insert itself (C06's subject): no response path through it
			}
			reqs = append(reqs, got[0])
		}
		if len(reqs) == 0 {
			return
		}
		conn := reqs[len(reqs)-1].tcp
		if conn.isDead() {
			return
		}
		type exp struct {
			id   string
			body []byte
		}
		var exps []exp
		var stream []byte
		var wires [][]byte
		for _, r := range reqs {
			if r.tcp != conn {
				continue
			}
			var body []byte
			switch rapid.IntRange(0, 3).Draw(rt, "body kind") {
			case 0:
			case 1:
				body = []byte(strings.Repeat("b", rapid.IntRange(1, 9000).Draw(rt, "body len")))
			case 2:
				body = []byte("SIP/2.0 200 OK\r\nContent-Length: 0\r\n\r\nINVITE sip:x SIP/2.0\r\n\r\n")
			default:
				body = []byte(strings.Repeat("line\r\n", rapid.IntRange(1, 700).Draw(rt, "lines")))
			}
			long := ""
			if rapid.IntRange(0, 3).Draw(rt, "long header") == 0 {
				long = "X-Long: " + strings.Repeat("v", rapid.SampledFrom([]int{4000, 4085, 4086, 4087, 8190, 12000}).Draw(rt, "long len")) + "\r\n"
			}
			w := buildResponse(r.msg, 200, "OK", "t", long+"Content-Type: text/plain\r\n")
			w = append(w[:len(w)-len("Content-Length: 0\r\n\r\n")], []byte(fmt.Sprintf("Content-Length: %d\r\n\r\n", len(body)))...)
			w = append(w, body...)
			id, _ := r.msg.First(hCallID)
			exps = append(exps, exp{id, body})
			if rapid.IntRange(0, 3).Draw(rt, "keep-alive") == 0 {
				stream = append(stream, "\r\n"...)
			}
			stream = append(stream, w...)
			wires = append(wires, w)
		}
		L := len(stream)
		var cuts []int
		switch rapid.IntRange(0, 3).Draw(rt, "recipe") {
		case 0:
			for i, n := 0, rapid.IntRange(1, 30).Draw(rt, "k"); i < n; i++ {
				cuts = append(cuts, rapid.IntRange(1, L-1).Draw(rt, "cut"))
			}
		case 1:
			sz := rapid.SampledFrom([]int{1, 7, 100, 1460, 4096, 4097}).Draw(rt, "size")
			if sz < 100 && L > 3000 {
				sz = 100
			}
			for i := sz; i < L; i += sz {
				cuts = append(cuts, i)
			}
		case 2:
			a := rapid.IntRange(1, L-1).Draw(rt, "from")
			for i := a; i < a+60 && i < L; i++ {
				cuts = append(cuts, i)
			}
		default: // one cut inside every message
			o := 0
			for _, w := range wires {
				cuts = append(cuts, o+rapid.IntRange(1, len(w)-1).Draw(rt, "inner cut"))
				o += len(w)
			}
		}
		sort.Ints(cuts)
		V.Journal(t.Name()+"/lab-return-streams", map[string]any{"requests_on_connection": len(exps), "stream_len": L, "cuts": c11ShortCuts(cuts)})
		s.in.expect(wires...)
		pos := 0
		for _, cut := range append(cuts, L) {
			if cut <= pos {
				continue
			}
			if err := conn.send(stream[pos:cut]); err != nil {
				failf(rt, "the proxy closed its own connection to the TCP hop in the middle of a well-formed response stream (after %d of %d bytes): %v", pos, L, err)
			}
			pos = cut
			if len(cuts) < 200 {
				time.Sleep(150 * time.Microsecond)
			}
		}
		rs, err := s.in.settle(conn.sendStrict, len(exps))
		if err != nil && strings.Contains(err.Error(), "could not send the barrier") {
			// the hop's write failed: the proxy has closed its connection although
			// every byte it was sent belongs to a well-formed message
			failf(rt, "the proxy closed its own connection to the TCP hop after a well-formed response stream of %d messages (%d bytes, cuts %v, connection used for %d requests): %v", len(exps), L, c11ShortCuts(cuts), len(exps), err)
		}
		if _, lost := err.(labLost); lost {
			failf(rt, "%v (response stream of %d messages, %d bytes, cuts %v, on a connection used for %d requests)", err, len(exps), L, c11ShortCuts(cuts), len(exps))
		} else if err != nil {
			V.HarnessError(rt, "%v", err)
		}
		got := labMessages(rs)
		V.Class("lab: segmented response stream on a proxy-opened connection relayed intact")
		V.NonTrivial(fmt.Sprintf("ret|%x|%v", hash64(string(stream)), c11ShortCuts(cuts)))
		V.EvalN(len(exps))
		byID := map[string][]labRx{}
		for _, r := range got {
			id, _ := r.msg.First(hCallID)
			byID[id] = append(byID[id], r)
		}
		for i, e := range exps {
			rs := byID[e.id]
			if len(rs) != 1 {
				failf(rt, "response %d of %d in the stream was relayed %d times (stream %d bytes, cuts %v, connection used for %d requests before); receptions:\n%s\nresponse as written by the hop: %s", i+1, len(exps), len(rs), L, c11ShortCuts(cuts), len(exps), labDescribe(got), jsonBytes(wires[i][:min(len(wires[i]), 700)]))
			}
			if rs[0].ep != ua {
				failf(rt, "response %d of %d arrived at %s, not at the user agent that sent the request", i+1, len(exps), rs[0].where())
			}
			if string(rs[0].msg.Body) != string(e.body) {
				failf(rt, "response %d of %d (cuts %v): body of %d bytes relayed as %d bytes: %s", i+1, len(exps), c11ShortCuts(cuts), len(e.body), len(rs[0].msg.Body), jsonBytes(rs[0].msg.Body[:min(len(rs[0].msg.Body), 200)]))
			}
		}
		if len(got) != len(exps) {
			failf(rt, "%d messages were relayed for a response stream of %d messages:\n%s", len(got), len(exps), labDescribe(got))
		}
	})
}

// FuzzFraming: the native coverage-guided target of the thorough tier. The
// fuzzer owns the stream bytes and the segmentation. In the property's domain
// (the independent reader accepts the whole stream as a concatenation of
// well-formed messages, and the product decodes the unsegmented stream into
// as many messages) every segmentation must decode to the same sequence.
func FuzzFraming(f *testing.F) {
	one := "MESSAGE sip:u@h.test SIP/2.0\r\nVia: SIP/2.0/TCP h;branch=z9hG4bK1\r\nFrom: <sip:a@b>;tag=1\r\nTo: <sip:c@d>\r\nCall-ID: one\r\nCSeq: 1 MESSAGE\r\nContent-Length: 5\r\n\r\nhello"
	two := "SIP/2.0 200 OK\r\nv: SIP/2.0/TCP h;branch=z9hG4bKp\r\ni: two\r\nl: 0\r\n\r\n"
	lf := "OPTIONS sip:h SIP/2.0\nVia: SIP/2.0/TCP h\nCall-ID: lf\nContent-Length: 41\n\nBYE sip:x SIP/2.0\r\nContent-Length: 0\r\n\r\n"
	long := "INFO sip:h SIP/2.0\r\nVia: SIP/2.0/TCP h\r\nCall-ID: long\r\nX-Long: " + strings.Repeat("v", 4096-len("X-Long: ")-2) + "\r\nSubject: after\r\nContent-Length: 2\r\n\r\n\r\n"
	for _, s := range []string{one, one + two, "\r\n\r\n" + two + "\r\n" + one + lf + "\r\n", long + one, one + long + two} {
		f.Add([]byte(s), []byte{}, byte(1))
		f.Add([]byte(s), []byte{0, 0, 0, 0, 0, 0, 0, 0}, byte(0))
		f.Add([]byte(s), []byte{7, 200, 3, 90, 255, 1}, byte(0))
		f.Add([]byte(s), []byte{}, byte(17))
	}
	// (found by the campaign of the thorough tier: a declared length no stream will
	// ever deliver - the harness's own reader used to allocate it)
	f.Add([]byte("g\nContent-Length:100000000000000\n\n"), []byte("0"), byte('u'))
	f.Add([]byte(one+"INFO sip:h SIP/2.0\r\nCall-ID: huge\r\nContent-Length: 99999999999\r\n\r\nx"), []byte{3}, byte(0))
	f.Fuzz(func(t *testing.T, stream []byte, gaps []byte, mode byte) {
		if len(stream) == 0 || len(stream) > 1<<17 {
			return
		}
		// the property's domain
		r := bufio.NewReader(strings.NewReader(string(stream)))
		var ref []*RMsg
		for {
			rm, err := sipReadStream(r)
			if err != nil {
				if err != io.EOF {
					return
				}
				break
			}
			ref = append(ref, rm)
			if len(ref) > 64 {
				return
			}
		}
		if len(ref) == 0 {
			return
		}
		// the decoder and the reader must agree about where the messages of the
		// unsegmented stream begin and end, otherwise it is not a framing question
		whole, _ := c11Decode(stream, nil)
		if len(whole) != len(ref) {
			return
		}
		for i := range ref {
			if string(whole[i].body) != string(ref[i].Body) {
				return
			}
		}
		var cuts []int
		switch {
		case mode == 1:
			for i := 1; i < len(stream) && i < 1<<14; i++ {
				cuts = append(cuts, i)
			}
		case mode >= 16:
			for i := int(mode); i < len(stream); i += int(mode) {
				cuts = append(cuts, i)
			}
		default:
			pos := 0
			for _, g := range gaps {
				pos += 1 + int(g)
				if pos >= len(stream) {
					break
				}
				cuts = append(cuts, pos)
			}
		}
		got, err := c11Decode(stream, cuts)
		if len(got) != len(whole) {
			t.Fatalf("%d messages decoded from the segmented stream, %d from the unsegmented one (segmented loop ended with: %v); cuts=%v\nstream: %s", len(got), len(whole), err, c11ShortCuts(cuts), jsonBytes(stream))
		}
		for i := range whole {
			if d := prodSame(got[i], whole[i]); d != "" {
				t.Fatalf("message %d of %d differs between the segmented and the unsegmented decode: %s; cuts=%v\nstream: %s", i+1, len(whole), d, c11ShortCuts(cuts), jsonBytes(stream))
			}
		}
	})
}

//verif:needs core,sip,lab
package main

// C12 - responses to TCP requests return on the connection the request used.
// Engine: lab, rapid state machine over 2-8 client connections from one and
// the same loopback address, equal or different Via sent-by values, pairwise
// distinct branches, transactions interleaved and answered in any order.

import (
	"bufio"
	"bytes"
	"fmt"
	"strings"
	"testing"
	"time"

	"pgregory.net/rapid"
)

type c12Txn struct {
	ID     string
	Conn   int
	Method string
	SentBy string
	At     labRx
	Prov   int
	CallID string // "c12-"+ID unless it is the CANCEL of another transaction
	Wire   string // the request as sent (a CANCEL copies its Via, From, To, Call-ID)
	Cancel bool
	Rport  bool // the top Via asked for rport
}

// ---- a minute later (unit engine) -------------------------------------------------
//
// The proxy sweeps its table of client transports once a minute. No lab history
// lasts that long, so this part drives a Proxy object (the product's
// constructors, recording doubles for backend and listeners) synchronously
// through the product's own steps - handleRawMessage with the request's
// connection, handleDialog, HandleMessage - moves the table's sweep clock back by
// a minute while transactions are pending, and lets the backend answer: each
// response must be written to the connection its request arrived on.

type c12Backend struct {
	addr string
	got  [][]byte
}

func (b *c12Backend) Send(msg *Message) error {
	w, err := msg.Bytes()
	b.got = append(b.got, w)
	return err
}
func (b *c12Backend) GetAddress() string { return b.addr }
func (b *c12Backend) Close()             {}

type c12Listener struct{ proto string }

func (t *c12Listener) Start(MessageHandler) error       { return nil }
func (t *c12Listener) Send(string, int, *Message) error { return nil }
func (t *c12Listener) GetProtocol() string              { return t.proto }
func (t *c12Listener) GetAddress() string               { return "127.0.0.77" }
func (t *c12Listener) GetPort() int                     { return 5060 }
func (t *c12Listener) IsExit() bool                     { return false }

func c12AMinuteLater(rt *rapid.T) string {
	p := NewProxy("svc.test", 1200, "127.0.0.77", false, NewPreConfigRoute(), NewPreConfigHostResolver(), NewSelfLearnRoute(), true, true)
	rb := NewRoundRobinBackend()
	be := &c12Backend{addr: "127.0.0.81:5080"}
	rb.AddBackend(be)
	tcpL := &c12Listener{"TCP"}
	p.AddItem(&ProxyItem{backend: rb, transports: []ServerTransport{&c12Listener{"UDP"}, tcpL}})
	patientUntil(5*time.Second, 50*time.Microsecond, func() bool { return len(p.backendChangeChannel) == 0 })
	time.Sleep(200 * time.Microsecond)
	parse := func(b []byte) *Message {
		m, err := ParseMessage(bufio.NewReader(bytes.NewReader(b)))
		if err != nil {
			return nil
		}
		return m
	}
	n := rapid.IntRange(2, 8).Draw(rt, "connections")
	sentBy := rapid.SampledFrom([]string{"127.0.0.91:5060", "127.0.0.91:5070", "client.invalid:5060"}).Draw(rt, "shared sent-by")
	rport := rapid.Bool().Draw(rt, "rport")
	stamp := rapid.Bool().Draw(rt, "received-support")
	type txn struct {
		conn    *c20Conn
		relayed []byte
		id      string
	}
	var txns []*txn
	minutes := 0
	aMinutePasses := func() {
		p.clientTransMgr.Lock()
		p.clientTransMgr.lastCleanTime -= 61
		p.clientTransMgr.Unlock()
		minutes++
	}
	for i := 0; i < n; i++ {
		if i > 0 && rapid.IntRange(0, 2).Draw(rt, "a minute passes between two requests") == 0 {
			aMinutePasses()
		}
		id := fmt.Sprintf("c12m-%d", i)
		via := fmt.Sprintf("SIP/2.0/TCP %s;branch=z9hG4bK%s", sentBy, id)
		if rport {
			via += ";rport"
		}
		req := parse([]byte(fmt.Sprintf("INVITE sip:u@svc.test SIP/2.0\r\nVia: %s\r\nFrom: <sip:a@b>;tag=1\r\nTo: <sip:u@svc.test>\r\nCall-ID: %s\r\nCSeq: 1 INVITE\r\nContent-Length: 0\r\n\r\n", via, id)))
		if req == nil {
			return "harness: request not decoded"
		}
		c := &c20Conn{name: id, failAfter: -1}
		raw := NewRawMessage("127.0.0.91", 40000+i, tcpL, stamp, req)
		raw.TcpConn = c
		before := len(be.got)
		m2, err := p.handleRawMessage(raw)
		if err != nil {
			return fmt.Sprintf("request %d not accepted: %v", i, err)
		}
		p.handleDialog(raw.PeerAddr, raw.PeerPort, m2)
		p.HandleMessage(m2)
		if len(be.got) != before+1 {
			return fmt.Sprintf("request %d did not reach the backend", i)
		}
		txns = append(txns, &txn{conn: c, relayed: be.got[len(be.got)-1], id: id})
	}
	aMinutePasses()
	// the backend answers in a drawn order; a minute may pass between two answers
	order := rapid.Permutation(txns).Draw(rt, "answer order")
	for k, tx := range order {
		if k > 0 && rapid.IntRange(0, 2).Draw(rt, "a minute passes between two answers") == 0 {
			aMinutePasses()
		}
		in, err := sipRead(tx.relayed)
		if err != nil {
			return "harness: relayed request unreadable"
		}
		for _, code := range []int{180, 200} {
			resp := parse(buildResponse(in, code, "Answer", "t"+tx.id, ""))
			if resp == nil {
				return "harness: response not decoded"
			}
			raw := NewRawMessage("127.0.0.81", 5080, &c12Listener{"UDP"}, false, resp)
			m2, err := p.handleRawMessage(raw)
			if err != nil {
				return fmt.Sprintf("response not accepted: %v", err)
			}
			p.handleDialog(raw.PeerAddr, raw.PeerPort, m2)
			p.HandleMessage(m2)
			want := fmt.Sprintf("SIP/2.0 %d Answer", code)
			for _, other := range txns {
				other.conn.mu.Lock()
				hits := 0
				for _, w := range other.conn.writes {
					if bytes.HasPrefix(w, []byte(want)) && bytes.Contains(w, []byte("Call-ID: "+tx.id+"\r\n")) {
						hits++
					}
				}
				other.conn.mu.Unlock()
				if other == tx && hits != 1 {
					return fmt.Sprintf("%d minute(s) passed while %d transactions were pending (shared sent-by %s, rport %v, received-support %v): the %d for request %s was written %d times to the connection the request arrived on, want once", minutes, n, sentBy, rport, stamp, code, tx.id, hits)
				}
				if other != tx && hits != 0 {
					return fmt.Sprintf("%d minute(s) passed while %d transactions were pending: the %d for request %s was written to the connection of request %s", minutes, n, code, tx.id, other.id)
				}
			}
		}
	}
	return ""
}

func TestC12(t *testing.T) {
	V.Rule("lab: rapid state machines over 2-8 simultaneous client connections to one TCP listener, all from one loopback address (one address of the process's private block stands in for 127.0.0.1), each request announcing a Via sent-by drawn from a set of 1-3 values that are shared between connections (equal sent-by on different connections is the common case), with or without rport, pairwise distinct branches that share a stem and end in a small running number (one is often a prefix of another), listen entries with received-support on and off; requests go to UDP and TCP backends; the backends answer outstanding transactions in any order across connections, 1xx (0-3 per transaction) before the single final response, INVITE and non-INVITE, CANCEL of a pending INVITE (same branch, answered independently); unrelated UDP traffic and new connections in between; now and then a sent-by that names the real source port of another live connection, and once per history up to 160 complete transactions on the connections while others stay pending; on a separate instance a user agent connection and the connection to a TCP backend carry a provisional response, stay idle for 5.3 s (thorough 7.5 s) and must then still carry the final response. unit: a Proxy object driven synchronously through the product's own steps with 2-8 scripted connections sharing a sent-by, the once-a-minute sweep of the transport table forced between requests and between answers (the sweep clock moved back by 61 s), answers in a drawn order. Oracle: every response is read on the connection whose request it answers and on no other connection; nothing is dialled to the announced sent-by address or to (client address, sent-by port), where the harness listens. non-trivial = history with >= 2 connections sharing a sent-by and >= 2 transactions open at once answered in another order than sent; distinct by history")
	V.Require("responses to requests a next hop sent over the connection the proxy had opened to it", "response with all Via values on one line", "a client went away with a transaction pending; the others are served as before", "udp backend answers from another socket than it listens on", "unit: the transport table swept while transactions were pending", "CANCEL with the INVITE's branch, both answered", ">= 70 transactions completed while others stayed pending", "sent-by names the source port of another live connection", "response after a connection stayed idle for > 5 s", "a branch is a prefix of another branch of the history", "connections share a sent-by", ">=2 transactions open at once", "answered out of order", "provisional before final", "non-INVITE with provisional", "support:off", "support:on", "tcp backend", "udp backend")
	rcheck(t, "a-minute-later", V.N(300, 3000), func(rt *rapid.T) {
		V.Class("unit: the transport table swept while transactions were pending")
		if f := c12AMinuteLater(rt); f != "" {
			failf(rt, "%s", f)
		}
		V.NonTrivial(fmt.Sprintf("minute|%d", V.evaluations))
	})
	s, err := newStdSvc(stdVariant{NoReceived: [3]string{"", "true", ""}})
	if err != nil {
		V.HarnessError(t, "cannot start lab instance: %v", err)
	}
	clientIP := s.ip(10)

	// meanwhile, on an instance of its own: connections that stay idle for longer
	// than any plausible I/O timeout (judged after the histories)
	idleDone := make(chan string, 1)
	if V.replay && V.only == "" {
		idleDone <- ""
	} else {
		go func() { idleDone <- c12Idle(time.Duration(V.N(5300, 7500)) * time.Millisecond) }()
	}
	defer func() {
		f, _ := patientRecv(idleDone, 60*time.Second)
		V.Eval()
		V.Class("response after a connection stayed idle for > 5 s")
		V.NonTrivial("idle")
		if strings.HasPrefix(f, "harness:") {
			V.HarnessError(t, "%s", f)
		} else if f != "" {
			V.Violation(t, "", nil, "%s", f)
		}
	}()

	// A TCP connection the proxy opened itself (to a next hop) is a connection like
	// any other once the peer sends requests of its own over it: the responses to
	// those requests return on it.
	rcheck(t, "hop-connection", V.N(20, 200), func(rt *rapid.T) {
		entry := rapid.IntRange(0, 1).Draw(rt, "listen entry")
		l := s.in.cfg.Listens[entry]
		ua := s.uas2[rapid.IntRange(0, 3).Draw(rt, "ua")]
		usend := func(b []byte) error { return ua.sendUDP(l.Addr, l.UDPPort, b) }
		hopIP, hopPort := s.ip(24), 5070
		// 1. the user agent's request, routed to the TCP hop: the proxy opens (or re-uses) its connection
		id := s.nextID("c12h-")
		wire := []byte(fmt.Sprintf("OPTIONS sip:x@elsewhere.example SIP/2.0\r\nVia: SIP/2.0/UDP %s:6010;branch=z9hG4bK%s\r\nRoute: <sip:%s:%d;transport=tcp;lr>\r\nFrom: <sip:a@b>;tag=1\r\nTo: <sip:x@elsewhere.example>\r\nCall-ID: %s\r\nCSeq: 1 OPTIONS\r\nContent-Length: 0\r\n\r\n", ua.ip, id, hopIP, hopPort, id))
		s.model.learnRequest(s.model.transport(entry, "udp"), ua.ip, &AMsg{IsReq: true, Hdrs: []AHdr{{Kind: hVia, Vias: []AVia{{Host: ua.ip}}}}})
		s.in.expect(wire)
		usend(wire)
		rs, err := s.in.settle(usend, 1)
		if _, lost := err.(labLost); lost {
			failf(rt, "%v", err)
		} else if err != nil {
			V.HarnessError(rt, "%v", err)
		}
		got := labMessages(rs)
		if len(got) != 1 || got[0].tcp == nil || got[0].ep == nil || got[0].ep.ip != hopIP || got[0].ep.port != hopPort {
			return // where a request goes is C03's subject
		}
		conn := got[0].tcp
		// 2. 1-3 requests of the hop's own over that connection, routed to the user agent (which the proxy knows)
		n := rapid.IntRange(1, 3).Draw(rt, "requests of the hop")
		var at []labRx
		for i := 0; i < n; i++ {
			rid := s.nextID("c12hr-")
			rport := rapid.SampledFrom([]string{"", ";rport"}).Draw(rt, "rport")
			req := []byte(fmt.Sprintf("%s sip:u@%s:6010 SIP/2.0\r\nVia: SIP/2.0/TCP %s:%d;branch=z9hG4bK%s%s\r\nRoute: <sip:%s:6010;lr>\r\nFrom: <sip:hop@hop.example>;tag=h\r\nTo: <sip:u@nomatch.example>\r\nCall-ID: %s\r\nCSeq: 1 %s\r\nContent-Length: 0\r\n\r\n", "INVITE", ua.ip, hopIP, hopPort, rid, rport, ua.ip, rid, "INVITE"))
			s.in.expect(req)
			if err := conn.sendStrict(req); err != nil {
				failf(rt, "%v", err)
			}
			rs, err := s.in.settle(conn.sendStrict, 1)
			if _, lost := err.(labLost); lost {
				failf(rt, "%v", err)
			} else if err != nil {
				V.HarnessError(rt, "%v", err)
			}
			g := labMessages(rs)
			if len(g) != 1 || g[0].ep != ua || len(g[0].msg.Entries(hVia)) != 2 {
				return // where it goes and whether the proxy inserts itself is C03's / C06's subject
			}
			at = append(at, g[0])
		}
		// 3. the user agent answers, in any order, 180 then 200 each
		V.Class("responses to requests a next hop sent over the connection the proxy had opened to it")
		V.NonTrivial(fmt.Sprintf("hopconn|%d|%s", entry, id))
		for _, k := range rapid.Permutation(at).Draw(rt, "answer order") {
			for _, code := range []int{180, 200} {
				resp := buildResponse(k.msg, code, "Answer", "tu", "")
				s.in.expect(resp)
				if err := usend(resp); err != nil {
					V.HarnessError(rt, "ua send: %v", err)
				}
				rs, err := s.in.settle(usend, 1)
				if _, lost := err.(labLost); lost {
					failf(rt, "%v", err)
				} else if err != nil {
					V.HarnessError(rt, "%v", err)
				}
				g := labMessages(rs)
				V.Eval()
				if len(g) != 1 || g[0].tcp != conn {
					failf(rt, "the %d to a request the next hop %s:%d had sent over the connection the proxy opened to it (%s) must be written to that connection and nowhere else; receptions:\n%s", code, hopIP, hopPort, conn, labDescribe(g))
				}
			}
		}
	})

	totalBursts := 0
	rcheck(t, "histories", V.N(250, 2500), func(rt *rapid.T) {
		entry := rapid.IntRange(0, 1).Draw(rt, "listen entry")
		l := s.in.cfg.Listens[entry]
		stamp := s.model.receivedSupport(entry)
		nSent := rapid.IntRange(1, 3).Draw(rt, "sent-by values")
		sentBys := []string{clientIP + ":5060", clientIP + ":6010", s.ip(11) + ":5060"}[:nSent]
		var conns []*labTCPConn
		var connIP []string // the address each connection comes from
		connSentBy := map[int]map[string]bool{}
		// (the address of a UDP backend of the listen entry: a machine that serves as
		// a backend and whose own user agent also connects to the proxy)
		_, bhp, _ := strings.Cut(l.Backends[0], "://")
		backendIP, _ := splitHostPort(bhp)
		open := func() {
			src := clientIP
			if len(conns) >= 2 && rapid.IntRange(0, 3).Draw(rt, "the client is on a backend's address") == 0 {
				src = backendIP
				V.Class("a client connecting from the address of a backend")
			}
			c, err := s.in.hub.dialTCP(fmt.Sprintf("c%d", len(conns)), src, l.Addr, l.TCPPort)
			if err != nil {
				V.HarnessError(rt, "dial: %v", err)
			}
			conns = append(conns, c)
			connIP = append(connIP, src)
		}
		open()
		open()
		defer func() {
			for _, c := range conns {
				c.close()
			}
			// let the proxy notice the closed connections before the next history
			s.in.settle(func(b []byte) error { return s.uas[3].sendUDP(l.Addr, l.UDPPort, b) }, 0)
		}()
		gone := map[int]bool{} // connections reset by their client
		abandoned := 0
		var outstanding []*c12Txn
		hist := []string{fmt.Sprintf("listen entry %d (received-support %v)", entry, stamp)}
		maxOpen, outOfOrder, shared := 0, false, false
		bursts := 0
		branchStem := s.nextID("b")
		usedBranch := map[int]bool{}
		V.ClassIf(stamp, "support:on")
		V.ClassIf(!stamp, "support:off")

		rt.Repeat(map[string]func(*rapid.T){
			"clientOpens": func(rt *rapid.T) {
				if len(conns) >= 8 {
					rt.Skip("eight connections open")
				}
				open()
				hist = append(hist, fmt.Sprintf("connection c%d opened", len(conns)-1))
			},
			"clientSends": func(rt *rapid.T) {
				if len(outstanding) >= 10 {
					rt.Skip("enough outstanding")
				}
				ci := rapid.IntRange(0, len(conns)-1).Draw(rt, "conn")
				for gone[ci] {
					ci = (ci + 1) % len(conns)
				}
				c := conns[ci]
				tx := &c12Txn{ID: s.nextID("x"), Conn: ci, Method: rapid.SampledFrom([]string{"INVITE", "OPTIONS", "MESSAGE", "REGISTER", "INFO"}).Draw(rt, "method")}
				// branches of one history share a stem and end in a small running number:
				// distinct, but one is often a prefix of another (..-1 / ..-10 / ..-12)
				bn := rapid.IntRange(1, 24).Draw(rt, "branch number")
				for usedBranch[bn] {
					bn++
				}
				usedBranch[bn] = true
				branch := fmt.Sprintf("%s-%d", branchStem, bn)
				for o := range usedBranch {
					if o != bn && (strings.HasPrefix(fmt.Sprint(o), fmt.Sprint(bn)) || strings.HasPrefix(fmt.Sprint(bn), fmt.Sprint(o))) {
						V.Class("a branch is a prefix of another branch of the history")
					}
				}
				tx.SentBy = sentBys[rapid.IntRange(0, len(sentBys)-1).Draw(rt, "sentby")]
				if len(conns) >= 2 && rapid.IntRange(0, 5).Draw(rt, "sent-by is the real address of another connection") == 0 {
					// (a client behind the same address whose Via happens to name the port
					// another live connection really comes from)
					o := rapid.IntRange(0, len(conns)-1).Draw(rt, "whose")
					if o == ci {
						o = (o + 1) % len(conns)
					}
					tx.SentBy = conns[o].local
					V.Class("sent-by names the source port of another live connection")
				}
				if connIP[ci] != clientIP && rapid.Bool().Draw(rt, "it announces the backend's own address and port") {
					tx.SentBy = bhp
				}
				if connSentBy[ci] == nil {
					connSentBy[ci] = map[string]bool{}
				}
				connSentBy[ci][tx.SentBy] = true
				for cj, m := range connSentBy {
					if cj != ci && m[tx.SentBy] {
						shared = true
					}
				}
				rport := ""
				if rapid.Bool().Draw(rt, "rport") {
					rport = ";rport"
				}
				if len(outstanding) > 0 && rapid.IntRange(0, 2).Draw(rt, "announce what a pending transaction of another connection announces") == 0 {
					// (several clients behind one address that write the same sent-by, rport or not)
					o := outstanding[rapid.IntRange(0, len(outstanding)-1).Draw(rt, "like which")]
					if o.Conn != ci {
						tx.SentBy = o.SentBy
						rport = map[bool]string{true: ";rport", false: ""}[o.Rport]
						connSentBy[ci][tx.SentBy] = true
						shared = true
					}
				}
				tx.Rport = rport != ""
				wire := []byte(fmt.Sprintf("%s sip:svc.test SIP/2.0\r\nVia: SIP/2.0/TCP %s;branch=z9hG4bK%s%s\r\nFrom: <sip:c%d@client.example>;tag=f%s\r\nTo: <sip:svc@nomatch.example>\r\nCall-ID: c12-%s\r\nCSeq: 1 %s\r\nContent-Length: 0\r\n\r\n",
					tx.Method, tx.SentBy, branch, rport, ci, tx.ID, tx.ID, tx.Method))
				tx.CallID, tx.Wire = "c12-"+tx.ID, string(wire)
				hist = append(hist, fmt.Sprintf("c%d sends %s %s (sent-by %s%s)", ci, tx.Method, tx.ID, tx.SentBy, rport))
				V.Journal(t.Name()+"/histories", hist)
				sb, _ := splitHostPort(tx.SentBy)
				s.model.learnRequest(s.model.transport(entry, "tcp"), connIP[ci], &AMsg{IsReq: true, Hdrs: []AHdr{{Kind: hVia, Vias: []AVia{{Host: sb}}}}})
				s.in.expect(wire)
				if err := c.send(wire); err != nil {
					V.HarnessError(rt, "send: %v", err)
				}
				rs, err := s.in.settle(c.sendStrict, 1)
				if _, lost := err.(labLost); lost {
					failf(rt, "%v\nhistory: %v", err, hist)
				} else if err != nil {
					V.HarnessError(rt, "%v", err)
				}
				got := labMessages(rs)
				if len(got) != 1 || !s.isBackendOf(got[0].ep, entry, got[0].tcp != nil) {
					failf(rt, "request %s must reach exactly one backend; receptions:\n%shistory: %v", tx.ID, labDescribe(got), hist)
				}
				tx.At = got[0]
				V.ClassIf(got[0].tcp != nil, "tcp backend")
				V.ClassIf(got[0].tcp == nil, "udp backend")
				outstanding = append(outstanding, tx)
				if len(outstanding) > maxOpen {
					maxOpen = len(outstanding)
				}
			},
			"backendAnswers": func(rt *rapid.T) {
				if len(outstanding) == 0 {
					rt.Skip("nothing outstanding")
				}
				k := rapid.IntRange(0, len(outstanding)-1).Draw(rt, "which")
				if k != 0 {
					outOfOrder = true
				}
				tx := outstanding[k]
				code := gTxStatus(rt, "status")
				if tx.Prov >= 3 && code < 200 {
					code = 200
				}
				toTag := ""
				if code > 100 {
					toTag = "t" + tx.ID
				}
				resp := buildResponse(tx.At.msg, code, "Answer", toTag, "")
				if rapid.IntRange(0, 3).Draw(rt, "the backend writes all Via values on one line") == 0 {
					resp = joinViaLines(resp, rapid.SampledFrom([]string{"Via", "v", "VIA"}).Draw(rt, "name"), rapid.SampledFrom([]string{",", ", "}).Draw(rt, "separator"))
					V.Class("response with all Via values on one line")
				}
				hist = append(hist, fmt.Sprintf("backend answers %s (%s of c%d) with %d", tx.ID, tx.Method, tx.Conn, code))
				V.Journal(t.Name()+"/histories", hist)
				var send func([]byte) error
				if tx.At.tcp != nil {
					send = tx.At.tcp.send
				} else {
					pv, err := rVia(tx.At.msg.Entries(hVia)[0])
					if err != nil {
						failf(rt, "top Via at the backend unreadable: %v", err)
					}
					ep := tx.At.ep
					if rapid.IntRange(0, 4).Draw(rt, "the udp backend answers from another socket") == 0 {
						// (a backend that sends from a socket other than the one it listens on:
						// the response is relayed by its Via all the same)
						ep2, err := s.in.hub.udpEP("backend-sending-socket", ep.ip, 5081)
						if err != nil {
							V.HarnessError(rt, "bind: %v", err)
						}
						ep = ep2
						hist = append(hist, "(sent from port 5081 of the backend)")
						V.Class("udp backend answers from another socket than it listens on")
					}
					send = func(b []byte) error { return ep.sendUDP(pv.Host, pv.Port, b) }
				}
				s.in.expect(resp)
				if err := send(resp); err != nil {
					V.HarnessError(rt, "backend send: %v", err)
				}
				rs, err := s.in.settle(send, 1)
				if _, lost := err.(labLost); lost {
					failf(rt, "%v\nhistory: %v", err, hist)
				} else if err != nil {
					V.HarnessError(rt, "%v", err)
				}
				got := labMessages(rs)
				if code < 200 {
					tx.Prov++
					V.Class("provisional before final")
					V.ClassIf(tx.Method != "INVITE", "non-INVITE with provisional")
				}
				if len(got) != 1 || got[0].tcp != conns[tx.Conn] {
					failf(rt, "response %d to %s must be written to connection c%d (%s), the one the request used, and nowhere else; receptions:\n%shistory: %v", code, tx.ID, tx.Conn, conns[tx.Conn], labDescribe(got), hist)
				}
				if id, _ := got[0].msg.First(hCallID); id != tx.CallID {
					failf(rt, "connection c%d received a response with Call-ID %q while %s was answered\nhistory: %v", tx.Conn, id, tx.ID, hist)
				}
				if cs, _ := got[0].msg.First(hCSeq); !strings.HasSuffix(cs, " "+tx.Method) {
					failf(rt, "connection c%d received a response with CSeq %q while the %s %s was answered\nhistory: %v", tx.Conn, cs, tx.Method, tx.ID, hist)
				}
				if code >= 200 {
					outstanding = append(outstanding[:k], outstanding[k+1:]...)
				}
			},
			"clientAbandons": func(rt *rapid.T) {
				// A client goes away with a transaction pending - its connection is reset -
				// and the backend answers that transaction all the same. Where that answer
				// ends up is not judged (the connection is gone; the sent-by address does
				// not listen), except that it is not another client's connection; the
				// transactions pending on the other connections are judged as before.
				var cand []int
				for k, o := range outstanding {
					alive := 0
					for ci := range conns {
						if !gone[ci] {
							alive++
						}
					}
					if !gone[o.Conn] && alive >= 2 && o.At.tcp == nil {
						cand = append(cand, k)
					}
				}
				// (preferably one whose announced address a pending transaction of another connection shares)
				var pref []int
				for _, k := range cand {
					for _, o := range outstanding {
						if o.Conn != outstanding[k].Conn && !gone[o.Conn] && o.SentBy == outstanding[k].SentBy && o.Rport == outstanding[k].Rport {
							pref = append(pref, k)
							break
						}
					}
				}
				if len(pref) > 0 {
					cand = pref
				}
				if len(cand) == 0 || abandoned >= 2 {
					rt.Skip("nothing to abandon")
				}
				k := cand[rapid.IntRange(0, len(cand)-1).Draw(rt, "which")]
				tx := outstanding[k]
				gone[tx.Conn] = true
				abandoned++
				conns[tx.Conn].close()
				time.Sleep(5 * time.Millisecond)
				hist = append(hist, fmt.Sprintf("c%d is reset by its client with %s pending; the backend answers %s with 180 and 200", tx.Conn, tx.ID, tx.ID))
				V.Journal(t.Name()+"/histories", hist)
				pv, err := rVia(tx.At.msg.Entries(hVia)[0])
				if err != nil {
					failf(rt, "top Via at the backend unreadable: %v", err)
				}
				ep := tx.At.ep
				send := func(b []byte) error { return ep.sendUDP(pv.Host, pv.Port, b) }
				// Where the client said it can be reached - the sent-by of its Via, without
				// rport - an element listens (the harness does, on ports 5060 and 6010 of
				// the user agents' addresses): the responses that can no longer be written
				// to the lost connection are delivered there over a new one, the
				// provisional one like the final one.
				sbHost, sbPort := splitHostPort(tx.SentBy)
				if stamp {
					sbHost = clientIP
				}
				reachable := false // (delivery over a new connection is C20's promise: judged there, in lab-lost-connection)
				_, _ = sbHost, sbPort
				for _, code := range []int{180, 200} {
					resp := buildResponse(tx.At.msg, code, "Answer", "t"+tx.ID, "")
					s.in.expect(resp)
					if err := send(resp); err != nil {
						V.HarnessError(rt, "backend send: %v", err)
					}
					min := 0
					if reachable {
						min = 1
					}
					rs, err := s.in.settle(send, min)
					if _, lost := err.(labLost); lost {
						failf(rt, "%v\nhistory: %v", err, hist)
					} else if err != nil {
						V.HarnessError(rt, "%v", err)
					}
					got := labMessages(rs)
					for _, r := range got {
						for ci, c := range conns {
							if r.tcp == c && ci != tx.Conn {
								failf(rt, "the response to %s, whose connection c%d is gone, was written to another client's connection c%d\nhistory: %v", tx.ID, tx.Conn, ci, hist)
							}
						}
					}
					if reachable {
						V.Class("responses for a lost connection delivered over a new one to the announced address")
						if len(got) != 1 || got[0].tcp == nil || got[0].ep == nil || got[0].ep.ip != sbHost || got[0].ep.port != sbPort {
							failf(rt, "the %d to %s can no longer be written to connection c%d (reset by the client); the client announced %s (no rport), where an element listens: the response must be delivered there, once, over a new connection; receptions:\n%shistory: %v", code, tx.ID, tx.Conn, tx.SentBy, labDescribe(got), hist)
						}
					}
				}
				// every transaction that was pending on the lost connection is lost with it
				var keep []*c12Txn
				for _, o := range outstanding {
					if o.Conn != tx.Conn {
						keep = append(keep, o)
					}
				}
				outstanding = keep
				V.Class("a client went away with a transaction pending; the others are served as before")
			},
			"clientCancels": func(rt *rapid.T) {
				// RFC 3261 9.1: the CANCEL of a pending INVITE carries the INVITE's
				// Request-URI, Call-ID, To, From, CSeq number and top Via - branch included.
				// Both transactions are then answered independently (200 to the CANCEL, 487
				// to the INVITE, in either order) and both answers belong on the connection
				var cand []*c12Txn
				for _, o := range outstanding {
					if o.Method == "INVITE" && !o.Cancel {
						cand = append(cand, o)
					}
				}
				if len(cand) == 0 || len(outstanding) >= 10 {
					rt.Skip("no pending INVITE")
				}
				inv := cand[rapid.IntRange(0, len(cand)-1).Draw(rt, "which INVITE")]
				inv.Cancel = true
				wire := strings.Replace(strings.Replace(inv.Wire, "INVITE sip:", "CANCEL sip:", 1), "CSeq: 1 INVITE", "CSeq: 1 CANCEL", 1)
				tx := &c12Txn{ID: inv.ID + "-cancel", Conn: inv.Conn, Method: "CANCEL", SentBy: inv.SentBy, CallID: inv.CallID, Wire: wire, Cancel: true, Rport: inv.Rport}
				c := conns[tx.Conn]
				hist = append(hist, fmt.Sprintf("c%d sends CANCEL for %s (same branch)", tx.Conn, inv.ID))
				V.Journal(t.Name()+"/histories", hist)
				s.in.expect([]byte(wire))
				if err := c.send([]byte(wire)); err != nil {
					V.HarnessError(rt, "send: %v", err)
				}
				rs, err := s.in.settle(c.sendStrict, 1)
				if _, lost := err.(labLost); lost {
					failf(rt, "%v\nhistory: %v", err, hist)
				} else if err != nil {
					V.HarnessError(rt, "%v", err)
				}
				got := labMessages(rs)
				if len(got) != 1 || !s.isBackendOf(got[0].ep, entry, got[0].tcp != nil) {
					failf(rt, "the CANCEL for %s must reach exactly one backend; receptions:\n%shistory: %v", inv.ID, labDescribe(got), hist)
				}
				tx.At = got[0]
				outstanding = append(outstanding, tx)
				V.Class("CANCEL with the INVITE's branch, both answered")
			},
			"manyOtherTransactions": func(rt *rapid.T) {
				if bursts >= 1 || totalBursts >= V.N(12, 150) || len(outstanding) == 0 || rapid.IntRange(0, 3).Draw(rt, "really") != 0 {
					rt.Skip("one burst per history, and only while something is pending")
				}
				bursts++
				totalBursts++
				// 70-160 complete transactions on the other connections while the
				// outstanding ones stay open: whatever the proxy keeps per transaction
				// must not push the pending ones out
				n := rapid.IntRange(70, 160).Draw(rt, "transactions")
				hist = append(hist, fmt.Sprintf("%d complete transactions on the connections while %d stay pending", n, len(outstanding)))
				V.Journal(t.Name()+"/histories", hist)
				for i := 0; i < n; i++ {
					ci := i % len(conns)
					for gone[ci] {
						ci = (ci + 1) % len(conns)
					}
					c := conns[ci]
					id := s.nextID("m")
					wire := []byte(fmt.Sprintf("OPTIONS sip:svc.test SIP/2.0\r\nVia: SIP/2.0/TCP %s;branch=z9hG4bK%s\r\nFrom: <sip:c%d@client.example>;tag=f%s\r\nTo: <sip:svc@nomatch.example>\r\nCall-ID: c12-%s\r\nCSeq: 1 OPTIONS\r\nContent-Length: 0\r\n\r\n", sentBys[0], id, ci, id, id))
					sb, _ := splitHostPort(sentBys[0])
					s.model.learnRequest(s.model.transport(entry, "tcp"), clientIP, &AMsg{IsReq: true, Hdrs: []AHdr{{Kind: hVia, Vias: []AVia{{Host: sb}}}}})
					s.in.expect(wire)
					if err := c.send(wire); err != nil {
						V.HarnessError(rt, "send: %v", err)
					}
					rs, err := s.in.settle(c.sendStrict, 1)
					if _, lost := err.(labLost); lost {
						failf(rt, "%v\nhistory: %v", err, hist)
					} else if err != nil {
						V.HarnessError(rt, "%v", err)
					}
					got := labMessages(rs)
					if len(got) != 1 || !s.isBackendOf(got[0].ep, entry, got[0].tcp != nil) {
						failf(rt, "request %d of the burst must reach exactly one backend; receptions:\n%shistory: %v", i+1, labDescribe(got), hist)
					}
					resp := buildResponse(got[0].msg, 200, "OK", "t", "")
					var send func([]byte) error
					if got[0].tcp != nil {
						send = got[0].tcp.send
					} else {
						pv, err := rVia(got[0].msg.Entries(hVia)[0])
						if err != nil {
							failf(rt, "top Via at the backend unreadable: %v", err)
						}
						ep := got[0].ep
						send = func(b []byte) error { return ep.sendUDP(pv.Host, pv.Port, b) }
					}
					s.in.expect(resp)
					if err := send(resp); err != nil {
						V.HarnessError(rt, "backend send: %v", err)
					}
					rs, err = s.in.settle(send, 1)
					if _, lost := err.(labLost); lost {
						failf(rt, "%v\nhistory: %v", err, hist)
					} else if err != nil {
						V.HarnessError(rt, "%v", err)
					}
					back := labMessages(rs)
					if len(back) != 1 || back[0].tcp != c {
						failf(rt, "the response to request %d of the burst must be written to connection c%d; receptions:\n%shistory: %v", i+1, ci, labDescribe(back), hist)
					}
				}
				V.Class(">= 70 transactions completed while others stayed pending")
			},
			"unrelatedUdpTraffic": func(rt *rapid.T) {
				ua := s.uas[1+rapid.IntRange(0, 2).Draw(rt, "ua")]
				id := s.nextID("u")
				wire := []byte(fmt.Sprintf("OPTIONS sip:svc.test SIP/2.0\r\nVia: SIP/2.0/UDP %s:5060;branch=z9hG4bK%s\r\nFrom: <sip:u@x>;tag=1\r\nTo: <sip:svc@nomatch.example>\r\nCall-ID: c12u-%s\r\nCSeq: 1 OPTIONS\r\nContent-Length: 0\r\n\r\n", ua.ip, id, id))
				send := func(b []byte) error { return ua.sendUDP(l.Addr, l.UDPPort, b) }
				s.model.learnRequest(s.model.transport(entry, "udp"), ua.ip, &AMsg{IsReq: true, Hdrs: []AHdr{{Kind: hVia, Vias: []AVia{{Host: ua.ip}}}}})
				s.in.expect(wire)
				if err := send(wire); err != nil {
					V.HarnessError(rt, "send: %v", err)
				}
				if _, err := s.in.settle(send, 1); err != nil {
					if _, lost := err.(labLost); lost {
						failf(rt, "%v\nhistory: %v", err, hist)
					}
					V.HarnessError(rt, "%v", err)
				}
				hist = append(hist, "unrelated UDP request "+id)
			},
		})
		V.ClassIf(shared, "connections share a sent-by")
		V.ClassIf(maxOpen >= 2, ">=2 transactions open at once")
		V.ClassIf(outOfOrder, "answered out of order")
		if shared && maxOpen >= 2 && outOfOrder {
			V.NonTrivial(strings.Join(hist, "|"))
		}
		V.SampleEvery(25, func() any { return hist })
	})
}

// c12Idle: on an instance of its own (so that it can run beside the histories):
// INVITEs over one client connection until one transaction sits at a UDP
// backend and one at the TCP backend; both backends answer 180; nothing
// happens for the given time; both answer 200. Every response must arrive on
// the client's connection. Returns "" or the failure ("harness: ..." for
// infrastructure trouble). No evidence calls: it runs on its own goroutine.
func c12Idle(idle time.Duration) string {
	s, err := newStdSvc(stdVariant{})
	if err != nil {
		return "harness: cannot start lab instance: " + err.Error()
	}
	l := s.in.cfg.Listens[0]
	clientIP := s.ip(10)
	c, err := s.in.hub.dialTCP("idle-client", clientIP, l.Addr, l.TCPPort)
	if err != nil {
		return "harness: dial: " + err.Error()
	}
	defer c.close()
	var atUDP, atTCP *labRx
	for i := 0; i < 8 && (atUDP == nil || atTCP == nil); i++ {
		id := s.nextID("idle")
		wire := []byte(fmt.Sprintf("INVITE sip:svc.test SIP/2.0\r\nVia: SIP/2.0/TCP %s:5060;branch=z9hG4bK%s\r\nFrom: <sip:c@client.example>;tag=f%s\r\nTo: <sip:svc@nomatch.example>\r\nCall-ID: c12-%s\r\nCSeq: 1 INVITE\r\nContent-Length: 0\r\n\r\n", clientIP, id, id, id))
		s.in.expect(wire)
		if err := c.send(wire); err != nil {
			return "harness: send: " + err.Error()
		}
		rs, err := s.in.settle(c.sendStrict, 1)
		if err != nil {
			return fmt.Sprintf("idle scenario: %v", err)
		}
		got := labMessages(rs)
		if len(got) != 1 || !s.isBackendOf(got[0].ep, 0, got[0].tcp != nil) {
			return fmt.Sprintf("idle scenario: INVITE %d must reach exactly one backend; receptions:\n%s", i+1, labDescribe(got))
		}
		r := got[0]
		if r.tcp != nil && atTCP == nil {
			atTCP = &r
		} else if r.tcp == nil && atUDP == nil {
			atUDP = &r
		}
	}
	if atUDP == nil || atTCP == nil {
		return "harness: idle scenario: the rotation did not reach both a UDP and the TCP backend within 8 requests"
	}
	answer := func(at *labRx, code int, what string) string {
		resp := buildResponse(at.msg, code, "Answer", "t", "")
		var send func([]byte) error
		if at.tcp != nil {
			send = at.tcp.send
		} else {
			pv, err := rVia(at.msg.Entries(hVia)[0])
			if err != nil {
				return "idle scenario: top Via at the backend unreadable"
			}
			ep := at.ep
			send = func(b []byte) error { return ep.sendUDP(pv.Host, pv.Port, b) }
		}
		s.in.expect(resp)
		if err := send(resp); err != nil {
			return fmt.Sprintf("%s: the backend could not write its %d on the connection the request came over: %v (the proxy closed a healthy connection)", what, code, err)
		}
		rs, err := s.in.settle(send, 1)
		if err != nil {
			if strings.Contains(err.Error(), "could not send the barrier") {
				return fmt.Sprintf("%s: after the %d the backend's connection from the proxy no longer takes data: %v (the proxy closed a healthy connection)", what, code, err)
			}
			return fmt.Sprintf("%s: %v", what, err)
		}
		got := labMessages(rs)
		if len(got) != 1 || got[0].tcp != c {
			return fmt.Sprintf("%s: the %d must be written to the client's connection (%s), the one the request used, and nowhere else; receptions:\n%s", what, code, c, labDescribe(got))
		}
		return ""
	}
	for _, at := range []*labRx{atUDP, atTCP} {
		if f := answer(at, 180, "idle scenario, before the pause"); f != "" {
			return f
		}
	}
	time.Sleep(idle)
	what := fmt.Sprintf("idle scenario, after %v without traffic on the client's connection and on the connection to the TCP backend", idle)
	for _, at := range []*labRx{atTCP, atUDP} {
		if f := answer(at, 200, what); f != "" {
			return f
		}
	}
	return ""
}

package main

// Abstract SIP message model and serializer (DESIGN.md 4.1). Shares no code
// with the product.

import (
	"bytes"
	"fmt"
	"strconv"
	"strings"
)

type AParam struct {
	K    string `json:"k"`
	V    string `json:"v,omitempty"`
	HasV bool   `json:"hasv,omitempty"`
}

func (p AParam) String() string {
	if p.HasV {
		return p.K + "=" + p.V
	}
	return p.K
}

func paramsString(ps []AParam, sep string) string {
	var sb strings.Builder
	for _, p := range ps {
		sb.WriteString(sep)
		sb.WriteString(p.String())
	}
	return sb.String()
}

type AURI struct {
	Abs    string   `json:"abs,omitempty"` // tel:/urn: text, whole
	Scheme string   `json:"scheme,omitempty"`
	User   string   `json:"user,omitempty"`
	Pass   string   `json:"pass,omitempty"`
	Host   string   `json:"host,omitempty"`
	Port   int      `json:"port,omitempty"` // 0 = absent
	Params []AParam `json:"params,omitempty"`
	Hdrs   []AParam `json:"hdrs,omitempty"`
}

func (u AURI) IsSIP() bool { return u.Abs == "" }

func (u AURI) String() string {
	if u.Abs != "" {
		return u.Abs
	}
	var sb strings.Builder
	sb.WriteString(u.Scheme + ":")
	if u.User != "" {
		sb.WriteString(u.User)
		if u.Pass != "" {
			sb.WriteString(":" + u.Pass)
		}
		sb.WriteString("@")
	}
	sb.WriteString(u.Host)
	if u.Port != 0 {
		sb.WriteString(":" + strconv.Itoa(u.Port))
	}
	sb.WriteString(paramsString(u.Params, ";"))
	for i, h := range u.Hdrs {
		if i == 0 {
			sb.WriteString("?")
		} else {
			sb.WriteString("&")
		}
		sb.WriteString(h.K + "=" + h.V)
	}
	return sb.String()
}

func (u AURI) Param(k string) (string, bool) {
	for _, p := range u.Params {
		if p.K == k {
			return p.V, true
		}
	}
	return "", false
}

// EffPort: explicit port or the scheme/transport default.
func (u AURI) EffPort() int {
	if u.Port != 0 {
		return u.Port
	}
	if t, ok := u.Param("transport"); ok && t == "tls" {
		return 5061
	}
	return 5060
}

func (u AURI) Transport() string {
	if t, ok := u.Param("transport"); ok {
		return t
	}
	return "udp"
}

type AVia struct {
	Proto     string   `json:"proto"`
	Ver       string   `json:"ver"`
	Transport string   `json:"transport"`
	Host      string   `json:"host"`
	Port      int      `json:"port,omitempty"`
	Params    []AParam `json:"params,omitempty"`
	// Raw: the entry's text as written - a well-formed via-parm this proxy's
	// decoder does not take (IPv6 reference, blanks around the slashes). It sits
	// on a header line of its own, teaches the proxy nothing and must be
	// relayed as it is.
	Raw string `json:"raw,omitempty"`
}

func (v AVia) String() string {
	if v.Raw != "" {
		return v.Raw
	}
	s := v.Proto + "/" + v.Ver + "/" + v.Transport + " " + v.Host
	if v.Port != 0 {
		s += ":" + strconv.Itoa(v.Port)
	}
	return s + paramsString(v.Params, ";")
}

func (v AVia) Param(k string) (string, bool, bool) {
	for _, p := range v.Params {
		if p.K == k {
			return p.V, p.HasV, true
		}
	}
	return "", false, false
}

// ANameAddr: name-addr or bare addr-spec with header parameters (From, To,
// Route and Record-Route entries).
type ANameAddr struct {
	Display string   `json:"display,omitempty"` // exact text before '<' (may end in one blank)
	URI     AURI     `json:"uri"`
	Bare    bool     `json:"bare,omitempty"` // addr-spec without <>
	Params  []AParam `json:"params,omitempty"`
}

func (n ANameAddr) String() string {
	if n.Bare {
		return n.URI.String() + paramsString(n.Params, ";")
	}
	return n.Display + "<" + n.URI.String() + ">" + paramsString(n.Params, ";")
}

func (n ANameAddr) Tag() (string, bool) {
	for _, p := range n.Params {
		if p.K == "tag" {
			return p.V, true
		}
	}
	return "", false
}

const (
	hExt = iota
	hVia
	hRoute
	hRR
	hFrom
	hTo
	hCallID
	hCSeq
	hCL
)

var hKindNames = []string{"ext", "Via", "Route", "Record-Route", "From", "To", "Call-ID", "CSeq", "Content-Length"}

// AHdr is one physical header line.
type AHdr struct {
	Kind  int         `json:"kind"`
	Name  string      `json:"name"`            // as spelled on the wire
	SP    string      `json:"sp"`              // blanks after the colon
	Value string      `json:"value,omitempty"` // ext, Call-ID, CSeq text
	Vias  []AVia      `json:"vias,omitempty"`
	NAs   []ANameAddr `json:"nas,omitempty"`  // Route / Record-Route entries, or the single From/To value
	Seps  []string    `json:"seps,omitempty"` // separators between list entries ("," or ", ")
	Raw   string      `json:"raw,omitempty"`  // when set, the value text verbatim (malformed values)
}

func (h AHdr) sep(i int) string {
	if i < len(h.Seps) {
		return h.Seps[i]
	}
	return ","
}

func (h AHdr) ValueText(bodyLen int) string {
	if h.Raw != "" {
		return h.Raw
	}
	switch h.Kind {
	case hVia:
		var sb strings.Builder
		for i, v := range h.Vias {
			if i > 0 {
				sb.WriteString(h.sep(i - 1))
			}
			sb.WriteString(v.String())
		}
		return sb.String()
	case hRoute, hRR, hFrom, hTo:
		var sb strings.Builder
		for i, v := range h.NAs {
			if i > 0 {
				sb.WriteString(h.sep(i - 1))
			}
			sb.WriteString(v.String())
		}
		return sb.String()
	case hCL:
		return strconv.Itoa(bodyLen)
	}
	return h.Value
}

type AMsg struct {
	IsReq   bool   `json:"is_req"`
	Method  string `json:"method,omitempty"`
	RURI    AURI   `json:"ruri,omitempty"`
	Version string `json:"version"`
	Code    int    `json:"code,omitempty"`
	Reason  string `json:"reason,omitempty"`
	Hdrs    []AHdr `json:"hdrs"`
	Body    []byte `json:"body,omitempty"`
	EOL     string `json:"eol"`
	// CLOverride, when non-empty, replaces the computed Content-Length value
	// (C08/C10: wrong declared lengths).
	CLOverride string `json:"cl_override,omitempty"`
	// StartOverride, when non-empty, replaces the start line (hostile inputs).
	StartOverride string `json:"start_override,omitempty"`
}

func (m *AMsg) StartLine() string {
	if m.StartOverride != "" {
		return m.StartOverride
	}
	if m.IsReq {
		return m.Method + " " + m.RURI.String() + " " + m.Version
	}
	return fmt.Sprintf("%s %d %s", m.Version, m.Code, m.Reason)
}

func (m *AMsg) Bytes() []byte {
	var b bytes.Buffer
	eol := m.EOL
	if eol == "" {
		eol = "\r\n"
	}
	b.WriteString(m.StartLine())
	b.WriteString(eol)
	for _, h := range m.Hdrs {
		b.WriteString(h.Name)
		b.WriteString(":")
		b.WriteString(h.SP)
		if h.Kind == hCL && m.CLOverride != "" {
			b.WriteString(m.CLOverride)
		} else {
			b.WriteString(h.ValueText(len(m.Body)))
		}
		b.WriteString(eol)
	}
	b.WriteString(eol)
	b.Write(m.Body)
	return b.Bytes()
}

// Vias returns the flattened Via entries in order.
func (m *AMsg) Vias() []AVia {
	var out []AVia
	for _, h := range m.Hdrs {
		if h.Kind == hVia {
			out = append(out, h.Vias...)
		}
	}
	return out
}

func (m *AMsg) NAList(kind int) []ANameAddr {
	var out []ANameAddr
	for _, h := range m.Hdrs {
		if h.Kind == kind {
			out = append(out, h.NAs...)
		}
	}
	return out
}

func (m *AMsg) First(kind int) *AHdr {
	for i := range m.Hdrs {
		if m.Hdrs[i].Kind == kind {
			return &m.Hdrs[i]
		}
	}
	return nil
}

// Others: the header lines the proxy does not own, as (name, value) in order.
func (m *AMsg) Others() [][2]string {
	var out [][2]string
	for _, h := range m.Hdrs {
		switch h.Kind {
		case hVia, hRoute, hRR, hCL:
			continue
		}
		out = append(out, [2]string{h.Name, trimBlanks(h.ValueText(0))})
	}
	return out
}

func trimBlanks(s string) string { return strings.Trim(s, " \t") }

// Clone makes a deep copy.
func (m *AMsg) Clone() *AMsg {
	c := *m
	c.Body = append([]byte(nil), m.Body...)
	c.Hdrs = make([]AHdr, len(m.Hdrs))
	for i, h := range m.Hdrs {
		n := h
		n.Vias = make([]AVia, len(h.Vias))
		for j, v := range h.Vias {
			v.Params = append([]AParam(nil), v.Params...)
			n.Vias[j] = v
		}
		n.NAs = make([]ANameAddr, len(h.NAs))
		for j, v := range h.NAs {
			v.Params = append([]AParam(nil), v.Params...)
			v.URI.Params = append([]AParam(nil), v.URI.Params...)
			v.URI.Hdrs = append([]AParam(nil), v.URI.Hdrs...)
			n.NAs[j] = v
		}
		n.Seps = append([]string(nil), h.Seps...)
		c.Hdrs[i] = n
	}
	c.RURI.Params = append([]AParam(nil), m.RURI.Params...)
	c.RURI.Hdrs = append([]AParam(nil), m.RURI.Hdrs...)
	return &c
}

// Summary is a short rendering for evidence samples and failure messages.
func (m *AMsg) Summary() map[string]any {
	names := []string{}
	for _, h := range m.Hdrs {
		names = append(names, h.Name)
	}
	return map[string]any{"start": m.StartLine(), "headers": strings.Join(names, ","), "body_len": len(m.Body), "eol": fmt.Sprintf("%q", m.EOL)}
}

// stampModel: the sender's entry as the statement says it must leave the proxy.
func stampModel(v AVia, on bool, srcIP string, srcPort int) AVia {
	if !on {
		return v
	}
	out := v
	out.Params = nil
	hadRcv := false
	for _, p := range v.Params {
		switch p.K {
		case "received":
			if hadRcv {
				continue
			}
			hadRcv = true
			p.V, p.HasV = srcIP, true
		case "rport":
			p.V, p.HasV = strconv.Itoa(srcPort), true
		}
		out.Params = append(out.Params, p)
	}
	if !hadRcv {
		out.Params = append(out.Params, AParam{K: "received", V: srcIP, HasV: true})
	}
	return out
}

//verif:needs sip
package main

// Lab engine, proxy side: generated configuration -> YAML text -> the
// product's own loadConfigFromReader / createPreConfigRoute /
// createPreConfigHostResolver / startProxy (exactly what main does after CLI
// parsing), plus the FIFO barrier used to decide absence.

import (
	"flag"
	"fmt"
	"net"
	"os"
	"os/exec"
	"path/filepath"
	"strconv"
	"strings"
	"sync"
	"time"

	"github.com/urfave/cli/v2"
)

type labListenCfg struct {
	Addr       string   `json:"address"`
	UDPPort    int      `json:"udp_port,omitempty"`
	TCPPort    int      `json:"tcp_port,omitempty"`
	Backends   []string `json:"backends,omitempty"`
	NoReceived string   `json:"no_received,omitempty"`       // "", "true", "false"
	MustRR     string   `json:"must_record_route,omitempty"` // "", "true", "false"
}

type labRouteCfg struct {
	Dests    []string `json:"dests"`
	Protocol string   `json:"protocol"`
	NextHop  string   `json:"nexthop"`
}

type labCfg struct {
	Name          string         `json:"name"`
	DialogTimeout int            `json:"dialog_timeout,omitempty"`
	Keep          string         `json:"keep_next_hop_route,omitempty"`
	KeepEnv       string         `json:"keep_next_hop_route_env,omitempty"`
	Listens       []labListenCfg `json:"listens"`
	Routes        []labRouteCfg  `json:"route,omitempty"`
	Hosts         [][2]string    `json:"hosts,omitempty"`
	GlobalHosts   [][2]string    `json:"global_hosts,omitempty"`
	More          []labCfg       `json:"more_services,omitempty"` // further entries under proxies: (their GlobalHosts / More are ignored)
}

func yq(s string) string { return "'" + strings.ReplaceAll(s, "'", "''") + "'" }

func (c labCfg) YAML() string {
	var sb strings.Builder
	sb.WriteString("admin:\n  addr: \"\"\nproxies:\n")
	c.serviceYAML(&sb)
	for _, m := range c.More {
		m.serviceYAML(&sb)
	}
	if len(c.GlobalHosts) > 0 {
		sb.WriteString("hosts:\n")
		for _, h := range c.GlobalHosts {
			sb.WriteString("- name: " + yq(h[0]) + "\n  ip: " + h[1] + "\n")
		}
	}
	return sb.String()
}

func (c labCfg) serviceYAML(sbp *strings.Builder) {
	sb := sbp
	sb.WriteString("- name: " + yq(c.Name) + "\n")
	if c.DialogTimeout > 0 {
		fmt.Fprintf(sb, "  dialogTimeout: %d\n", c.DialogTimeout)
	}
	if c.Keep != "" {
		sb.WriteString("  keepNextHopRoute: " + yq(c.Keep) + "\n")
	}
	sb.WriteString("  listens:\n")
	for _, l := range c.Listens {
		sb.WriteString("  - address: " + l.Addr + "\n")
		if l.UDPPort > 0 {
			fmt.Fprintf(sb, "    udp-port: %d\n", l.UDPPort)
		}
		if l.TCPPort > 0 {
			fmt.Fprintf(sb, "    tcp-port: %d\n", l.TCPPort)
		}
		if l.NoReceived != "" {
			sb.WriteString("    no-received: " + l.NoReceived + "\n")
		}
		if l.MustRR != "" {
			sb.WriteString("    must-record-route: " + l.MustRR + "\n")
		}
		if len(l.Backends) > 0 {
			sb.WriteString("    backends:\n")
			for _, b := range l.Backends {
				sb.WriteString("    - " + b + "\n")
			}
		}
	}
	if len(c.Routes) > 0 {
		sb.WriteString("  route:\n")
		for _, r := range c.Routes {
			sb.WriteString("  - dests:\n")
			for _, d := range r.Dests {
				sb.WriteString("    - " + yq(d) + "\n")
			}
			sb.WriteString("    protocol: " + r.Protocol + "\n")
			sb.WriteString("    nexthop: " + yq(r.NextHop) + "\n")
		}
	}
	if len(c.Hosts) > 0 {
		sb.WriteString("  hosts:\n")
		for _, h := range c.Hosts {
			sb.WriteString("  - name: " + yq(h[0]) + "\n    ip: " + h[1] + "\n")
		}
	}
}

func (c labCfg) keepOn() bool {
	k := c.Keep
	if k == "" {
		k = c.KeepEnv
	}
	switch strings.ToLower(k) {
	case "true", "yes", "1", "on", "t", "y":
		return true
	}
	return false
}

func (c labCfg) resolve(host string) (string, bool) {
	if isIPv4Literal(host) {
		return host, true
	}
	// per-proxy table overrides the global one
	for _, h := range c.Hosts {
		if h[0] == host {
			return h[1], true
		}
	}
	for _, h := range c.GlobalHosts {
		if h[0] == host {
			return h[1], true
		}
	}
	return "", false
}

func isIPv4Literal(s string) bool {
	parts := strings.Split(s, ".")
	if len(parts) != 4 {
		return false
	}
	for _, p := range parts {
		if p == "" || len(p) > 3 {
			return false
		}
		n := 0
		for _, c := range p {
			if c < '0' || c > '9' {
				return false
			}
			n = n*10 + int(c-'0')
		}
		if n > 255 {
			return false
		}
	}
	return true
}

type labInst struct {
	net      *labNet
	c        int // third octet of this instance's /24
	cfg      labCfg
	hub      *labHub
	sink     *labEP
	barrierN int
	mu       sync.Mutex
	grace    time.Duration
	// Call-IDs of the stimulus in flight: receptions carrying another Call-ID are
	// late arrivals of an earlier case (a harness reader goroutine was slow);
	// they are counted and ignored - lost sensitivity, never a false alarm
	expectIDs map[string]bool
	late      int64
	// bin engine: the service runs as the real binary in a subprocess
	bin       *exec.Cmd
	binLog    string
	binExited chan struct{}
	binStatus string
}

var labInstCount int
var labInstMu sync.Mutex

// labNewInst allocates the next /24 of the process's block.
func labNewInst() *labInst {
	n := labReserve()
	labInstMu.Lock()
	labInstCount++
	c := labInstCount
	labInstMu.Unlock()
	if c > 250 {
		panic("verif harness: too many lab instances in one process")
	}
	in := &labInst{net: n, c: c, hub: newLabHub(), grace: 400 * time.Microsecond}
	return in
}

func (in *labInst) ip(d int) string { return in.net.ip(in.c, d) }

// start launches the service described by cfg exactly as main does: the
// generated YAML is written to a file and the product's own startProxies (the
// CLI action) runs with a context that carries --config and the logging flags;
// it never returns on success (main's keep-alive loop), so it gets its own
// goroutine and readiness is probed from outside, with barriers.
func (in *labInst) start(cfg labCfg) error {
	in.cfg = cfg
	dir := os.Getenv("VERIF_OUT")
	if dir == "" {
		dir = os.TempDir()
	}
	yml := filepath.Join(dir, fmt.Sprintf("sipproxy-%d-%d.yaml", os.Getpid(), in.c))
	if err := os.WriteFile(yml, []byte(cfg.YAML()), 0o644); err != nil {
		return err
	}
	set := flag.NewFlagSet("sipproxy", flag.ContinueOnError)
	set.String("config", yml, "")
	set.String("log-file", "", "")
	set.String("log-level", "Fatal", "")
	set.Int("log-size", 50, "")
	set.Int("log-backups", 10, "")
	set.String("log-format", "text", "")
	set.Int("profiling-port", 0, "")
	errc := make(chan error, 1)
	go func() { errc <- startProxies(cli.NewContext(nil, set, nil)) }()
	s, err := in.hub.udpEP("sink", in.ip(250), 5999)
	if err != nil {
		return err
	}
	in.sink = s
	return in.waitReady(errc)
}

// waitReady sends barriers to every UDP listener of the configuration (TCP-only
// entries: connects) until each has answered once.
func (in *labInst) waitReady(errc <-chan error) error {
	probe, err := in.hub.udpEP("ready-probe", in.ip(250), 5998)
	if err != nil {
		return err
	}
	listens := append([]labListenCfg{}, in.cfg.Listens...)
	for _, x := range in.cfg.More {
		listens = append(listens, x.Listens...)
	}
	for _, l := range listens {
		budget := newPatience(30 * time.Second)
		for up := false; !up; {
			select {
			case err := <-errc:
				return fmt.Errorf("startProxies returned: %v\n%s", err, in.cfg.YAML())
			default:
			}
			if l.UDPPort > 0 {
				in.barrierN++
				n := in.barrierN
				probe.sendUDP(l.Addr, l.UDPPort, in.barrierBytes(n))
				for {
					r, ok, _ := patientRecvP(in.hub.rx, budget, 30*time.Millisecond)
					if !ok {
						break
					}
					if bn, isb := isBarrier(r); isb && bn == n {
						up = true
						break
					}
				}
			} else {
				c, err := net.DialTimeout("tcp", l.Addr+":"+strconv.Itoa(l.TCPPort), time.Second)
				if err == nil {
					c.Close()
					up = true
				} else {
					time.Sleep(10 * time.Millisecond)
				}
			}
			if !up && budget.spent() {
				return fmt.Errorf("listener %s (udp %d, tcp %d) did not come up within 30 s", l.Addr, l.UDPPort, l.TCPPort)
			}
		}
	}
	in.hub.drain()
	return nil
}

// startBin launches the real binary (built by the driver from the same overlay,
// path in VERIF_BIN / VERIF_RACEBIN) with the generated YAML as --config.
// env adds environment variables (KEEP_NEXT_HOP_ROUTE, DEFAULT_DIALOG_TIMEOUT).
func (in *labInst) startBin(cfg labCfg, race bool, env ...string) error {
	in.cfg = cfg
	path := os.Getenv("VERIF_BIN")
	if race {
		path = os.Getenv("VERIF_RACEBIN")
	}
	if path == "" {
		return fmt.Errorf("harness: no binary built for this check (VERIF_BIN empty)")
	}
	dir := os.Getenv("VERIF_OUT")
	if dir == "" {
		dir = os.TempDir()
	}
	yml := filepath.Join(dir, fmt.Sprintf("sipproxy-%d.yaml", in.c))
	if err := os.WriteFile(yml, []byte(cfg.YAML()), 0o644); err != nil {
		return err
	}
	in.binLog = filepath.Join(dir, fmt.Sprintf("sipproxy-%d.log", in.c))
	lf, err := os.Create(in.binLog)
	if err != nil {
		return err
	}
	cmd := exec.Command(path, "--config", yml, "--log-level", "Error")
	for _, e := range env {
		// VERIF_NOFILE=n: the binary runs under a descriptor limit of n (ulimit -n)
		if strings.HasPrefix(e, "VERIF_NOFILE=") {
			cmd = exec.Command("/bin/sh", "-c", "ulimit -n "+strings.TrimPrefix(e, "VERIF_NOFILE=")+" && exec \"$0\" \"$@\"", path, "--config", yml, "--log-level", "Error")
		}
	}
	cmd.Stdout, cmd.Stderr = lf, lf
	cmd.Env = append(os.Environ(), "GORACE=halt_on_error=0 exitcode=66")
	cmd.Env = append(cmd.Env, env...)
	if err := cmd.Start(); err != nil {
		return err
	}
	in.bin = cmd
	in.binExited = make(chan struct{})
	go func() {
		err := cmd.Wait()
		in.binStatus = fmt.Sprint(err)
		lf.Close()
		close(in.binExited)
	}()
	// wait until the listeners are up
	s, err := in.hub.udpEP("sink", in.ip(250), 5999)
	if err != nil {
		return err
	}
	in.sink = s
	errc := make(chan error, 1)
	go func() {
		<-in.binExited
		errc <- fmt.Errorf("the binary exited during start-up: %s (log %s)", in.binStatus, in.binLog)
	}()
	return in.waitReady(errc)
}

// binAlive reports whether the subprocess is still running ("" = yes).
func (in *labInst) binDead() string {
	if in.bin == nil {
		return ""
	}
	select {
	case <-in.binExited:
		b, _ := os.ReadFile(in.binLog)
		tail := string(b)
		if len(tail) > 3000 {
			tail = tail[len(tail)-3000:]
		}
		return fmt.Sprintf("the sipproxy binary exited: %s\n%s", in.binStatus, tail)
	default:
		return ""
	}
}

func (in *labInst) binRSSKiB() int {
	if in.bin == nil || in.bin.Process == nil {
		return 0
	}
	b, err := os.ReadFile(fmt.Sprintf("/proc/%d/status", in.bin.Process.Pid))
	if err != nil {
		return 0
	}
	for _, line := range strings.Split(string(b), "\n") {
		if strings.HasPrefix(line, "VmRSS:") {
			f := strings.Fields(line)
			if len(f) >= 2 {
				n, _ := strconv.Atoi(f[1])
				return n
			}
		}
	}
	return 0
}

func (in *labInst) binRaces() int {
	if in.binLog == "" {
		return 0
	}
	b, _ := os.ReadFile(in.binLog)
	return strings.Count(string(b), "WARNING: DATA RACE")
}

func (in *labInst) stopBin() {
	if in.bin != nil && in.bin.Process != nil {
		in.bin.Process.Kill()
		<-in.binExited
	}
}

func (in *labInst) barrierBytes(n int) []byte {
	return []byte(fmt.Sprintf("SIP/2.0 100 Barrier\r\nVia: SIP/2.0/UDP 127.0.0.2:9;branch=z9hG4bKverifbarrier%d\r\nVia: SIP/2.0/UDP %s:%d;branch=z9hG4bKverifsink%d\r\nFrom: <sip:barrier@verif.invalid>;tag=b\r\nTo: <sip:barrier@verif.invalid>\r\nCall-ID: verif-barrier-%d\r\nCSeq: 1 OPTIONS\r\nContent-Length: 0\r\n\r\n",
		n, in.sink.ip, in.sink.port, n, n))
}

func isBarrier(r labRx) (int, bool) {
	if r.msg == nil {
		return 0, false
	}
	id, ok := r.msg.First(hCallID)
	if !ok || !strings.HasPrefix(id, "verif-barrier-") {
		return 0, false
	}
	n := 0
	fmt.Sscanf(id[len("verif-barrier-"):], "%d", &n)
	return n, true
}

type labLost struct{ what string }

func (e labLost) Error() string { return e.what }

// expect names the stimulus about to be sent: settle then returns only
// receptions that carry the same Call-ID, CSeq and kind (method for requests,
// status code for responses) - what the proxy relays for a stimulus keeps all
// three. Anything else is a late arrival of an earlier step (possibly of the
// same dialog or transaction) and is counted and ignored.
func (in *labInst) expect(wires ...[]byte) {
	in.expectIDs = map[string]bool{}
	for _, w := range wires {
		if m, err := sipRead(w); err == nil {
			if k, ok := expectKey(m); ok {
				in.expectIDs[k] = true
			}
		}
	}
}

func expectKey(m *RMsg) (string, bool) {
	id, ok := m.First(hCallID)
	if !ok {
		return "", false
	}
	cseq, _ := m.First(hCSeq)
	kind := ""
	f := strings.Fields(m.Start)
	if strings.HasPrefix(m.Start, "SIP/") {
		if len(f) >= 2 {
			kind = f[1]
		}
	} else if len(f) >= 1 {
		kind = f[0]
	}
	return id + "|" + strings.Join(strings.Fields(cseq), " ") + "|" + kind, true
}

func (in *labInst) mine(r labRx) bool {
	if len(in.expectIDs) == 0 || r.msg == nil || r.closed {
		return true
	}
	k, ok := expectKey(r.msg)
	if !ok || in.expectIDs[k] {
		return true
	}
	in.late++
	V.ExtraAdd("late_arrivals_of_earlier_cases_ignored", 1)
	return false
}

// settle sends a barrier through the same ingress path as the stimulus
// (send), waits until it has come out at the sink (everything queued before
// it has then been handled by the FIFO proxy loop), keeps waiting up to 20 s
// for at least min receptions, then drains after a short grace. It returns
// every reception other than barriers.
func (in *labInst) settle(send func([]byte) error, min int) ([]labRx, error) {
	t0 := time.Now()
	defer func() {
		d := time.Since(t0)
		V.ExtraAdd("settle_calls", 1)
		V.ExtraAdd("settle_total_us", d.Microseconds())
		switch {
		case d > 50*time.Millisecond:
			V.ExtraAdd("settle_calls_over_50ms", 1)
		case d > 10*time.Millisecond:
			V.ExtraAdd("settle_calls_10_50ms", 1)
		case d > 3*time.Millisecond:
			V.ExtraAdd("settle_calls_3_10ms", 1)
		case d > time.Millisecond:
			V.ExtraAdd("settle_calls_1_3ms", 1)
		default:
			V.ExtraAdd("settle_calls_under_1ms", 1)
		}
	}()
	in.barrierN++
	n := in.barrierN
	if err := send(in.barrierBytes(n)); err != nil {
		if _, lost := err.(labLost); lost {
			return nil, err
		}
		return nil, fmt.Errorf("harness could not send the barrier: %v", err)
	}
	var out []labRx
	seen := false
	nmsg := 0                               // receptions that carry a message (connection-closed events do not count towards min)
	budget := newPatience(20 * time.Second) // running time: a frozen sandbox does not use it up
	for !seen || nmsg < min {
		if budget.left <= 0 {
			if !seen {
				if d := in.binDead(); d != "" {
					return out, labLost{d}
				}
				return out, labLost{fmt.Sprintf("barrier #%d sent behind the stimulus never came out of the proxy within 20 s (message loop wedged, dead, or an in-domain 1xx response was dropped)", n)}
			}
			return out, nil
		}
		tw := time.Now()
		if in.bin != nil {
			if d := in.binDead(); d != "" {
				return out, labLost{d}
			}
		}
		r, ok, _ := patientRecvP(in.hub.rx, budget, time.Second)
		V.ExtraAdd("settle_wait_us", time.Since(tw).Microseconds())
		if !ok {
			continue
		}
		if bn, isb := isBarrier(r); isb {
			if bn == n {
				seen = true
			}
			continue
		}
		if in.mine(r) {
			out = append(out, r)
			if r.msg != nil && !r.closed {
				nmsg++
			}
		}
	}
	time.Sleep(in.grace)
	for _, r := range in.hub.drain() {
		if _, isb := isBarrier(r); isb {
			continue
		}
		if in.mine(r) {
			out = append(out, r)
		}
	}
	return out, nil
}

// messages filters receptions that carry a message (drops TCP close events).
func labMessages(rs []labRx) []labRx {
	var out []labRx
	for _, r := range rs {
		if r.msg != nil && !r.closed {
			out = append(out, r)
		}
	}
	return out
}

func labDescribe(rs []labRx) string {
	var sb strings.Builder
	for _, r := range rs {
		if r.closed {
			fmt.Fprintf(&sb, "  [%s] connection closed\n", r.where())
			continue
		}
		start := "(undecodable)"
		if r.msg != nil {
			start = r.msg.Start
		}
		fmt.Fprintf(&sb, "  [%s] from %s: %s\n", r.where(), r.from, start)
	}
	if sb.Len() == 0 {
		return "  (nothing)\n"
	}
	return sb.String()
}

package main

// Lab engine: generating, executing and judging one relayed message on the
// standard service. The aspect checkers (content, Via, Record-Route, Route,
// destination) are used by C01, C02, C06, C07, C13 and C17, each asserting
// only the aspects its property owns.

import (
	"bytes"
	"fmt"
	"strconv"
	"strings"

	"pgregory.net/rapid"
)

type relayOpts struct {
	Paths      []string // subset of "backend","route","static"
	MaxVias    int
	MaxRRs     int
	MaxExt     int
	MaxLong    int
	MaxBody    int
	RichRoute  bool  // C13-style route sets
	JoinOpaque bool  // undecodable Via entries may share a header line with decodable ones (below the first line)
	LongLists  bool  // now and then a Record-Route list long enough that joined lines exceed the 4096-byte reader window
	Sloppy     bool  // C01: Content-Length with leading zeros; blanks after ';' and around '=' in From / To header parameters other than tag
	Entries    []int // listen entries to use as ingress
	NoTCP      bool
}

type relayCase struct {
	Path    string     `json:"path"`
	Ingress stdIngress `json:"ingress"`
	Msg     *AMsg      `json:"-"`
	Wire    string     `json:"wire"`
	FirstRt string     `json:"first_route_kind,omitempty"`
	HopKind string     `json:"hop_kind,omitempty"`
}

// hop endpoints of the standard service by learning status (see primeHops)
type stdHop struct {
	IP   string
	Port int
	Name string // alias in the host table ("" = none)
}

func (s *stdSvc) gHop(rt *rapid.T, label string, proto string) (AURI, string) {
	u := AURI{Scheme: "sip"}
	kind := rapid.SampledFrom([]string{"never-learned", "never-learned-alias", "primed-L1", "primed-L2", "default-port", "a-user-agent", "a-user-agent"}).Draw(rt, label+".kind")
	switch kind {
	case "a-user-agent":
		// user agents are learned through whichever listener (UDP or TCP, any
		// listen entry) they last sent a request to
		u.Host, u.Port = s.ip(10+rapid.IntRange(0, 3).Draw(rt, label+".ua")), rapid.SampledFrom([]int{5060, 6010, 0}).Draw(rt, label+".uaport")
	case "never-learned":
		u.Host, u.Port = s.ip(25), rapid.SampledFrom([]int{5070, 5070, s.high}).Draw(rt, label+".hopport")
	case "never-learned-alias":
		u.Host, u.Port = rapid.SampledFrom([]string{"hop-c.test", "hop-c.test", "Hop-B.Corp.test"}).Draw(rt, label+".alias"), 5070
	case "primed-L1":
		u.Host, u.Port = s.ip(20), rapid.SampledFrom([]int{5070, 5070, s.high}).Draw(rt, label+".hopport")
	case "primed-L2":
		u.Host, u.Port = s.ip(24), 5070
	default:
		u.Host, u.Port = s.ip(21), 0
	}
	if rapid.Bool().Draw(rt, label+".user") {
		u.User = gFromAlphabet(rt, label+".userv", tokAlpha+"-_.!~*'&=+$/", 1, 8)
	}
	u.Params = gParamList(rt, label+".params", 3, uriParamValAlpha, uriParamReserved)
	u.Params = gInsertParam(rt, label+".lrpos", u.Params, AParam{K: "lr"})
	if proto == "tcp" {
		u.Params = gInsertParam(rt, label+".tpos", u.Params, AParam{K: "transport", V: "tcp", HasV: true})
	} else if rapid.IntRange(0, 3).Draw(rt, label+".explicitudp") == 0 {
		u.Params = gInsertParam(rt, label+".tpos", u.Params, AParam{K: "transport", V: "udp", HasV: true})
	}
	return u, kind
}

// primeHops makes hop .20 known through listen entry 0 and hop .24 through
// entry 1 (a request received from that host), exactly once per service.
func (s *stdSvc) primeHops() error {
	if s.primed {
		return nil
	}
	for _, pr := range []struct {
		d, entry int
	}{{20, 0}, {24, 1}} {
		ep, err := s.in.hub.udpEP("", s.ip(pr.d), 5070)
		if err != nil {
			return err
		}
		l := s.in.cfg.Listens[pr.entry]
		msg := fmt.Sprintf("OPTIONS sip:nobody@unrouted.invalid SIP/2.0\r\nVia: SIP/2.0/UDP %s:5070;branch=z9hG4bKprime%d\r\nFrom: <sip:prime@verif.invalid>;tag=p\r\nTo: <sip:nobody@unrouted.invalid>\r\nCall-ID: verif-prime-%d\r\nCSeq: 1 OPTIONS\r\nContent-Length: 0\r\n\r\n", ep.ip, pr.d, pr.d)
		am := &AMsg{IsReq: true, Hdrs: []AHdr{{Kind: hVia, Vias: []AVia{{Host: ep.ip}}}}}
		L := s.model.transport(pr.entry, "udp")
		s.model.learnRequest(L, ep.ip, am)
		send := func(b []byte) error { return ep.sendUDP(l.Addr, l.UDPPort, b) }
		s.in.expect([]byte(msg)) // (what earlier sub-tests left in flight is not the priming request)
		if err := send([]byte(msg)); err != nil {
			return err
		}
		rs, err := s.in.settle(send, 0)
		if err != nil {
			return err
		}
		if len(labMessages(rs)) != 0 {
			return fmt.Errorf("priming request was relayed:\n%s", labDescribe(rs))
		}
	}
	s.primed = true
	return nil
}

func (s *stdSvc) gServiceRURI(rt *rapid.T, label string, L *mTransport) AURI {
	var u AURI
	user := gFromAlphabet(rt, label+".user", tokAlpha+"-_.!~*'&=+$/%", 1, 8)
	switch rapid.IntRange(0, 5).Draw(rt, label+".kind") {
	case 0:
		u = AURI{Scheme: "sip", Host: "svc.test"}
		if rapid.Bool().Draw(rt, label+".hasuser") {
			u.User = user
		}
	case 1:
		u = AURI{Scheme: "sip", User: user, Host: "emergency.test"}
	case 2:
		u = AURI{Scheme: "sip", User: "sos", Host: "svc2.test"}
	case 3:
		return AURI{Abs: rapid.SampledFrom([]string{"urn:service:sos", "urn:service:sos.police", "tel:+15551234", "tel:1900;phone-context=+1", "tel:+1555;ext=12;isub=%41"}).Draw(rt, label+".abs")}
	case 4:
		u = AURI{Scheme: "sip", Host: L.Addr, Port: L.Port}
		if L.Port == 5060 && rapid.Bool().Draw(rt, label+".noport") {
			u.Port = 0 // the default port designates the listener as well
		}
		if rapid.Bool().Draw(rt, label+".hasuser") {
			u.User = user
		}
		if rapid.Bool().Draw(rt, label+".hasparams") {
			if u.Port == 0 {
				// without a port the transport decides the default port: no transport=tls here
				u.Params = gParamList(rt, label+".params", 4, uriParamValAlpha, uriParamReserved)
			} else {
				u.Params = gURIParams(rt, label+".params")
			}
		}
		return u
	default:
		u = AURI{Scheme: "sips", User: user, Host: "svc.test"}
	}
	if rapid.IntRange(0, 4).Draw(rt, label+".pass") == 0 && u.User != "" {
		u.Pass = gFromAlphabet(rt, label+".passv", tokAlpha+"-_.!~*'&=+$%", 1, 5)
	}
	u.Port = gPort(rt, label+".port")
	u.Params = gURIParams(rt, label+".params")
	nh := rapid.IntRange(0, 4).Draw(rt, label+".nh")
	if nh > 2 {
		nh = 0
	}
	for i := 0; i < nh; i++ {
		h := AParam{K: gFromAlphabet(rt, label+".hk", tokAlpha+"-._!~*'+$/?:[]%", 1, 6), HasV: true}
		if rapid.Bool().Draw(rt, label+".hv?") {
			h.V = gFromAlphabet(rt, label+".hv", tokAlpha+"-._!~*'+$/?:[]%", 1, 8)
		}
		u.Hdrs = append(u.Hdrs, h)
	}
	return u
}

// gViaStack: the sender's own Via on top (naming UA address or something
// else), then further entries beneath.
func (s *stdSvc) gViaStack(rt *rapid.T, label string, g stdIngress, max int) []AVia {
	n := rapid.IntRange(0, max).Draw(rt, label+".n")
	if max > 0 && rapid.IntRange(0, 9).Draw(rt, label+".atleast1") > 0 && n == 0 {
		n = 1
	}
	hostFn := func(rt *rapid.T, l string) string {
		switch rapid.IntRange(0, 4).Draw(rt, l+".kind") {
		case 0:
			return s.ip(10 + rapid.IntRange(0, 3).Draw(rt, l+".ua"))
		case 1:
			return rapid.SampledFrom([]string{"ua-a.test", "ua-b.test", "client.example.org", "10.77.0.9"}).Draw(rt, l)
		default:
			return gHostName(rt, l)
		}
	}
	var out []AVia
	for i := 0; i < n; i++ {
		v := gVia(rt, fmt.Sprintf("%s.%d", label, i), viaOpts{hostFn: hostFn})
		if i > 0 && rapid.IntRange(0, 9).Draw(rt, fmt.Sprintf("%s.%d.opaque", label, i)) == 0 {
			v = gOpaqueVia(rt, fmt.Sprintf("%s.%d", label, i))
		}
		if i == 0 {
			// the sender's entry: make it unique so that transactions never collide
			v.Proto, v.Ver = "SIP", "2.0"
			v.Transport = map[bool]string{false: "UDP", true: "TCP"}[g.TCP]
			if rapid.IntRange(0, 2).Draw(rt, label+".own") > 0 {
				v.Host, v.Port = s.ip(10+g.UA), 5060
			}
			var ps []AParam
			for _, p := range v.Params {
				if p.K != "branch" {
					ps = append(ps, p)
				}
			}
			v.Params = gInsertParam(rt, label+".bpos", ps, AParam{K: "branch", V: "z9hG4bK" + s.nextID("br"), HasV: true})
		}
		out = append(out, v)
	}
	return out
}

func (s *stdSvc) gRouteEntry(rt *rapid.T, label string) ANameAddr {
	// Such an entry can become the next hop (C13: own entry consumed, no
	// explicit hop): its host is therefore either unresolvable (the request is
	// then dropped at once) or a harness endpoint - never an address outside
	// the private loopback block, which could black-hole a TCP dial.
	n := gNameAddr(rt, label, naOpts{maxParams: 3, tag: new(string), uri: uriOpts{hostFn: func(rt *rapid.T, l string) string {
		return rapid.SampledFrom([]string{"later.example", "edge.example.net", "hop-b.test", s.ip(21)}).Draw(rt, l)
	}, userFn: func(rt *rapid.T, l string) string { return gFromAlphabet(rt, l, tokAlpha+"-_.!~*'&=+$/%", 1, 8) }}})
	n.URI.Hdrs = nil
	n.URI.Port = rapid.SampledFrom([]int{0, 5060, 5070, 5061}).Draw(rt, label+".port")
	return n
}

// gRelayRequest builds a request that takes the drawn relaying path.
func (s *stdSvc) gRelayRequest(rt *rapid.T, o relayOpts) relayCase {
	entries := o.Entries
	if len(entries) == 0 {
		entries = []int{0, 1}
	}
	rc := relayCase{Path: rapid.SampledFrom(o.Paths).Draw(rt, "path")}
	if rc.Path == "backend" {
		// entry 2 has no backends
		var e2 []int
		for _, e := range entries {
			if e != 2 {
				e2 = append(e2, e)
			}
		}
		entries = e2
	}
	g := s.gIngress(rt, "ingress", entries)
	if o.NoTCP {
		g.TCP = false
	}
	rc.Ingress = g
	L := s.transportOf(g)
	p := msgParts{IsReq: true, Version: "SIP/2.0", JoinOpaque: o.JoinOpaque}
	p.Method = gMethod(rt, "method")
	p.CSeqMethod = p.Method
	p.CSeqN = rapid.IntRange(0, 1<<31-1).Draw(rt, "cseq")
	p.CallID = s.nextID("cid-") + gIdent(rt, "callid")
	p.From = gNameAddr(rt, "from", naOpts{allowAbs: true, allowBare: true, maxParams: 3})
	toTag := ""
	if rapid.IntRange(0, 4).Draw(rt, "totag") == 0 {
		toTag = gTok(rt, "totagv")
	}
	// C01: now and then a request of a dialog, of a method the proxy has feature
	// code for, carrying the headers that go with it - written the way RFC 3261
	// allows (blanks around ';' and '=', empty parameter values, odd case). They
	// are none of the proxy's business: name and value pass as they are.
	inDialog := o.Sloppy && rapid.IntRange(0, 5).Draw(rt, "an in-dialog request with the headers of its method") == 0
	if inDialog {
		p.Method = rapid.SampledFrom([]string{"NOTIFY", "NOTIFY", "SUBSCRIBE", "BYE", "INVITE", "UPDATE", "REFER", "ACK", "CANCEL", "PRACK", "INFO"}).Draw(rt, "dialog method")
		p.CSeqMethod = p.Method
		if toTag == "" {
			toTag = gTok(rt, "totagv")
		}
		hasTag := false
		for _, q := range p.From.Params {
			hasTag = hasTag || q.K == "tag"
		}
		if !hasTag {
			p.From.Params = append(p.From.Params, AParam{K: "tag", V: gTok(rt, "fromtagv"), HasV: true})
		}
	}
	toHostStatic := []string{"static-udp.test", "static-tcp.test", "static-noport.test", "x.wudp.test", "y.z.wtcp.test", "also-udp.test", "q.wmid.test", "r.wlast.test", "tail-lit.test", "k.wtcp2.test", "plain-w.test", "static-high.test", "Static-Caps.Corp.test"}
	switch rc.Path {
	case "static":
		p.To = gNameAddr(rt, "to", naOpts{allowBare: true, maxParams: 3, tag: &toTag, uri: uriOpts{hostFn: func(rt *rapid.T, l string) string { return rapid.SampledFrom(toHostStatic).Draw(rt, l) }}})
	default:
		p.To = gNameAddr(rt, "to", naOpts{allowAbs: true, allowBare: true, maxParams: 3, tag: &toTag, uri: uriOpts{hostFn: func(rt *rapid.T, l string) string {
			return rapid.SampledFrom([]string{"callee.example", "nomatch.example", "10.1.2.3", "static-udp.tes"}).Draw(rt, l)
		}}})
	}
	// Request-URI
	if rc.Path == "backend" {
		p.RURI = s.gServiceRURI(rt, "ruri", L)
	} else if rapid.Bool().Draw(rt, "svcruri") {
		p.RURI = s.gServiceRURI(rt, "ruri", L)
	} else if rapid.IntRange(0, 3).Draw(rt, "absruri") == 0 {
		p.RURI = gAbsURI(rt, "ruri")
	} else {
		p.RURI = gSIPURI(rt, "ruri", uriOpts{})
	}
	// Route
	proto := ""
	if rc.Path == "route" {
		proto = rapid.SampledFrom([]string{"udp", "udp", "tcp"}).Draw(rt, "hopproto")
		hu, kind := s.gHop(rt, "hop", proto)
		rc.HopKind = kind
		hop := ANameAddr{URI: hu, Display: gDisplay(rt, "hopdisplay", false), Params: gParamList(rt, "hopparams", 2, hdrParamValAlpha, hdrParamReserved)}
		if rapid.IntRange(0, 2).Draw(rt, "own") == 0 {
			p.Routes = append(p.Routes, c03OwnRoute(rt, s, L))
			rc.FirstRt = "own"
		}
		p.Routes = append(p.Routes, hop)
		more := rapid.IntRange(0, 4).Draw(rt, "moreroutes")
		for i := 0; i < more; i++ {
			p.Routes = append(p.Routes, s.gRouteEntry(rt, fmt.Sprintf("route%d", i)))
		}
	} else if rapid.IntRange(0, 3).Draw(rt, "ownonly") == 0 {
		p.Routes = append(p.Routes, c03OwnRoute(rt, s, L))
		rc.FirstRt = "own-only"
	}
	p.Vias = s.gViaStack(rt, "via", g, o.MaxVias)
	nrr := rapid.IntRange(0, o.MaxRRs).Draw(rt, "nrr")
	if o.MaxRRs > 0 && rapid.IntRange(0, 2).Draw(rt, "norr") == 0 {
		nrr = 0
	}
	for i := 0; i < nrr; i++ {
		p.RRs = append(p.RRs, s.gRouteEntry(rt, fmt.Sprintf("rr%d", i)))
	}
	if o.LongLists && rapid.IntRange(0, 9).Draw(rt, "a long Record-Route list") == 0 {
		for i, k := 0, rapid.IntRange(130, 220).Draw(rt, "long list entries"); i < k; i++ {
			p.RRs = append(p.RRs, ANameAddr{URI: AURI{Scheme: "sip", Host: fmt.Sprintf("hop%03d.example.net", i), Params: []AParam{{K: "lr"}}}})
		}
	}
	p.Ext = gExtHeaders(rt, "ext", o.MaxExt, o.MaxLong)
	if inDialog {
		feature := [][2]string{
			{"Subscription-State", "terminated; reason=timeout"}, {"Subscription-State", "active ;expires=3599"}, {"subscription-state", "pending; x="}, {"Subscription-State", "terminated;reason= noresource ; retry-after=5"}, {"Subscription-State", "Terminated"}, {"SUBSCRIPTION-STATE", "terminated"},
			{"Expires", " 3600"}, {"Expires", "0"}, {"expires", "4294967295"}, {"Event", "presence; id=7"}, {"o", "dialog ;sla"}, {"Session-Expires", "1800; refresher=uas"}, {"Min-SE", "90 "},
			{"Contact", "<sip:u@192.0.2.7:5090; transport=tcp> ; expires=60"}, {"m", "*"}, {"Refer-To", "<sip:x@y.example?Replaces=a%40b%3Bto-tag%3D1>"}, {"RAck", "1  2 INVITE"}, {"RSeq", "0017"}, {"Max-Forwards", "070"}, {"Reason", "SIP ;cause=200 ;text=\"x; y\""},
		}
		for i, k := 0, rapid.IntRange(1, 3).Draw(rt, "feature headers"); i < k; i++ {
			f := feature[rapid.IntRange(0, len(feature)-1).Draw(rt, "feature header")]
			h := AHdr{Kind: hExt, Name: f[0], SP: gSP(rt, "feature.sp"), Value: strings.Trim(f[1], " \t")}
			at := rapid.IntRange(0, len(p.Ext)).Draw(rt, "feature header position")
			p.Ext = append(p.Ext[:at:at], append([]AHdr{h}, p.Ext[at:]...)...)
		}
	}
	p.Body = gBody(rt, "body", o.MaxBody)
	if o.Sloppy && rapid.IntRange(0, 7).Draw(rt, "blanks inside From / To parameters") == 0 {
		// RFC 3261 allows white space around ';' and '=' (SEMI, EQUAL); it is part
		// of the value text a relay leaves alone. (The tag stays as it is: whether
		// a sloppily written tag counts as one is not C01's subject.)
		for _, n := range []*ANameAddr{&p.From, &p.To} {
			for i := range n.Params {
				if n.Params[i].K == "tag" {
					continue
				}
				n.Params[i].K = " " + n.Params[i].K
				if n.Params[i].HasV && rapid.Bool().Draw(rt, "blank before =") {
					n.Params[i].K += " "
				}
			}
		}
	}
	m := assemble(rt, "layout", p)
	if !(g.TCP && proto == "tcp") {
		fitUDP(m, 63000)
	}
	if o.Sloppy && rapid.IntRange(0, 7).Draw(rt, "Content-Length with leading zeros") == 0 {
		m.CLOverride = strings.Repeat("0", rapid.IntRange(1, 3).Draw(rt, "zeros")) + strconv.Itoa(len(m.Body))
	}
	rc.Msg = m
	rc.Wire = jsonBytes(m.Bytes())
	return rc
}

type relayResult struct {
	Exp     mOutcome
	Got     []labRx
	Out     *RMsg
	At      labRx
	L       *mTransport
	SrcIP   string
	SrcPort int
	Pushed  []*mTransport // admissible listener transports for the pushed Via (nil element = none pushed)
	Stamp   bool
}

// runRequest executes the case and returns observation + expectation.
// A lost in-domain message is returned as err of type labLost.
func (s *stdSvc) runRequest(rc relayCase) (*relayResult, error) {
	return s.runRequestJournal("", rc, nil)
}

// runRequestJournal additionally journals the case (with the expectation)
// before the stimulus is sent, so that a product crash leaves a replay.
func (s *stdSvc) runRequestJournal(test string, rc relayCase, desc func(mOutcome) any) (*relayResult, error) {
	g := rc.Ingress
	L := s.transportOf(g)
	send, srcIP, srcPort, err := s.sender(g)
	if err != nil {
		return nil, err
	}
	res := &relayResult{L: L, SrcIP: srcIP, SrcPort: srcPort}
	// Via insertion candidates are judged against the learning state before and after this message
	var before, after *mTransport
	exp0 := s.model.route(L, rc.Msg)
	hopHost := ""
	if !exp0.ToBackend && len(exp0.Hops) > 0 {
		hopHost = exp0.Hops[0].Host
		before = s.model.learned[hopHost]
	}
	s.model.learnRequest(L, srcIP, rc.Msg)
	res.Exp = s.model.route(L, rc.Msg)
	if res.Exp.ToBackend {
		res.Pushed = []*mTransport{s.model.firstTransport(g.Entry)}
	} else if hopHost != "" {
		after = s.model.learned[hopHost]
		res.Pushed = []*mTransport{after}
		if (before == nil) != (after == nil) || (before != nil && *before != *after) {
			res.Pushed = append(res.Pushed, before)
		}
		// a hop written as a name that was never learned itself while the address it
		// resolves to was: the statement does not say which counts - both admissible.
		// (A name that was itself listed in a Via or otherwise learned is learned,
		// whatever is known about its address.)
		if !isIPv4Literal(hopHost) && after == nil {
			if ip, ok := s.model.cfg.resolve(hopHost); ok {
				alt := s.model.learned[ip]
				if (alt == nil) != (after == nil) || (alt != nil && *alt != *after) {
					res.Pushed = append(res.Pushed, alt)
				}
			}
		}
	}
	res.Stamp = s.model.receivedSupport(g.Entry)
	if desc != nil {
		V.Journal(test, desc(res.Exp))
	}
	s.in.expect(rc.Msg.Bytes())
	if err := send(rc.Msg.Bytes()); err != nil {
		return nil, err
	}
	min := 1
	if res.Exp.Drop {
		min = 0
	}
	rs, err := s.in.settle(send, min)
	if err != nil {
		return res, err
	}
	res.Got = labMessages(rs)
	if len(res.Got) > 0 {
		res.At = res.Got[0]
		res.Out = res.Got[0].msg
	}
	return res, nil
}

// checkDestination: exactly one reception at the expected place.
func (s *stdSvc) checkDestination(rc relayCase, res *relayResult) string {
	exp := res.Exp
	if exp.Drop {
		if len(res.Got) != 0 {
			return fmt.Sprintf("request must be dropped (%s) but was sent:\n%s", exp.Why, labDescribe(res.Got))
		}
		return ""
	}
	if len(res.Got) != 1 {
		return fmt.Sprintf("request must reach exactly one destination (rule %s, hops %+v); receptions:\n%s", exp.Rule, exp.Hops, labDescribe(res.Got))
	}
	r := res.Got[0]
	if exp.ToBackend {
		if !s.isBackendOf(r.ep, rc.Ingress.Entry, r.tcp != nil) {
			return fmt.Sprintf("request must reach a backend of listen entry %d; it arrived at %s", rc.Ingress.Entry, r.where())
		}
		return ""
	}
	for _, h := range exp.Hops {
		if matchHop(r, h) {
			return ""
		}
	}
	return fmt.Sprintf("request must be sent to %+v (rule %s); it arrived at %s", exp.Hops, exp.Rule, r.where())
}

// checkContent (C01): everything the proxy does not own is untouched.
func checkContent(in *AMsg, out *RMsg) string {
	if out.Start != in.StartLine() {
		return fmt.Sprintf("start line changed:\n in: %q\nout: %q", in.StartLine(), out.Start)
	}
	want := in.Others()
	got := out.Others()
	for i := 0; i < len(want) || i < len(got); i++ {
		if i >= len(want) {
			return fmt.Sprintf("header added: %q: %s (position %d among the headers the proxy does not own)", got[i][0], jsonBytes([]byte(got[i][1])), i)
		}
		if i >= len(got) {
			return fmt.Sprintf("header dropped: %q: %s (position %d among the headers the proxy does not own)", want[i][0], jsonBytes([]byte(want[i][1])), i)
		}
		if want[i][0] != got[i][0] {
			return fmt.Sprintf("header %d: name %q relayed as %q (value %s / %s) - renamed, reordered, dropped or added", i, want[i][0], got[i][0], jsonBytes([]byte(want[i][1])), jsonBytes([]byte(got[i][1])))
		}
		if want[i][1] != got[i][1] {
			return fmt.Sprintf("header %q: value changed:\n in: %s\nout: %s", want[i][0], jsonBytes([]byte(want[i][1])), jsonBytes([]byte(got[i][1])))
		}
	}
	cls := out.Values(hCL)
	if len(cls) != 1 {
		names := []string{}
		for _, h := range out.Hdrs {
			if h.Kind == hCL {
				names = append(names, h.Name+": "+h.Value)
			}
		}
		return fmt.Sprintf("relayed message carries %d Content-Length fields %q, want exactly one", len(cls), names)
	}
	if cls[0] != strconv.Itoa(len(out.Body)) {
		return fmt.Sprintf("Content-Length is %q but %d body bytes were sent", cls[0], len(out.Body))
	}
	if !bytes.Equal(out.Body, in.Body) {
		return fmt.Sprintf("body changed: %d bytes in, %d bytes out:\n in: %s\nout: %s", len(in.Body), len(out.Body), jsonBytes(in.Body), jsonBytes(out.Body))
	}
	return ""
}

func viaWithout(v AVia, keys ...string) AVia {
	var ps []AParam
	for _, p := range v.Params {
		drop := false
		for _, k := range keys {
			if p.K == k {
				drop = true
			}
		}
		if !drop {
			ps = append(ps, p)
		}
	}
	v.Params = ps
	return v
}

// checkStamped: out entry is the sender's entry with received/rport per C07.
func checkStamped(in AVia, outText string, stamp bool, srcIP string, srcPort int) string {
	if !stamp {
		if outText != in.String() {
			return fmt.Sprintf("received-support is off, yet the sender's Via entry changed:\n in: %q\nout: %q", in.String(), outText)
		}
		return ""
	}
	ov, err := rVia(outText)
	if err != nil {
		return fmt.Sprintf("sender's Via entry unreadable after relay: %q (%v)", outText, err)
	}
	rcv := 0
	for _, p := range ov.Params {
		if p.K == "received" {
			rcv++
			if !p.HasV || p.V != srcIP {
				return fmt.Sprintf("sender's Via entry carries received=%q, the packet came from %s:\n in: %q\nout: %q", p.V, srcIP, in.String(), outText)
			}
		}
	}
	if rcv != 1 {
		return fmt.Sprintf("sender's Via entry carries %d received parameters, want exactly one (= %s):\n in: %q\nout: %q", rcv, srcIP, in.String(), outText)
	}
	_, _, hadRport := in.Param("rport")
	ov2, hasRport := ov, false
	for i, p := range ov2.Params {
		if p.K == "rport" {
			hasRport = true
			if !p.HasV || p.V != strconv.Itoa(srcPort) {
				return fmt.Sprintf("sender's Via entry carries rport=%q, the packet came from port %d:\n in: %q\nout: %q", p.V, srcPort, in.String(), outText)
			}
			_ = i
		}
	}
	if hadRport != hasRport {
		return fmt.Sprintf("rport must be filled in iff the sender asked for it (asked=%v, present=%v):\n in: %q\nout: %q", hadRport, hasRport, in.String(), outText)
	}
	// everything else untouched, in order
	a := viaWithout(in, "received")
	b := viaWithout(ov, "received")
	for i := range a.Params {
		if a.Params[i].K == "rport" {
			a.Params[i].V, a.Params[i].HasV = strconv.Itoa(srcPort), true
		}
	}
	if a.String() != b.String() {
		return fmt.Sprintf("sender's Via entry changed beyond received/rport:\n in: %q\nout: %q", in.String(), outText)
	}
	return ""
}

var seenBranches = map[string]bool{}

// checkRequestVias (C06/C07): [new] + existing, existing intact and in order.
func checkRequestVias(in *AMsg, out *RMsg, pushed []*mTransport, stamp bool, srcIP string, srcPort int) string {
	inV := in.Vias()
	outE := out.Entries(hVia)
	var fails []string
	for _, pt := range pushed {
		f := checkRequestViasOne(inV, outE, pt, stamp, srcIP, srcPort)
		if f == "" {
			return ""
		}
		fails = append(fails, f)
	}
	if len(fails) == 0 {
		return checkRequestViasOne(inV, outE, nil, stamp, srcIP, srcPort)
	}
	return fails[0]
}

func checkRequestViasOne(inV []AVia, outE []string, pt *mTransport, stamp bool, srcIP string, srcPort int) string {
	rest := outE
	if pt != nil {
		if len(outE) != len(inV)+1 {
			return fmt.Sprintf("expected exactly one new top Via for listener %s above the %d existing entries; relayed Via entries: %q", pt, len(inV), outE)
		}
		nv, err := rVia(outE[0])
		if err != nil {
			return fmt.Sprintf("new top Via unreadable: %q", outE[0])
		}
		if nv.Proto != "SIP" || nv.Ver != "2.0" || !strings.EqualFold(nv.Transport, pt.Proto) || nv.Host != pt.Addr || nv.Port != pt.Port {
			return fmt.Sprintf("new top Via %q does not name the listener %s", outE[0], pt)
		}
		br, _, ok := nv.Param("branch")
		if !ok || !strings.HasPrefix(br, "z9hG4bK") || len(br) < 7+1 {
			return fmt.Sprintf("new top Via %q lacks a branch that starts with z9hG4bK and continues with a generated part", outE[0])
		}
		for _, v := range inV {
			if b, _, ok := v.Param("branch"); ok && b == br {
				return fmt.Sprintf("new branch %q equals a branch already in the message", br)
			}
		}
		if seenBranches[br] {
			return fmt.Sprintf("branch %q was generated before in this run: not fresh", br)
		}
		seenBranches[br] = true
		rest = outE[1:]
	} else if len(outE) != len(inV) {
		return fmt.Sprintf("next hop is not reachable through a learned listener: no Via may be added; %d entries in, relayed: %q", len(inV), outE)
	}
	for i, v := range inV {
		if i == 0 {
			if f := checkStamped(v, rest[0], stamp, srcIP, srcPort); f != "" {
				return f
			}
			continue
		}
		if rest[i] != v.String() {
			return fmt.Sprintf("existing Via entry %d changed or moved:\n in: %q\nout: %q", i, v.String(), rest[i])
		}
	}
	return ""
}

// checkRecordRoute (C06).
func checkRecordRoute(in *AMsg, out *RMsg, pushed []*mTransport, mustRR bool) string {
	inRR := in.NAList(hRR)
	outE := out.Entries(hRR)
	var first string
	for _, pt := range pushed {
		want := pt != nil && (len(inRR) > 0 || mustRR)
		f := checkRecordRouteOne(inRR, outE, pt, want)
		if f == "" {
			return ""
		}
		if first == "" {
			first = f
		}
	}
	if len(pushed) == 0 {
		return checkRecordRouteOne(inRR, outE, nil, false)
	}
	return first
}

func checkRecordRouteOne(inRR []ANameAddr, outE []string, pt *mTransport, want bool) string {
	rest := outE
	if want {
		if len(outE) != len(inRR)+1 {
			return fmt.Sprintf("expected one new Record-Route entry ahead of the %d existing ones; relayed entries: %q", len(inRR), outE)
		}
		exp := fmt.Sprintf("<sip:%s:%d;lr>", pt.Addr, pt.Port)
		if outE[0] != exp {
			return fmt.Sprintf("new Record-Route entry is %q, want %q ahead of all existing entries", outE[0], exp)
		}
		rest = outE[1:]
	} else if len(outE) != len(inRR) {
		return fmt.Sprintf("no Record-Route entry may be added here (existing: %d, must-record-route/Via pushed do not apply); relayed entries: %q", len(inRR), outE)
	}
	for i, n := range inRR {
		if rest[i] != n.String() {
			return fmt.Sprintf("existing Record-Route entry %d changed or moved:\n in: %q\nout: %q", i, n.String(), rest[i])
		}
	}
	return ""
}

// checkRoutes (C13): relayed Route list = model's remaining list, textually.
func checkRoutes(exp mOutcome, out *RMsg) string {
	outE := out.Entries(hRoute)
	if len(outE) != len(exp.RouteLeft) {
		want := []string{}
		for _, n := range exp.RouteLeft {
			want = append(want, n.String())
		}
		return fmt.Sprintf("relayed Route entries %q, want %q (own entry consumed: %v, next-hop entry stripped: %v)", outE, want, exp.ConsumedOwn, exp.PoppedHop)
	}
	for i, n := range exp.RouteLeft {
		if outE[i] != n.String() {
			return fmt.Sprintf("Route entry %d changed or moved:\n in: %q\nout: %q", i, n.String(), outE[i])
		}
	}
	return ""
}

// buildResponse answers a request received by a harness backend: Via lines,
// Record-Route, From, To (+tag), Call-ID and CSeq copied as received.
func buildResponse(req *RMsg, code int, reason, toTag string, extra string) []byte {
	var sb strings.Builder
	fmt.Fprintf(&sb, "SIP/2.0 %d %s\r\n", code, reason)
	for _, h := range req.Hdrs {
		switch h.Kind {
		case hVia, hRR, hFrom, hCallID, hCSeq:
			sb.WriteString(h.Name + ": " + h.Value + "\r\n")
		case hTo:
			v := h.Value
			if toTag != "" && !strings.Contains(v, ";tag=") {
				v += ";tag=" + toTag
			}
			sb.WriteString(h.Name + ": " + v + "\r\n")
		}
	}
	sb.WriteString(extra)
	sb.WriteString("Content-Length: 0\r\n\r\n")
	return []byte(sb.String())
}

// gRelayResponse: a response with >= 2 Via entries whose second entry names a
// harness endpoint; sent from a backend / hop / UA socket.
type respCase struct {
	From   string `json:"sent_from"`
	Entry  int    `json:"listen_entry"`
	Wire   string `json:"wire"`
	Msg    *AMsg  `json:"-"`
	sender *labEP
}

func (s *stdSvc) gRelayResponse(rt *rapid.T, maxExt, maxLong, maxBody int) respCase {
	var rc respCase
	rc.Entry = rapid.IntRange(0, 1).Draw(rt, "entry")
	l := s.in.cfg.Listens[rc.Entry]
	switch rapid.IntRange(0, 2).Draw(rt, "sender") {
	case 0:
		_, hp, _ := strings.Cut(l.Backends[rapid.IntRange(0, 1).Draw(rt, "backend")], "://")
		h, p := splitHostPort(hp)
		rc.sender, _ = s.in.hub.udpEP("backend-udp", h, p)
		rc.From = "backend " + hp
	case 1:
		rc.sender, _ = s.in.hub.udpEP("", s.ip(25), 5070)
		rc.From = "hop " + s.ip(25)
	default:
		rc.sender = s.uas2[rapid.IntRange(0, 3).Draw(rt, "ua")]
		rc.From = "ua " + rc.sender.ip
	}
	p := msgParts{IsReq: false, Version: "SIP/2.0", Code: gStatus(rt, "code"), Reason: gReason(rt, "reason")}
	p.CSeqMethod = gMethod(rt, "cseqmethod")
	p.CSeqN = rapid.IntRange(0, 1<<31-1).Draw(rt, "cseq")
	p.CallID = s.nextID("rcid-") + gIdent(rt, "callid")
	p.From = gNameAddr(rt, "from", naOpts{allowAbs: true, allowBare: true, maxParams: 3})
	p.To = gNameAddr(rt, "to", naOpts{allowAbs: true, allowBare: true, maxParams: 3})
	top := AVia{Proto: "SIP", Ver: "2.0", Transport: "UDP", Host: l.Addr, Port: l.UDPPort, Params: []AParam{{K: "branch", V: "z9hG4bK" + s.nextID("pb"), HasV: true}}}
	ua := rapid.IntRange(0, 3).Draw(rt, "toua")
	second := AVia{Proto: "SIP", Ver: "2.0", Transport: rapid.SampledFrom([]string{"UDP", "UDP", "TCP", "udp", "Tcp"}).Draw(rt, "transport"), Host: s.ip(10 + ua), Port: rapid.SampledFrom([]int{5060, 6010, 0}).Draw(rt, "port")}
	second.Params = gParamList(rt, "viaparams", 3, tokAlpha+"-.!%*_+`'~", viaParamReserved)
	second.Params = gInsertParam(rt, "bpos", second.Params, AParam{K: "branch", V: "z9hG4bK" + s.nextID("ub"), HasV: true})
	p.Vias = []AVia{top, second}
	more := rapid.IntRange(0, 3).Draw(rt, "morevias")
	for i := 0; i < more; i++ {
		p.Vias = append(p.Vias, gVia(rt, fmt.Sprintf("via%d", i), viaOpts{}))
	}
	nrr := rapid.IntRange(0, 2).Draw(rt, "nrr")
	for i := 0; i < nrr; i++ {
		p.RRs = append(p.RRs, s.gRouteEntry(rt, fmt.Sprintf("rr%d", i)))
	}
	p.Ext = gExtHeaders(rt, "ext", maxExt, maxLong)
	p.Body = gBody(rt, "body", maxBody)
	m := assemble(rt, "layout", p)
	fitUDP(m, 63000)
	rc.Msg = m
	rc.Wire = jsonBytes(m.Bytes())
	return rc
}

type respResult struct {
	Hop mHop
	Ok  bool
	Got []labRx
	Out *RMsg
}

func (s *stdSvc) runResponse(rc respCase) (*respResult, error) {
	l := s.in.cfg.Listens[rc.Entry]
	send := func(b []byte) error { return rc.sender.sendUDP(l.Addr, l.UDPPort, b) }
	res := &respResult{}
	res.Hop, res.Ok = s.model.responseHop(rc.Msg.Vias())
	s.in.expect(rc.Msg.Bytes())
	if err := send(rc.Msg.Bytes()); err != nil {
		return nil, err
	}
	min := 0
	if res.Ok {
		min = 1
	}
	rs, err := s.in.settle(send, min)
	if err != nil {
		return res, err
	}
	res.Got = labMessages(rs)
	if len(res.Got) > 0 {
		res.Out = res.Got[0].msg
	}
	return res, nil
}

// ---- saved inputs on the lab engine ---------------------------------------------
//
// A saved relay case is wire text with placeholders for the addresses of the
// running instance: {UA} the sending user agent's address, {L} the receiving
// listener's address:port, {LHOST} / {LPORT} its parts, {HOP} a primed next
// hop (address:5070, learned through listen entry 0), {HOPX} a never-learned
// one. Fields: wire, entry, tcp, ua. It is sent through the standard service
// and judged on the wire level against the independent reader's view of the
// input.

func (s *stdSvc) regressExpand(text string, g stdIngress) string {
	L := s.transportOf(g)
	r := strings.NewReplacer("{UA}", s.ip(10+g.UA), "{L}", fmt.Sprintf("%s:%d", L.Addr, L.Port), "{LHOST}", L.Addr, "{LPORT}", strconv.Itoa(L.Port),
		"{HOP}", s.ip(20)+":5070", "{HOPX}", s.ip(25)+":5070", "{ID}", s.nextID("rg"))
	return r.Replace(text)
}

// regressRelay sends the saved message and returns the independent reader's
// view of input and receptions.
func (s *stdSvc) regressRelay(c regressCase) (in *RMsg, got []labRx, fail string) {
	g := stdIngress{Entry: c.I("entry"), TCP: c.Bool("tcp"), UA: c.I("ua")}
	if err := s.primeHops(); err != nil {
		return nil, nil, "skip: priming failed: " + err.Error()
	}
	wire := []byte(s.regressExpand(c.S("wire"), g))
	in, err := sipRead(wire)
	if err != nil {
		return nil, nil, "skip: saved input is not a well-formed message for the independent reader: " + err.Error()
	}
	send, srcIP, _, err := s.sender(g)
	if err != nil {
		return nil, nil, "skip: " + err.Error()
	}
	s.model.learnRequest(s.transportOf(g), srcIP, &AMsg{IsReq: true, Hdrs: []AHdr{{Kind: hVia, Vias: []AVia{{Host: srcIP}}}}})
	s.in.expect(wire)
	if err := send(wire); err != nil {
		return nil, nil, "skip: " + err.Error()
	}
	min := 1
	if c.Bool("expect_drop") {
		min = 0
	}
	rs, err := s.in.settle(send, min)
	if err != nil {
		return in, nil, err.Error()
	}
	got = labMessages(rs)
	if c.Bool("expect_drop") {
		if len(got) != 0 {
			return in, got, fmt.Sprintf("must be sent nowhere, but was relayed:\n%s", labDescribe(got))
		}
		return in, got, ""
	}
	if len(got) != 1 {
		return in, got, fmt.Sprintf("must be relayed exactly once; receptions:\n%s", labDescribe(got))
	}
	return in, got, ""
}

// checkContentR: C01's oracle between two reader views.
func checkContentR(in, out *RMsg) string {
	if out.Start != in.Start {
		return fmt.Sprintf("start line changed:\n in: %q\nout: %q", in.Start, out.Start)
	}
	a, b := in.Others(), out.Others()
	for i := 0; i < len(a) || i < len(b); i++ {
		if i >= len(a) {
			return fmt.Sprintf("header added: %q: %s", b[i][0], jsonBytes([]byte(b[i][1])))
		}
		if i >= len(b) {
			return fmt.Sprintf("header dropped: %q: %s", a[i][0], jsonBytes([]byte(a[i][1])))
		}
		if a[i] != b[i] {
			return fmt.Sprintf("header %d changed:\n in: %q: %s\nout: %q: %s", i, a[i][0], jsonBytes([]byte(a[i][1])), b[i][0], jsonBytes([]byte(b[i][1])))
		}
	}
	cls := out.Values(hCL)
	if len(cls) != 1 {
		return fmt.Sprintf("relayed message carries %d Content-Length fields %q, want exactly one", len(cls), cls)
	}
	if cls[0] != strconv.Itoa(len(out.Body)) {
		return fmt.Sprintf("Content-Length is %q but %d body bytes were sent", cls[0], len(out.Body))
	}
	if !bytes.Equal(out.Body, in.Body) {
		return fmt.Sprintf("body changed: %d bytes in, %d bytes out", len(in.Body), len(out.Body))
	}
	return ""
}

// joinViaLines rewrites a message so that all its Via values sit on one header
// line (name as given: "Via" or "v"), comma-separated, where the first Via line was.
func joinViaLines(wire []byte, name, sep string) []byte {
	head, body, ok := bytes.Cut(wire, []byte("\r\n\r\n"))
	if !ok {
		return wire
	}
	lines := strings.Split(string(head), "\r\n")
	var vals []string
	first := -1
	var out []string
	for i, ln := range lines {
		n, v, isHdr := strings.Cut(ln, ":")
		if i > 0 && isHdr && (strings.EqualFold(strings.TrimSpace(n), "via") || strings.EqualFold(strings.TrimSpace(n), "v")) {
			if first < 0 {
				first = len(out)
				out = append(out, "")
			}
			vals = append(vals, strings.Trim(v, " \t"))
			continue
		}
		out = append(out, ln)
	}
	if first < 0 {
		return wire
	}
	out[first] = name + ": " + strings.Join(vals, sep)
	return append([]byte(strings.Join(out, "\r\n")+"\r\n\r\n"), body...)
}

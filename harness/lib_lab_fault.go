package main

// Faults of the peers around a lab service, injected by the harness and
// followed by ordinary traffic: a TCP peer (backend or next hop) that goes away
// - its listener closed, its connections reset, new connections refused - and
// comes back on the same address. What the properties promise about the
// requests that follow or coincide with such an outage is judged by the checks
// that own the promise; this file only plays the history and reports what
// arrived where.

import (
	"fmt"
	"net"
	"strings"
	"time"

	"pgregory.net/rapid"
)

// goDown: the endpoint stops listening and resets every connection it has
// accepted so far (no FIN handshake, no TIME_WAIT); connects are refused from
// now on.
func (e *labEP) goDown() {
	h := e.hub
	h.mu.Lock()
	delete(h.eps, fmt.Sprintf("tcp|%s|%d", e.ip, e.port))
	h.mu.Unlock()
	if e.tcpL != nil {
		e.tcpL.Close()
	}
	e.mu.Lock()
	accs := append([]*labTCPConn(nil), e.accs...)
	e.mu.Unlock()
	for _, c := range accs {
		if tc, ok := c.conn.(*net.TCPConn); ok {
			tc.SetLinger(0)
		}
		c.conn.Close()
	}
}

// comeUp: a TCP endpoint listens again on the address of one that went down.
func (h *labHub) comeUp(e *labEP) (*labEP, error) {
	var last error
	for i := 0; i < 50; i++ {
		n, err := h.tcpEP(e.name, e.ip, e.port)
		if err == nil {
			return n, nil
		}
		last = err
		time.Sleep(20 * time.Millisecond)
	}
	return nil, last
}

// outageArrival: one reception during a fault history, reduced to what the
// oracles of C04 / C06 / C15 look at.
type outageArrival struct {
	At     string   `json:"at"`
	TCP    bool     `json:"tcp"`
	Vias   []string `json:"via_entries"`
	RRs    []string `json:"record_route_entries"`
	IP     string   `json:"-"`
	Port   int      `json:"-"`
	Method string   `json:"method"`
}

type outageStep struct {
	Phase    string          `json:"phase"` // "pinned", "during", "after"
	Request  string          `json:"request"`
	SentVias int             `json:"via_entries_sent"`
	Arrived  []outageArrival `json:"arrived"`
}

type outageObs struct {
	Backend string       `json:"pinned_tcp_backend"`
	Steps   []outageStep `json:"steps"`
}

func (o outageObs) String() string {
	var sb strings.Builder
	fmt.Fprintf(&sb, "dialog pinned to the TCP backend %s;", o.Backend)
	for _, s := range o.Steps {
		var at []string
		for _, a := range s.Arrived {
			at = append(at, fmt.Sprintf("%s with %d Via", a.At, len(a.Vias)))
		}
		if len(at) == 0 {
			at = []string{"nowhere"}
		}
		fmt.Fprintf(&sb, " [%s] %s -> %s;", s.Phase, s.Request, strings.Join(at, " + "))
	}
	return sb.String()
}

// backendOutage plays, on a standard service whose listen entry 0 has UDP
// backends and the TCP backend .33:5080: dialogs are opened until one lands on
// the TCP backend, which answers 200 with a To-tag over the proxy's connection
// (the pin); an in-dialog request follows the pin; the backend goes down; 0-3
// in-dialog requests pass; the backend comes back; 1-3 in-dialog requests
// pass. Other dialogs' initial requests advance the rotation in between.
// ok=false: the history could not be set up for a reason that is another
// property's subject (nothing is judged then).
func (s *stdSvc) backendOutage(rt *rapid.T, test string) (obs outageObs, ok bool, err error) {
	l := s.in.cfg.Listens[0]
	bip, bport := s.ip(33), 5080
	obs.Backend = fmt.Sprintf("%s:%d", bip, bport)
	ua := rapid.IntRange(0, 3).Draw(rt, "ua")
	g := stdIngress{UA: ua, Entry: 0, TCP: false}
	send, srcIP, _, e := s.sender(g)
	if e != nil {
		return obs, false, e
	}
	uaIP := s.uas[ua].ip
	withRR := rapid.Bool().Draw(rt, "requests carry a Record-Route")
	mk := func(method, id string, cseq int, toTag string) []byte {
		to := "<sip:svc@nomatch.example>"
		if toTag != "" {
			to += ";tag=" + toTag
		}
		rr := ""
		if withRR {
			rr = "Record-Route: <sip:edge.example;lr>\r\n"
		}
		return []byte(fmt.Sprintf("%s sip:svc.test SIP/2.0\r\nVia: SIP/2.0/UDP %s:5060;branch=z9hG4bK%s-%d\r\nMax-Forwards: 70\r\n%sFrom: <sip:a@a.example>;tag=f%s\r\nTo: %s\r\nCall-ID: %s\r\nCSeq: %d %s\r\nContent-Length: 0\r\n\r\n", method, uaIP, id, cseq, rr, id, to, id, cseq, method))
	}
	one := func(phase, what string, wire []byte, min int) ([]labRx, error) {
		s.model.learnRequest(s.transportOf(g), srcIP, &AMsg{IsReq: true, Hdrs: []AHdr{{Kind: hVia, Vias: []AVia{{Host: uaIP}}}}})
		s.in.expect(wire)
		if err := send(wire); err != nil {
			return nil, err
		}
		rs, err := s.in.settle(send, min)
		if err != nil {
			return nil, err
		}
		got := labMessages(rs)
		st := outageStep{Phase: phase, Request: what, SentVias: 1}
		for _, r := range got {
			a := outageArrival{At: r.where(), TCP: r.tcp != nil, Vias: r.msg.Entries(hVia), RRs: r.msg.Entries(hRR)}
			if r.ep != nil {
				a.IP, a.Port = r.ep.ip, r.ep.port
			}
			if f := strings.Fields(r.msg.Start); len(f) > 0 {
				a.Method = f[0]
			}
			st.Arrived = append(st.Arrived, a)
		}
		obs.Steps = append(obs.Steps, st)
		V.Journal(test, obs)
		return got, nil
	}
	// open dialogs until one lands on the TCP backend
	var id string
	var inv labRx
	for try := 0; try < len(l.Backends)+2 && id == ""; try++ {
		cand := s.nextID("out-")
		got, err := one("setup", "INVITE "+cand, mk("INVITE", cand, 1, ""), 1)
		if err != nil {
			return obs, false, err
		}
		if len(got) != 1 {
			return obs, false, nil // C03 / C05
		}
		if got[0].tcp != nil && got[0].ep != nil && got[0].ep.ip == bip && got[0].ep.port == bport {
			id, inv = cand, got[0]
		}
	}
	obs.Steps = nil
	if id == "" {
		return obs, false, nil // the rotation never reached the TCP backend: C05
	}
	// the pin: 200 with a To-tag over the proxy's own connection
	resp := buildResponse(inv.msg, 200, "OK", "t"+id, "")
	s.in.expect(resp)
	if err := inv.tcp.send(resp); err != nil {
		return obs, false, fmt.Errorf("backend could not answer: %v", err)
	}
	rs, err := s.in.settle(inv.tcp.send, 1)
	if err != nil {
		return obs, false, err
	}
	if got := labMessages(rs); len(got) != 1 || got[0].ep != s.uas[ua] {
		return obs, false, nil // C02
	}
	cseq := 1
	inDialog := func(phase string, min int) error {
		cseq++
		m := rapid.SampledFrom([]string{"INFO", "INFO", "UPDATE", "MESSAGE", "INVITE", "OPTIONS"}).Draw(rt, "in-dialog method")
		_, err := one(phase, fmt.Sprintf("%s (in-dialog, CSeq %d)", m, cseq), mk(m, id, cseq, "t"+id), min)
		return err
	}
	other := func() error {
		if !rapid.Bool().Draw(rt, "another dialog's INVITE in between") {
			return nil
		}
		oid := s.nextID("oth-")
		s.in.expect(mk("INVITE", oid, 1, ""))
		if err := send(mk("INVITE", oid, 1, "")); err != nil {
			return err
		}
		_, err := s.in.settle(send, 0)
		return err
	}
	if err := inDialog("pinned", 1); err != nil {
		return obs, false, err
	}
	// the outage
	ep := inv.ep
	ep.goDown()
	time.Sleep(time.Duration(rapid.IntRange(5, 60).Draw(rt, "ms after the backend went down")) * time.Millisecond)
	for i, k := 0, rapid.IntRange(0, 3).Draw(rt, "in-dialog requests during the outage"); i < k; i++ {
		if err := other(); err != nil {
			return obs, false, err
		}
		if err := inDialog("during", 0); err != nil {
			return obs, false, err
		}
	}
	if _, err := s.in.hub.comeUp(ep); err != nil {
		return obs, false, fmt.Errorf("backend cannot listen again: %v", err)
	}
	if rapid.Bool().Draw(rt, "a pause after the return") {
		time.Sleep(time.Duration(rapid.IntRange(10, 400).Draw(rt, "pause ms")) * time.Millisecond)
	}
	for i, k := 0, rapid.IntRange(1, 3).Draw(rt, "in-dialog requests after the return"); i < k; i++ {
		if err := other(); err != nil {
			return obs, false, err
		}
		if err := inDialog("after", 1); err != nil {
			return obs, false, err
		}
	}
	return obs, true, nil
}

// outageSticky: C04's and C15's promise over a fault history - a request of the
// pinned dialog reaches the pinned backend or, while that is unreachable,
// nobody; never another backend; the pin is still there when the backend is
// back (nothing that dissolves a pin has happened, its lifetime has not
// elapsed).
func outageSticky(o outageObs) string {
	for _, st := range o.Steps {
		atPinned := 0
		for _, a := range st.Arrived {
			if fmt.Sprintf("%s:%d", a.IP, a.Port) == o.Backend && a.TCP {
				atPinned++
				continue
			}
			return fmt.Sprintf("%s, sent %s the outage of its backend, was delivered to %s - a request of a pinned dialog goes to the backend that answered the dialog and to no other; history: %s", st.Request, map[string]string{"pinned": "before", "during": "during", "after": "after"}[st.Phase], a.At, o)
		}
		if atPinned > 1 {
			return fmt.Sprintf("%s was delivered %d times to the pinned backend; history: %s", st.Request, atPinned, o)
		}
		if st.Phase != "during" && atPinned != 1 {
			return fmt.Sprintf("%s, sent %s the outage of the pinned backend (which was listening and accepting connections at that moment), reached nobody - the pin is to be honoured for the dialog's lifetime and the backend was reachable; history: %s", st.Request, map[string]string{"pinned": "before", "after": "after"}[st.Phase], o)
		}
	}
	return ""
}

// outageVias: C06's promise over a fault history - whatever is handed to a
// backend carries exactly one new top Via of the listener (and exactly one
// Record-Route entry of the listener if the request carried a Record-Route
// already, none otherwise - must-record-route is off in this service).
func outageVias(o outageObs, listenerAddr string, udpPort int) string {
	for _, st := range o.Steps {
		for _, a := range st.Arrived {
			if len(a.Vias) != st.SentVias+1 {
				return fmt.Sprintf("%s (%s the outage of the pinned backend) arrived at %s with %d Via entries, the sender wrote %d: exactly one is pushed; entries: %q; history: %s", st.Request, st.Phase, a.At, len(a.Vias), st.SentVias, a.Vias, o)
			}
			own := 0
			for _, r := range a.RRs {
				if strings.Contains(r, listenerAddr+":") || strings.Contains(r, listenerAddr+";") || strings.Contains(r, listenerAddr+">") {
					own++
				}
			}
			want := 0
			if len(a.RRs)-own > 0 {
				want = 1
			}
			if own != want {
				return fmt.Sprintf("%s (%s the outage of the pinned backend) arrived at %s with %d Record-Route entries of the listener, expected %d; entries: %q; history: %s", st.Request, st.Phase, a.At, own, want, a.RRs, o)
			}
		}
	}
	return ""
}

package main

// Faults of the peers around a lab service, injected by the harness and
// followed by ordinary traffic: a TCP peer (backend or next hop) that goes away
// - its listener closed, its connections reset, new connections refused - and
// comes back on the same address. What the properties promise about the
// requests that follow or coincide with such an outage is judged by the checks
// that own the promise; this file only plays the history and reports what
// arrived where.

import (
	"fmt"
	"net"
	"strings"
	"time"

	"pgregory.net/rapid"
)

// goDown: the endpoint stops listening and resets every connection it has
// accepted so far (no FIN handshake, no TIME_WAIT); connects are refused from
// now on.
func (e *labEP) goDown() {
	h := e.hub
	h.mu.Lock()
	delete(h.eps, fmt.Sprintf("tcp|%s|%d", e.ip, e.port))
	h.mu.Unlock()
	if e.tcpL != nil {
		e.tcpL.Close()
	}
	e.mu.Lock()
	accs := append([]*labTCPConn(nil), e.accs...)
	e.mu.Unlock()
	for _, c := range accs {
		if tc, ok := c.conn.(*net.TCPConn); ok {
			tc.SetLinger(0)
		}
		c.conn.Close()
	}
}

// hangUp: the endpoint ends, in an orderly way, every connection it has
// accepted so far and keeps listening - a peer that ends idle connections. It
// shuts down its sending side (FIN) and reads on until the other side has
// closed too (up to 5 s of running time), so that on return the proxy has
// seen the end of each connection - unless it never reacts to it.
func (e *labEP) hangUp() int {
	e.mu.Lock()
	accs := e.accs
	e.accs = nil
	e.mu.Unlock()
	n := 0
	for _, c := range accs {
		if c.isDead() {
			c.conn.Close()
			continue
		}
		n++
		if tc, ok := c.conn.(*net.TCPConn); ok {
			tc.CloseWrite()
		}
		for budget := newPatience(5 * time.Second); !c.isDead() && !budget.spent(); {
			time.Sleep(time.Millisecond)
		}
		c.conn.Close()
	}
	return n
}

// goDownUDP: the UDP endpoint closes its socket (datagrams to it are answered
// with ICMP port unreachable from now on).
func (e *labEP) goDownUDP() {
	h := e.hub
	h.mu.Lock()
	delete(h.eps, fmt.Sprintf("udp|%s|%d", e.ip, e.port))
	h.mu.Unlock()
	if e.udp != nil {
		e.udp.Close()
	}
}

// comeUp: a TCP endpoint listens again on the address of one that went down.
func (h *labHub) comeUp(e *labEP) (*labEP, error) {
	var last error
	for i := 0; i < 50; i++ {
		n, err := h.tcpEP(e.name, e.ip, e.port)
		if err == nil {
			return n, nil
		}
		last = err
		time.Sleep(20 * time.Millisecond)
	}
	return nil, last
}

// outageArrival: one reception during a fault history, reduced to what the
// oracles of C04 / C06 / C15 look at.
type outageArrival struct {
	At     string   `json:"at"`
	TCP    bool     `json:"tcp"`
	Vias   []string `json:"via_entries"`
	RRs    []string `json:"record_route_entries"`
	IP     string   `json:"-"`
	Port   int      `json:"-"`
	Method string   `json:"method"`
}

type outageStep struct {
	Phase    string          `json:"phase"` // "pinned", "during", "after"
	Request  string          `json:"request"`
	SentVias int             `json:"via_entries_sent"`
	Arrived  []outageArrival `json:"arrived"`
}

type outageObs struct {
	Backend string       `json:"pinned_tcp_backend"`
	Event   string       `json:"event"` // what happens between the phases "pinned" and "after"
	Steps   []outageStep `json:"steps"`
}

func (o outageObs) String() string {
	var sb strings.Builder
	fmt.Fprintf(&sb, "dialog pinned to the TCP backend %s; event: %s;", o.Backend, o.Event)
	for _, s := range o.Steps {
		var at []string
		for _, a := range s.Arrived {
			at = append(at, fmt.Sprintf("%s with %d Via", a.At, len(a.Vias)))
		}
		if len(at) == 0 {
			at = []string{"nowhere"}
		}
		fmt.Fprintf(&sb, " [%s] %s -> %s;", s.Phase, s.Request, strings.Join(at, " + "))
	}
	return sb.String()
}

// backendOutage plays, on a standard service whose listen entry 0 has UDP
// backends and the TCP backend .33:5080: dialogs are opened until one lands on
// the TCP backend, which answers 200 with a To-tag over the proxy's connection
// (the pin); an in-dialog request follows the pin; the backend goes down; 0-3
// in-dialog requests pass; the backend comes back; 1-3 in-dialog requests
// pass. Other dialogs' initial requests advance the rotation in between.
// ok=false: the history could not be set up for a reason that is another
// property's subject (nothing is judged then).
func (s *stdSvc) backendOutage(rt *rapid.T, test string) (obs outageObs, ok bool, err error) {
	l := s.in.cfg.Listens[0]
	bip, bport := s.ip(33), 5080
	obs.Backend = fmt.Sprintf("%s:%d", bip, bport)
	obs.Event = "the backend goes down (listener closed, connections reset) and comes back"
	ua := rapid.IntRange(0, 3).Draw(rt, "ua")
	g := stdIngress{UA: ua, Entry: 0, TCP: false}
	send, srcIP, _, e := s.sender(g)
	if e != nil {
		return obs, false, e
	}
	uaIP := s.uas[ua].ip
	withRR := rapid.Bool().Draw(rt, "requests carry a Record-Route")
	mk := func(method, id string, cseq int, toTag string) []byte {
		to := "<sip:svc@nomatch.example>"
		if toTag != "" {
			to += ";tag=" + toTag
		}
		rr := ""
		if withRR {
			rr = "Record-Route: <sip:edge.example;lr>\r\n"
		}
		return []byte(fmt.Sprintf("%s sip:svc.test SIP/2.0\r\nVia: SIP/2.0/UDP %s:5060;branch=z9hG4bK%s-%d\r\nMax-Forwards: 70\r\n%sFrom: <sip:a@a.example>;tag=f%s\r\nTo: %s\r\nCall-ID: %s\r\nCSeq: %d %s\r\nContent-Length: 0\r\n\r\n", method, uaIP, id, cseq, rr, id, to, id, cseq, method))
	}
	one := func(phase, what string, wire []byte, min int) ([]labRx, error) {
		s.model.learnRequest(s.transportOf(g), srcIP, &AMsg{IsReq: true, Hdrs: []AHdr{{Kind: hVia, Vias: []AVia{{Host: uaIP}}}}})
		s.in.expect(wire)
		if err := send(wire); err != nil {
			return nil, err
		}
		rs, err := s.in.settle(send, min)
		if err != nil {
			return nil, err
		}
		got := labMessages(rs)
		st := outageStep{Phase: phase, Request: what, SentVias: 1}
		for _, r := range got {
			a := outageArrival{At: r.where(), TCP: r.tcp != nil, Vias: r.msg.Entries(hVia), RRs: r.msg.Entries(hRR)}
			if r.ep != nil {
				a.IP, a.Port = r.ep.ip, r.ep.port
			}
			if f := strings.Fields(r.msg.Start); len(f) > 0 {
				a.Method = f[0]
			}
			st.Arrived = append(st.Arrived, a)
		}
		obs.Steps = append(obs.Steps, st)
		V.Journal(test, obs)
		return got, nil
	}
	// open dialogs until one lands on the TCP backend
	var id string
	var inv labRx
	for try := 0; try < len(l.Backends)+2 && id == ""; try++ {
		cand := s.nextID("out-")
		got, err := one("setup", "INVITE "+cand, mk("INVITE", cand, 1, ""), 1)
		if err != nil {
			return obs, false, err
		}
		if len(got) != 1 {
			return obs, false, nil // C03 / C05
		}
		if got[0].tcp != nil && got[0].ep != nil && got[0].ep.ip == bip && got[0].ep.port == bport {
			id, inv = cand, got[0]
		}
	}
	obs.Steps = nil
	if id == "" {
		return obs, false, nil // the rotation never reached the TCP backend: C05
	}
	// the pin: 200 with a To-tag over the proxy's own connection
	resp := buildResponse(inv.msg, 200, "OK", "t"+id, "")
	s.in.expect(resp)
	if err := inv.tcp.send(resp); err != nil {
		return obs, false, fmt.Errorf("backend could not answer: %v", err)
	}
	rs, err := s.in.settle(inv.tcp.send, 1)
	if err != nil {
		return obs, false, err
	}
	if got := labMessages(rs); len(got) != 1 || got[0].ep != s.uas[ua] {
		return obs, false, nil // C02
	}
	cseq := 1
	inDialog := func(phase string, min int) error {
		cseq++
		m := rapid.SampledFrom([]string{"INFO", "INFO", "UPDATE", "MESSAGE", "INVITE", "OPTIONS"}).Draw(rt, "in-dialog method")
		_, err := one(phase, fmt.Sprintf("%s (in-dialog, CSeq %d)", m, cseq), mk(m, id, cseq, "t"+id), min)
		return err
	}
	other := func() error {
		if !rapid.Bool().Draw(rt, "another dialog's INVITE in between") {
			return nil
		}
		oid := s.nextID("oth-")
		s.in.expect(mk("INVITE", oid, 1, ""))
		if err := send(mk("INVITE", oid, 1, "")); err != nil {
			return err
		}
		_, err := s.in.settle(send, 0)
		return err
	}
	if err := inDialog("pinned", 1); err != nil {
		return obs, false, err
	}
	// the outage
	ep := inv.ep
	ep.goDown()
	time.Sleep(time.Duration(rapid.IntRange(5, 60).Draw(rt, "ms after the backend went down")) * time.Millisecond)
	for i, k := 0, rapid.IntRange(0, 3).Draw(rt, "in-dialog requests during the outage"); i < k; i++ {
		if err := other(); err != nil {
			return obs, false, err
		}
		if err := inDialog("during", 0); err != nil {
			return obs, false, err
		}
	}
	if _, err := s.in.hub.comeUp(ep); err != nil {
		return obs, false, fmt.Errorf("backend cannot listen again: %v", err)
	}
	if rapid.Bool().Draw(rt, "a pause after the return") {
		time.Sleep(time.Duration(rapid.IntRange(10, 400).Draw(rt, "pause ms")) * time.Millisecond)
	}
	for i, k := 0, rapid.IntRange(1, 3).Draw(rt, "in-dialog requests after the return"); i < k; i++ {
		if err := other(); err != nil {
			return obs, false, err
		}
		if err := inDialog("after", 1); err != nil {
			return obs, false, err
		}
	}
	return obs, true, nil
}

// outageSticky: C04's and C15's promise over a fault history - a request of the
// pinned dialog reaches the pinned backend or, while that is unreachable,
// nobody; never another backend; the pin is still there when the backend is
// back (nothing that dissolves a pin has happened, its lifetime has not
// elapsed).
func outageSticky(o outageObs) string {
	for _, st := range o.Steps {
		atPinned := 0
		for _, a := range st.Arrived {
			if fmt.Sprintf("%s:%d", a.IP, a.Port) == o.Backend && a.TCP {
				atPinned++
				continue
			}
			return fmt.Sprintf("%s [phase: %s] was delivered to %s - a request of a pinned dialog goes to the backend that answered the dialog and to no other; history: %s", st.Request, st.Phase, a.At, o)
		}
		if atPinned > 1 {
			return fmt.Sprintf("%s was delivered %d times to the pinned backend; history: %s", st.Request, atPinned, o)
		}
		if st.Phase != "during" && atPinned != 1 {
			return fmt.Sprintf("%s [phase: %s; the pinned backend was listening and accepting connections at that moment] reached nobody - the pin is to be honoured for the dialog's lifetime and the backend was reachable; history: %s", st.Request, st.Phase, o)
		}
	}
	return ""
}

// outageVias: C06's promise over a fault history - whatever is handed to a
// backend carries exactly one new top Via of the listener (and exactly one
// Record-Route entry of the listener if the request carried a Record-Route
// already, none otherwise - must-record-route is off in this service).
func outageVias(o outageObs, listenerAddr string, udpPort int) string {
	for _, st := range o.Steps {
		for _, a := range st.Arrived {
			if len(a.Vias) != st.SentVias+1 {
				return fmt.Sprintf("%s (%s the outage of the pinned backend) arrived at %s with %d Via entries, the sender wrote %d: exactly one is pushed; entries: %q; history: %s", st.Request, st.Phase, a.At, len(a.Vias), st.SentVias, a.Vias, o)
			}
			own := 0
			for _, r := range a.RRs {
				if strings.Contains(r, listenerAddr+":") || strings.Contains(r, listenerAddr+";") || strings.Contains(r, listenerAddr+">") {
					own++
				}
			}
			want := 0
			if len(a.RRs)-own > 0 {
				want = 1
			}
			if own != want {
				return fmt.Sprintf("%s (%s the outage of the pinned backend) arrived at %s with %d Record-Route entries of the listener, expected %d; entries: %q; history: %s", st.Request, st.Phase, a.At, own, want, a.RRs, o)
			}
		}
	}
	return ""
}

// ---- a TCP next hop that refuses connections, then accepts them ----

type hopArrival struct {
	At     string   `json:"at"`
	AtHop  bool     `json:"at_the_hop"`
	Routes []string `json:"route_entries"`
	Vias   int      `json:"via_entries"`
}

type hopStep struct {
	Phase   string       `json:"phase"` // "down", "up"
	Layout  string       `json:"route_layout"`
	Request string       `json:"request"`
	Sent    []string     `json:"route_entries_sent"`
	OwnTop  bool         `json:"own_entry_on_top"`
	Arrived []hopArrival `json:"arrived"`
	Twin    *hopStep     `json:"same_request_other_layout,omitempty"`
}

type hopObs struct {
	Hop   string    `json:"tcp_next_hop"`
	Fresh bool      `json:"hop_never_used_before"`
	Keep  bool      `json:"keep_next_hop_route"`
	Steps []hopStep `json:"steps"`
}

func (o hopObs) String() string {
	var sb strings.Builder
	fmt.Fprintf(&sb, "TCP next hop %s (keep-next-hop-route %v);", o.Hop, o.Keep)
	for _, s := range o.Steps {
		var at []string
		for _, a := range s.Arrived {
			at = append(at, fmt.Sprintf("%s with Route %q", a.At, a.Routes))
		}
		if len(at) == 0 {
			at = []string{"nowhere"}
		}
		fmt.Fprintf(&sb, " [hop %s, Route %s%q] %s -> %s;", s.Phase, s.Layout, s.Sent, s.Request, strings.Join(at, " + "))
	}
	return sb.String()
}

// hopOutage plays, over UDP ingress of listen entry 0: requests whose first
// Route entry (optionally behind the listener's own) names a TCP next hop where
// nobody listens - followed by two further entries naming live UDP elements,
// the To host having a static route to yet another live element - then the hop
// starts listening and further such requests follow within a second or two.
// twin: every request is sent twice (new Call-ID and branch), once with the
// Route entries joined on one line, once with one line per entry.
func (s *stdSvc) hopOutage(rt *rapid.T, test string, twin bool) (obs hopObs, ok bool, err error) {
	l := s.in.cfg.Listens[0]
	obs.Keep = s.in.cfg.keepOn()
	ua := rapid.IntRange(0, 3).Draw(rt, "ua")
	g := stdIngress{UA: ua, Entry: 0, TCP: false}
	send, srcIP, _, e := s.sender(g)
	if e != nil {
		return obs, false, e
	}
	uaIP := s.uas[ua].ip
	// the hop: a port of .26 where nothing listens yet
	s.seq++
	hip, hport := s.ip(26), 7000+s.seq%20000
	obs.Hop, obs.Fresh = fmt.Sprintf("%s:%d", hip, hport), true
	// (the same address and port over UDP is a live element of its own: the entry says transport=tcp)
	if _, err := s.in.hub.udpEP("hop-address-over-udp", hip, hport); err != nil {
		return obs, false, fmt.Errorf("bind: %v", err)
	}
	further := []string{fmt.Sprintf("<sip:%s:5070;lr>", s.ip(24)), fmt.Sprintf("<sip:%s:5070;lr>", s.ip(22))}
	hopEntry := fmt.Sprintf("<sip:%s:%d;transport=tcp;lr>", hip, hport)
	own := fmt.Sprintf("<sip:%s:%d;lr>", l.Addr, l.UDPPort)
	one := func(phase, layout string, ownTop bool, min int) (hopStep, error) {
		id := s.nextID("hop-")
		entries := append([]string{hopEntry}, further...)
		sent := entries
		if ownTop {
			sent = append([]string{own}, entries...)
		}
		var rl string
		if layout == "joined" {
			rl = "Route: " + strings.Join(sent, ", ") + "\r\n"
		} else {
			for _, e := range sent {
				rl += "Route: " + e + "\r\n"
			}
		}
		method := rapid.SampledFrom([]string{"MESSAGE", "OPTIONS", "INVITE", "INFO"}).Draw(rt, "method")
		wire := []byte(fmt.Sprintf("%s sip:x@static-udp.test SIP/2.0\r\nVia: SIP/2.0/UDP %s:5060;branch=z9hG4bK%s\r\nMax-Forwards: 70\r\n%sFrom: <sip:a@a.example>;tag=f%s\r\nTo: <sip:x@static-udp.test>\r\nCall-ID: %s\r\nCSeq: 1 %s\r\nContent-Length: 0\r\n\r\n", method, uaIP, id, rl, id, id, method))
		st := hopStep{Phase: phase, Layout: layout, Request: method + " " + id, Sent: entries, OwnTop: ownTop}
		s.model.learnRequest(s.transportOf(g), srcIP, &AMsg{IsReq: true, Hdrs: []AHdr{{Kind: hVia, Vias: []AVia{{Host: uaIP}}}}})
		s.in.expect(wire)
		if err := send(wire); err != nil {
			return st, err
		}
		rs, err := s.in.settle(send, min)
		if err != nil {
			return st, err
		}
		for _, r := range labMessages(rs) {
			a := hopArrival{At: r.where(), Routes: r.msg.Entries(hRoute), Vias: len(r.msg.Entries(hVia))}
			a.AtHop = r.tcp != nil && r.ep != nil && r.ep.ip == hip && r.ep.port == hport
			st.Arrived = append(st.Arrived, a)
		}
		return st, nil
	}
	step := func(phase string, min int) error {
		layout := rapid.SampledFrom([]string{"joined", "one line each"}).Draw(rt, "route layout")
		ownTop := rapid.Bool().Draw(rt, "own entry on top")
		st, err := one(phase, layout, ownTop, min)
		if err != nil {
			obs.Steps = append(obs.Steps, st)
			return err
		}
		if twin {
			other := map[string]string{"joined": "one line each", "one line each": "joined"}[layout]
			tw, err := one(phase, other, ownTop, min)
			st.Twin = &tw
			if err != nil {
				obs.Steps = append(obs.Steps, st)
				return err
			}
		}
		obs.Steps = append(obs.Steps, st)
		V.Journal(test, obs)
		return nil
	}
	for i, k := 0, rapid.IntRange(1, 3).Draw(rt, "requests while the hop refuses"); i < k; i++ {
		if err := step("down", 0); err != nil {
			return obs, false, err
		}
		time.Sleep(time.Duration(rapid.IntRange(0, 300).Draw(rt, "gap ms")) * time.Millisecond)
	}
	if _, err := s.in.hub.tcpEP("hop-tcp", hip, hport); err != nil {
		return obs, false, fmt.Errorf("hop cannot listen: %v", err)
	}
	for i, k := 0, rapid.IntRange(2, 4).Draw(rt, "requests after the hop came up"); i < k; i++ {
		if err := step("up", 1); err != nil {
			return obs, false, err
		}
		time.Sleep(time.Duration(rapid.IntRange(0, 300).Draw(rt, "gap ms")) * time.Millisecond)
	}
	return obs, true, nil
}

// hopDestination: C03's promise over the history - the destination is the
// first remaining Route entry, whether or not it can be reached: a request
// reaches the hop or nobody, and the hop once it accepts connections.
func hopDestination(o hopObs) string {
	var steps []hopStep
	for _, st := range o.Steps {
		steps = append(steps, st)
		if st.Twin != nil {
			steps = append(steps, *st.Twin)
		}
	}
	for _, st := range steps {
		n := 0
		for _, a := range st.Arrived {
			if !a.AtHop {
				return fmt.Sprintf("%s: its first remaining Route entry names %s over TCP (%s), and it was delivered to %s - no request is sent to a destination other than the one chosen by the precedence, reachable or not; history: %s", st.Request, o.Hop, map[string]string{"down": "refusing connections at that moment", "up": "accepting connections"}[st.Phase], a.At, o)
			}
			n++
		}
		if n > 1 {
			return fmt.Sprintf("%s was delivered %d times to %s; history: %s", st.Request, n, o.Hop, o)
		}
		if st.Phase == "up" && n == 0 {
			return fmt.Sprintf("%s: its first remaining Route entry names %s over TCP, which was listening and accepting connections, and the request reached nobody (earlier requests had found the hop refusing); history: %s", st.Request, o.Hop, o)
		}
	}
	return ""
}

// hopRoutes: C13's promise - what arrives at the hop carries the further
// entries unchanged and in order, behind the hop's own entry iff
// keep-next-hop-route is on.
func hopRoutes(o hopObs) string {
	for _, st := range o.Steps {
		for _, s2 := range []*hopStep{&st, st.Twin} {
			if s2 == nil {
				continue
			}
			want := s2.Sent[1:]
			if o.Keep {
				want = s2.Sent
			}
			for _, a := range s2.Arrived {
				if strings.Join(a.Routes, "|") != strings.Join(want, "|") {
					return fmt.Sprintf("%s (hop %s) arrived at %s with Route %q, expected %q (own entry on top: %v, layout %s, keep-next-hop-route %v); history: %s", s2.Request, s2.Phase, a.At, a.Routes, want, s2.OwnTop, s2.Layout, o.Keep, o)
				}
			}
		}
	}
	return ""
}

// hopTwins: C17's promise - the two layouts of the same Route set fare alike.
func hopTwins(o hopObs) string {
	sig := func(s *hopStep) string {
		var out []string
		for _, a := range s.Arrived {
			at := a.At
			if a.AtHop {
				at = "the hop"
			}
			out = append(out, fmt.Sprintf("%s Route=%q Vias=%d", at, a.Routes, a.Vias))
		}
		return strings.Join(out, " + ")
	}
	for _, st := range o.Steps {
		if st.Twin == nil {
			continue
		}
		if a, b := sig(&st), sig(st.Twin); a != b {
			return fmt.Sprintf("the same Route set %q (hop %s) written %s: relayed to [%s]; written %s: relayed to [%s]; history: %s", st.Sent, st.Phase, st.Layout, a, st.Twin.Layout, b, o)
		}
	}
	return ""
}

// ---- the address of a pinned backend leaves the resolved pool (and joins again) ----

// poolFlap plays, on a DynPool service: dialogs are opened until one lands on a
// member X of the resolved TCP pool, which answers 200 with a To-tag (the pin);
// an in-dialog request follows the pin; the backend name then resolves without
// X's address - and, drawn, with it again; unrelated requests pass; 1-3
// in-dialog requests follow. X itself never goes away: it listens and accepts
// all the time. The observations use the types of the outage history.
func (s *stdSvc) poolFlap(rt *rapid.T, test string) (obs outageObs, ok bool, err error) {
	l := s.in.cfg.Listens[0]
	ua := rapid.IntRange(0, 3).Draw(rt, "ua")
	g := stdIngress{UA: ua, Entry: 0, TCP: false}
	send, srcIP, _, e := s.sender(g)
	if e != nil {
		return obs, false, e
	}
	uaIP := s.uas[ua].ip
	mk := func(method, id string, cseq int, toTag string) []byte {
		to := "<sip:svc@nomatch.example>"
		if toTag != "" {
			to += ";tag=" + toTag
		}
		return []byte(fmt.Sprintf("%s sip:svc.test SIP/2.0\r\nVia: SIP/2.0/UDP %s:5060;branch=z9hG4bK%s-%d\r\nMax-Forwards: 70\r\nFrom: <sip:a@a.example>;tag=f%s\r\nTo: %s\r\nCall-ID: %s\r\nCSeq: %d %s\r\nContent-Length: 0\r\n\r\n", method, uaIP, id, cseq, id, to, id, cseq, method))
	}
	one := func(phase, what string, wire []byte, min int) ([]labRx, error) {
		s.model.learnRequest(s.transportOf(g), srcIP, &AMsg{IsReq: true, Hdrs: []AHdr{{Kind: hVia, Vias: []AVia{{Host: uaIP}}}}})
		s.in.expect(wire)
		if err := send(wire); err != nil {
			return nil, err
		}
		rs, err := s.in.settle(send, min)
		if err != nil {
			return nil, err
		}
		got := labMessages(rs)
		st := outageStep{Phase: phase, Request: what, SentVias: 1}
		for _, r := range got {
			a := outageArrival{At: r.where(), TCP: r.tcp != nil, Vias: r.msg.Entries(hVia), RRs: r.msg.Entries(hRR)}
			if r.ep != nil {
				a.IP, a.Port = r.ep.ip, r.ep.port
			}
			st.Arrived = append(st.Arrived, a)
		}
		obs.Steps = append(obs.Steps, st)
		V.Journal(test, obs)
		return got, nil
	}
	s.resolved(s.poolIP...)
	var id string
	var inv labRx
	for try := 0; try < len(l.Backends)+len(s.poolIP)+2 && id == ""; try++ {
		cand := s.nextID("flap-")
		got, err := one("setup", "INVITE "+cand, mk("INVITE", cand, 1, ""), 1)
		if err != nil {
			return obs, false, err
		}
		if len(got) != 1 {
			return obs, false, nil
		}
		if got[0].tcp != nil && got[0].ep != nil && (got[0].ep.ip == s.poolIP[0] || got[0].ep.ip == s.poolIP[1]) {
			id, inv = cand, got[0]
		}
	}
	obs.Steps = nil
	if id == "" {
		return obs, false, nil
	}
	x := inv.ep.ip
	obs.Backend = fmt.Sprintf("%s:%d", x, 5080)
	resp := buildResponse(inv.msg, 200, "OK", "t"+id, "")
	s.in.expect(resp)
	if err := inv.tcp.send(resp); err != nil {
		return obs, false, fmt.Errorf("backend could not answer: %v", err)
	}
	rs, err := s.in.settle(inv.tcp.send, 1)
	if err != nil {
		return obs, false, err
	}
	if got := labMessages(rs); len(got) != 1 || got[0].ep != s.uas[ua] {
		return obs, false, nil
	}
	cseq := 1
	inDialog := func(phase string) error {
		cseq++
		m := rapid.SampledFrom([]string{"INFO", "INFO", "UPDATE", "MESSAGE", "INVITE", "BYE"}).Draw(rt, "in-dialog method")
		_, err := one(phase, fmt.Sprintf("%s (in-dialog, CSeq %d)", m, cseq), mk(m, id, cseq, "t"+id), 1)
		return err
	}
	if err := inDialog("pinned"); err != nil {
		return obs, false, err
	}
	var others []string
	for _, a := range s.poolIP {
		if a != x {
			others = append(others, a)
		}
	}
	s.resolved(others...)
	rejoin := rapid.Bool().Draw(rt, "the address joins the pool again")
	if rejoin {
		s.resolved(s.poolIP...)
	}
	obs.Event = map[bool]string{true: "the backend's address leaves the resolved pool and joins it again (the backend itself listens all the time)", false: "the backend's address leaves the resolved pool (the backend itself listens all the time)"}[rejoin]
	for i, k := 0, rapid.IntRange(0, 3).Draw(rt, "unrelated requests"); i < k; i++ {
		oid := s.nextID("oth-")
		s.in.expect(mk("OPTIONS", oid, 1, ""))
		if err := send(mk("OPTIONS", oid, 1, "")); err != nil {
			return obs, false, err
		}
		if _, err := s.in.settle(send, 1); err != nil {
			return obs, false, err
		}
	}
	for i, k := 0, rapid.IntRange(1, 3).Draw(rt, "in-dialog requests afterwards"); i < k; i++ {
		if err := inDialog("after"); err != nil {
			return obs, false, err
		}
	}
	return obs, true, nil
}

package main

// The standard lab service: three listen entries, UDP and TCP backends, a
// static route table with exact / wildcard / default / tls entries, a host
// table with aliases, harness endpoints everywhere a (mis)delivery could go.

import (
	"fmt"
	"net"
	"os"
	"strings"
	"time"

	"pgregory.net/rapid"
)

type stdVariant struct {
	Name       string
	Keep       string
	KeepEnv    string   // KEEP_NEXT_HOP_ROUTE in the environment while the service starts
	Bin        bool     // run the service as the real binary in a subprocess (bin engine)
	BinRace    bool     // ... the -race build of it
	BinEnv     []string // extra environment of the subprocess
	Pool       int      // > 0: listen entry 0 gets this many UDP backends (.70+i:5080) ...
	PoolTCP    bool     // ... plus the TCP backend .33:5080
	Default    bool
	MustRR     [3]string
	NoReceived [3]string
	Timeout    int
	Entry2Pool bool // listen entry 2 (UDP only) gets a UDP backend (.36:5080) and a TCP backend (.39:5080): requests leave over another transport than they came in on
	SharedTCP  bool // listen entry 1 also gets the TCP backend .33:5080 of listen entry 0 (one backend behind two listen entries)
	DynPool    bool // listen entry 0 also gets the TCP backends a host name resolves to (.40 and .41, port 5080), fed through the resolver's own entry point
	Two        bool // a second entry under proxies: (svc-b.test, listener .4:5066/5067, backend .37:5080) whose host table differs from the first one's and from the global one
}

const stdNames = `svc.test, sos@svc2.test, urn:service:sos, ^.+@emergency\.test$, tel:\+?1\d+`

type stdSvc struct {
	in     *labInst
	v      stdVariant
	model  *mModel
	uas    []*labEP // UDP user agents (.10-.13:5060)
	uas2   []*labEP // same addresses, port 6010
	uas3   []*labEP // same addresses, a port beyond 32767 (s.high)
	high   int
	eps    []*labEP // every harness endpoint
	tcpUA  map[string]*labTCPConn
	seq    int
	primed bool
	pool   string   // DynPool: the backend host name ...
	poolIP []string // ... and the addresses it resolves to at the start
}

func (s *stdSvc) ip(d int) string { return s.in.ip(d) }

func newStdSvc(v stdVariant) (*stdSvc, error) {
	in := labNewInst()
	s := &stdSvc{in: in, v: v, tcpUA: map[string]*labTCPConn{}}
	ip := in.ip
	name := v.Name
	if name == "" {
		name = stdNames
	}
	// one port beyond 32767 (what a NAT or an ephemeral source port looks like)
	// for a third socket per user agent and for next hops: the first candidate
	// free on all addresses that will use it (another process may hold a
	// wildcard socket on a candidate)
	for _, cand := range []int{51733, 40123, 49152, 60123, 65535, 33333, 47011, 58999} {
		free := true
		for _, d := range []int{10, 11, 12, 13, 20, 21, 22, 24, 25, 60, 99} {
			if c, err := net.ListenUDP("udp", &net.UDPAddr{IP: net.ParseIP(ip(d)), Port: cand}); err != nil {
				free = false
			} else {
				c.Close()
			}
			if l, err := net.Listen("tcp", fmt.Sprintf("%s:%d", ip(d), cand)); err != nil {
				free = false
			} else {
				l.Close()
			}
			if !free {
				break
			}
		}
		if free {
			s.high = cand
			break
		}
	}
	if s.high == 0 {
		return nil, fmt.Errorf("no free port beyond 32767 on the harness addresses")
	}
	cfg := labCfg{
		Name:          name,
		Keep:          v.Keep,
		DialogTimeout: v.Timeout,
		Listens: []labListenCfg{
			{Addr: ip(1), UDPPort: 5060, TCPPort: 5060, Backends: []string{"udp://" + ip(31) + ":5080", "udp://" + ip(32) + ":5080", "tcp://" + ip(33) + ":5080"}, MustRR: v.MustRR[0], NoReceived: v.NoReceived[0]},
			{Addr: ip(2), UDPPort: 5062, TCPPort: 5063, Backends: []string{"udp://" + ip(34) + ":5080", "udp://" + ip(35) + ":5080"}, MustRR: v.MustRR[1], NoReceived: v.NoReceived[1]},
			{Addr: ip(3), UDPPort: 5064, MustRR: v.MustRR[2], NoReceived: v.NoReceived[2]},
		},
		Routes: []labRouteCfg{
			{Dests: []string{"static-udp.test", "also-udp.test"}, Protocol: "udp", NextHop: ip(20) + ":5070"},
			{Dests: []string{"static-tcp.test"}, Protocol: "tcp", NextHop: "hop-a.test:5070"},
			{Dests: []string{"static-tls.test"}, Protocol: "tls", NextHop: ip(20) + ":5070"},
			{Dests: []string{"static-noport.test"}, Protocol: "udp", NextHop: "hop-b.test"},
			// (route items with several dests: wildcards in first, middle and last position, literals between them)
			{Dests: []string{"plain-w.test", "*.wudp.test", "*.wmid.test", "tail-lit.test", "*.wlast.test"}, Protocol: "udp", NextHop: ip(24) + ":5070"},
			{Dests: []string{"*.wtcp.test", "*.wtcp2.test"}, Protocol: "tcp", NextHop: ip(24) + ":5070"},
			{Dests: []string{"*.wtls.test"}, Protocol: "TLS", NextHop: ip(24) + ":5070"},
			// a literal listed after a wildcard that covers it: the literal must still win
			{Dests: []string{"lit.wudp.test"}, Protocol: "udp", NextHop: ip(22) + ":5070"},
			// a literal destination written with capital letters, next hop by a capitalised host-table name
			{Dests: []string{"Static-Caps.Corp.test"}, Protocol: "udp", NextHop: "Hop-B.Corp.test:5070"},
			// a next hop on a port beyond 32767
			{Dests: []string{"static-high.test"}, Protocol: "udp", NextHop: fmt.Sprintf("%s:%d", ip(24), s.high)},
			// a wildcard meant for IPv4 To hosts
			{Dests: []string{"10.20.*"}, Protocol: "udp", NextHop: ip(24) + ":5060"},
		},
		Hosts: [][2]string{
			{"proxy-a.test", ip(1)}, {"proxy-b.test", ip(2)}, {"proxy-c.test", ip(3)},
			// names an operator wrote with capital letters (the tables are looked up as written)
			{"Proxy-A.Corp.test", ip(1)}, {"Proxy-B.Corp.test", ip(2)}, {"Proxy-C.Corp.test", ip(3)}, {"Hop-B.Corp.test", ip(21)},
			{"hop-a.test", ip(20)}, {"hop-b.test", ip(21)}, {"hop-c.test", ip(25)},
			{"ua-a.test", ip(10)}, {"ua-b.test", ip(11)}, {"UA-C.Corp.test", ip(12)}, {"foreign.test", ip(60)},
			// elements that are only ever known by name: nothing comes from their
			// addresses and no message writes them (C06)
			{"natted-a.test", ip(27)}, {"natted-b.test", ip(28)},
		},
		GlobalHosts: [][2]string{{"hop-a.test", ip(99)}, {"global-hop.test", ip(21)}},
	}
	if v.Pool > 0 {
		var bs []string
		for i := 0; i < v.Pool; i++ {
			// (neither in numeric nor in lexicographic order of their addresses)
			bs = append(bs, fmt.Sprintf("udp://%s:5080", ip([]int{73, 100, 70, 9, 75, 101, 72, 71}[i])))
		}
		if v.PoolTCP {
			bs = append(bs, "tcp://"+ip(33)+":5080")
		}
		cfg.Listens[0].Backends = bs
	}
	if v.Entry2Pool {
		cfg.Listens[2].Backends = []string{"udp://" + ip(36) + ":5080", "tcp://" + ip(39) + ":5080"}
	}
	if v.SharedTCP {
		cfg.Listens[1].Backends = append(cfg.Listens[1].Backends, "tcp://"+ip(33)+":5080")
	}
	if v.DynPool {
		// the global dynamic resolver without its polling goroutine (DNS is dead in
		// the harness: polling would only report failures and empty the pool)
		if dynamicHostResolver != nil {
			dynamicHostResolver.Stop()
		}
		dynamicHostResolver = &DynamicHostResolver{hostIPs: map[string]*AddressWithCallback{}}
		s.pool = fmt.Sprintf("std-pool-%d.verif.invalid", in.c)
		s.poolIP = []string{ip(40), ip(41)}
		cfg.Listens[0].Backends = append(cfg.Listens[0].Backends, "tcp://"+s.pool+":5080")
	}
	if v.Default {
		cfg.Routes = append(cfg.Routes, labRouteCfg{Dests: []string{"default"}, Protocol: "udp", NextHop: ip(22)})
	}
	if v.Two {
		// hop-x.test is a different machine for each service, and a third one globally;
		// only-b.test is known to the second service alone
		cfg.Hosts = append(cfg.Hosts, [2]string{"hop-x.test", ip(21)})
		cfg.GlobalHosts = append(cfg.GlobalHosts, [2]string{"hop-x.test", ip(99)})
		cfg.More = []labCfg{{
			Name:    "svc-b.test",
			Listens: []labListenCfg{{Addr: ip(4), UDPPort: 5066, TCPPort: 5067, Backends: []string{"udp://" + ip(37) + ":5080", "udp://" + ip(38) + ":5080"}}},
			Routes:  []labRouteCfg{{Dests: []string{"static-udp.test"}, Protocol: "udp", NextHop: ip(25) + ":5070"}},
			Hosts:   [][2]string{{"hop-x.test", ip(25)}, {"only-b.test", ip(22)}},
		}}
	}
	cfg.KeepEnv = v.KeepEnv
	if v.KeepEnv != "" {
		os.Setenv("KEEP_NEXT_HOP_ROUTE", v.KeepEnv)
	}
	// the backends are up before the proxy starts (it may connect to them eagerly)
	add := func(e *labEP, err error) *labEP {
		if err != nil {
			panic(fmt.Sprintf("verif harness: cannot bind endpoint: %v", err))
		}
		s.eps = append(s.eps, e)
		return e
	}
	allListens := append([]labListenCfg{}, cfg.Listens...)
	for _, m := range cfg.More {
		allListens = append(allListens, m.Listens...)
	}
	for _, l := range allListens {
		for _, b := range l.Backends {
			proto, hp, _ := strings.Cut(b, "://")
			host, port := splitHostPort(hp)
			if !isIPv4Literal(host) {
				continue
			}
			if proto == "udp" {
				add(in.hub.udpEP("backend-udp", host, port))
			} else {
				add(in.hub.tcpEP("backend-tcp", host, port))
			}
		}
	}
	for _, a := range s.poolIP {
		add(in.hub.tcpEP("backend-tcp-resolved", a, 5080))
	}
	var err error
	if v.Bin {
		env := v.BinEnv
		if v.KeepEnv != "" {
			env = append(env, "KEEP_NEXT_HOP_ROUTE="+v.KeepEnv)
		}
		err = in.startBin(cfg, v.BinRace, env...)
	} else {
		err = in.start(cfg)
	}
	os.Unsetenv("KEEP_NEXT_HOP_ROUTE")
	if err != nil {
		return nil, err
	}
	s.model = newModel(cfg)
	if v.DynPool {
		s.resolved(s.poolIP...)
	}
	for i := 0; i < 4; i++ {
		s.uas = append(s.uas, add(in.hub.udpEP(fmt.Sprintf("ua%d", i), ip(10+i), 5060)))
		s.uas2 = append(s.uas2, add(in.hub.udpEP(fmt.Sprintf("ua%d'", i), ip(10+i), 6010)))
		add(in.hub.tcpEP(fmt.Sprintf("ua%d-tcp", i), ip(10+i), 5060))
		add(in.hub.tcpEP(fmt.Sprintf("ua%d'-tcp", i), ip(10+i), 6010))
	}
	for i := 0; i < 4; i++ {
		s.uas3 = append(s.uas3, add(in.hub.udpEP(fmt.Sprintf("ua%d^", i), ip(10+i), s.high)))
		add(in.hub.tcpEP(fmt.Sprintf("ua%d^-tcp", i), ip(10+i), s.high))
	}
	for _, d := range []int{27, 28} {
		add(in.hub.udpEP(fmt.Sprintf("natted%d-udp", d), ip(d), 5070))
	}
	for _, d := range []int{20, 21, 22, 24, 25, 60, 99} {
		for _, p := range []int{5060, 5070, 5061, s.high} {
			add(in.hub.udpEP(fmt.Sprintf("hop%d-udp", d), ip(d), p))
			add(in.hub.tcpEP(fmt.Sprintf("hop%d-tcp", d), ip(d), p))
		}
	}
	// endpoints where near-miss Route entries lead (C13)
	for _, ap := range []struct {
		d, p int
	}{{1, 5099}, {2, 5099}, {3, 5099}, {2, 5063}, {2, 5060}, {3, 5060}, {60, 5062}, {60, 5063}, {60, 5064}} {
		add(in.hub.udpEP(fmt.Sprintf("nearmiss%d", ap.d), ip(ap.d), ap.p))
	}
	return s, nil
}

func splitHostPort(hp string) (string, int) {
	i := strings.LastIndex(hp, ":")
	p := 0
	fmt.Sscanf(hp[i+1:], "%d", &p)
	return hp[:i], p
}

// backendOf: is endpoint e a backend of listen entry k?
func (s *stdSvc) isBackendOf(e *labEP, k int, viaTCP bool) bool {
	for _, b := range s.in.cfg.Listens[k].Backends {
		proto, hp, _ := strings.Cut(b, "://")
		host, port := splitHostPort(hp)
		if e != nil && e.ip == host && e.port == port && (proto == "tcp") == viaTCP {
			return true
		}
	}
	return false
}

// tcpClient returns a cached harness client connection from UA i to listen entry k.
func (s *stdSvc) tcpClient(i, k int) (*labTCPConn, error) {
	key := fmt.Sprintf("%d-%d", i, k)
	if c, ok := s.tcpUA[key]; ok && !c.isDead() {
		return c, nil
	}
	l := s.in.cfg.Listens[k]
	c, err := s.in.hub.dialTCP(fmt.Sprintf("ua%d", i), s.ip(10+i), l.Addr, l.TCPPort)
	if err != nil {
		return nil, err
	}
	s.tcpUA[key] = c
	return c, nil
}

type stdIngress struct {
	UA    int  `json:"ua"`
	Entry int  `json:"listen_entry"`
	TCP   bool `json:"tcp"`
	Alt   bool `json:"second_connection,omitempty"` // TCP: the user agent's second connection to that listener
}

func (s *stdSvc) transportOf(g stdIngress) *mTransport {
	if g.TCP {
		return s.model.transport(g.Entry, "tcp")
	}
	return s.model.transport(g.Entry, "udp")
}

// sender returns the function that puts bytes on the ingress path g, and the
// (source ip, source port) the proxy will see.
func (s *stdSvc) sender(g stdIngress) (func([]byte) error, string, int, error) {
	l := s.in.cfg.Listens[g.Entry]
	if !g.TCP {
		ua := s.uas[g.UA]
		return func(b []byte) error { return ua.sendUDP(l.Addr, l.UDPPort, b) }, ua.ip, ua.port, nil
	}
	c, err := s.tcpConnOf(g)
	if err != nil {
		return nil, "", 0, err
	}
	_, port := splitHostPort(c.local)
	// The connection was alive a moment ago (a dead one is replaced above) and
	// everything sent on it before has come out behind a barrier: if a write
	// fails now, the proxy has closed a connection that carried only in-domain
	// messages - that is the product's doing, not the harness's.
	send := func(b []byte) error {
		if err := c.send(b); err != nil {
			return labLost{fmt.Sprintf("the proxy closed the TCP connection %s on which the message was being sent (%v): a connection carrying well-formed messages must stay open and be served", c, err)}
		}
		return nil
	}
	return send, s.ip(10 + g.UA), port, nil
}

// tcpConnOf: the client connection a TCP ingress path uses (a user agent may
// hold two connections to the same listener).
func (s *stdSvc) tcpConnOf(g stdIngress) (*labTCPConn, error) {
	if !g.Alt {
		return s.tcpClient(g.UA, g.Entry)
	}
	key := fmt.Sprintf("%d-%d-alt", g.UA, g.Entry)
	if c, ok := s.tcpUA[key]; ok && !c.isDead() {
		return c, nil
	}
	l := s.in.cfg.Listens[g.Entry]
	c, err := s.in.hub.dialTCP(fmt.Sprintf("ua%d''", g.UA), s.ip(10+g.UA), l.Addr, l.TCPPort)
	if err != nil {
		return nil, err
	}
	s.tcpUA[key] = c
	return c, nil
}

func (s *stdSvc) nextID(prefix string) string {
	s.seq++
	return fmt.Sprintf("%s%d-%d", prefix, s.in.c, s.seq)
}

// gIngress draws an ingress path among the entries that have the transport.
func (s *stdSvc) gIngress(rt *rapid.T, label string, entries []int) stdIngress {
	g := stdIngress{UA: rapid.IntRange(0, 3).Draw(rt, label+".ua"), Entry: entries[rapid.IntRange(0, len(entries)-1).Draw(rt, label+".entry")]}
	if s.in.cfg.Listens[g.Entry].TCPPort > 0 && rapid.IntRange(0, 3).Draw(rt, label+".tcp") == 0 {
		g.TCP = true
	}
	return g
}

// matchHop: was r received at the endpoint the hop designates?
func matchHop(r labRx, h mHop) bool {
	if r.ep == nil {
		return false
	}
	if r.ep.ip != h.IP || r.ep.port != h.Port {
		return false
	}
	if h.Proto == "tcp" {
		return r.tcp != nil && r.tcp.accepted
	}
	return r.tcp == nil
}

// c03OwnRoute: a Route entry that designates listener transport L (by address,
// by alias, or by alias without port when L is on 5060).
func c03OwnRoute(rt *rapid.T, s *stdSvc, L *mTransport) ANameAddr {
	u := AURI{Scheme: "sip", Host: L.Addr, Port: L.Port, Params: []AParam{{K: "lr"}}}
	switch rapid.IntRange(0, 2).Draw(rt, "ownform") {
	case 1:
		u.Host = []string{"proxy-a.test", "proxy-b.test", "proxy-c.test"}[L.Entry]
		if rapid.Bool().Draw(rt, "alias written with capitals") {
			u.Host = []string{"Proxy-A.Corp.test", "Proxy-B.Corp.test", "Proxy-C.Corp.test"}[L.Entry]
		}
	case 2:
		if L.Port == 5060 {
			u.Port = 0
		}
	}
	if rapid.Bool().Draw(rt, "ownuser") {
		u.User = gWord(rt, "ownuserv")
	}
	return ANameAddr{URI: u}
}

// resolved: the backend host name of a DynPool service now resolves to addrs
// (fed through the entry point the resolver's polling loop calls); returns once
// the rotation has had time to follow.
func (s *stdSvc) resolved(addrs ...string) {
	dynamicHostResolver.addressResolved(s.pool, append([]string{}, addrs...), nil)
	time.Sleep(120 * time.Millisecond)
}

//verif:needs core,sip,lab
package main

// C06 - the proxy inserts itself correctly: one fresh top Via, Record-Route by
// policy. Engine: lab. Oracle: decoded Via / Record-Route lists of the relayed
// request = [new] + input lists (input entries textually intact and in order,
// first Via entry modulo C07's stamping), new entries as the statement says,
// branch freshness over the whole run.

import (
	"fmt"
	"net"
	"strings"
	"testing"
	"time"

	"pgregory.net/rapid"
)

func TestC06(t *testing.T) {
	V.Rule("lab: requests with 0-6 existing Via entries (now and then, below the sender's, a well-formed one this proxy cannot decode - IPv6 reference, blanks around the slashes or the colon - alone on its line or sharing it) and 0-4 Record-Route entries in any line layout and at any position among the other headers, over the three request paths (backend, Route, static route), must-record-route absent/true/false per listen entry, UDP and TCP ingress, next hop learned through the receiving listener, learned through another listener (an earlier request came from that host), or never learned. Oracle: Via list = [SIP/2.0/<listener transport> addr:port;branch=z9hG4bK+a generated part, never seen before in the run] + input iff destination is a backend or a learned hop (else = input); Record-Route list = [<sip:addr:port;lr>] + input iff a Via was pushed and (input has Record-Route or must-record-route), else = input. Hops known only from the message being routed, or written as a name that was never learned while its address was, are don't-cares; a hop known by name only (the name listed in a Via, its address never seen: learned-by-name) is a learned hop. A fault history (backend-outage): in-dialog requests before, during and after an outage of the TCP backend their dialog is pinned to - whatever arrives at any backend carries exactly one Via and at most one Record-Route entry of the listener. Branch freshness over every request of the run plus a dedicated run of 12000 (thorough: 20000) relayed requests. non-trivial = >= 2 existing Via entries in >= 2 lines, or >= 1 existing Record-Route, or the not-learned / other-listener variants; distinct by message")
	V.Assume("branch freshness is a probabilistic oracle: 48 random bits, P(collision among 20000) < 1e-6")
	V.Require("a request with the top Via of the one before it gets a branch of its own", "a hop known by name only (listed in a Via; its address never seen)", "requests of a dialog whose pinned tcp backend goes down and comes back", "a learned hop still known after thousands of other hosts were learned", "an existing Via entry the proxy cannot decode, sharing its line with decodable ones", "an unrelated TCP connection ended before the request", "via pushed", "no via (hop not learned)", "via names another listener", "rr added", "rr not added (policy)", "existing rr kept", "path:backend", "path:route", "path:static", ">=2 vias in >=2 lines")
	vars := []stdVariant{
		{MustRR: [3]string{"", "true", "false"}, NoReceived: [3]string{"", "", "true"}},
		{Keep: "on", MustRR: [3]string{"true", "", ""}},
	}
	var svcs []*stdSvc
	for _, v := range vars {
		s, err := newStdSvc(v)
		if err != nil {
			V.HarnessError(t, "cannot start lab instance: %v", err)
		}
		if err := s.primeHops(); err != nil {
			V.HarnessError(t, "priming: %v", err)
		}
		svcs = append(svcs, s)
	}
	// a fault history: what is handed to a backend around an outage of the backend
	// a dialog is pinned to - requests that fall back, are retried or re-sent
	// included - carries one new Via (and Record-Route entry) all the same
	osvc, err := newStdSvc(stdVariant{Pool: 2, PoolTCP: true})
	if err != nil {
		V.HarnessError(t, "cannot start lab instance: %v", err)
	}
	rcheck(t, "backend-outage", V.N(12, 150), func(rt *rapid.T) {
		obs, ok, err := osvc.backendOutage(rt, t.Name()+"/backend-outage")
		if _, lost := err.(labLost); lost {
			failf(rt, "%v\nhistory: %s", err, obs)
		} else if err != nil {
			V.HarnessError(rt, "%v", err)
		}
		if !ok {
			return
		}
		V.Class("requests of a dialog whose pinned tcp backend goes down and comes back")
		V.NonTrivial("outage|" + obs.String())
		V.SampleEvery(10, func() any { return obs })
		l := osvc.in.cfg.Listens[0]
		if f := outageVias(obs, l.Addr, l.UDPPort); f != "" {
			failf(rt, "%s", f)
		}
	})
	rcheck(t, "insert", V.N(2500, 20000), func(rt *rapid.T) {
		s := svcs[rapid.IntRange(0, len(svcs)-1).Draw(rt, "instance")]
		if rapid.IntRange(0, 7).Draw(rt, "an unrelated TCP client comes and goes") == 0 {
			// what the proxy has learned about next hops does not depend on other
			// clients' connections ending
			l := s.in.cfg.Listens[rapid.IntRange(0, 1).Draw(rt, "churn entry")]
			if c, err := s.in.hub.dialTCP("passer-by", s.ip(60), l.Addr, l.TCPPort); err == nil {
				if rapid.Bool().Draw(rt, "half-close first") {
					if tc, ok := c.conn.(*net.TCPConn); ok {
						tc.CloseWrite()
						time.Sleep(300 * time.Microsecond)
					}
				}
				c.close()
				time.Sleep(2 * time.Millisecond)
				V.Class("an unrelated TCP connection ended before the request")
			}
		}
		rc := s.gRelayRequest(rt, relayOpts{JoinOpaque: true, Paths: []string{"backend", "route", "static"}, MaxVias: 6, MaxRRs: 4, MaxExt: 6, MaxLong: 0, MaxBody: 60, Entries: []int{0, 1, 2}})
		res, err := s.runRequestJournal(t.Name()+"/insert", rc, func(exp mOutcome) any { return rc })
		if _, lost := err.(labLost); lost {
			failf(rt, "%v", err)
		} else if err != nil {
			V.HarnessError(rt, "%v", err)
		}
		if res.Exp.Drop || len(res.Got) != 1 || s.checkDestination(rc, res) != "" {
			return // where a request goes is C03's subject
		}
		mustRR := s.model.mustRR(rc.Ingress.Entry)
		// classes
		pushedDefinite := len(res.Pushed) == 1
		V.Class("path:" + rc.Path)
		vias := rc.Msg.Vias()
		vlines := 0
		for _, h := range rc.Msg.Hdrs {
			if h.Kind == hVia {
				vlines++
			}
		}
		inRR := rc.Msg.NAList(hRR)
		if pushedDefinite {
			pt := res.Pushed[0]
			V.ClassIf(pt != nil, "via pushed")
			V.ClassIf(pt == nil, "no via (hop not learned)")
			V.ClassIf(pt != nil && pt.Entry != rc.Ingress.Entry, "via names another listener")
			V.ClassIf(pt != nil && (len(inRR) > 0 || mustRR), "rr added")
			V.ClassIf(pt != nil && len(inRR) == 0 && !mustRR, "rr not added (policy)")
		} else {
			V.Class("don't-care: hop learned only from this message or by name/address only")
		}
		V.ClassIf(len(inRR) > 0, "existing rr kept")
		V.ClassIf(len(vias) >= 2 && vlines >= 2, ">=2 vias in >=2 lines")
		V.ClassIf(len(vias) == 0, "no existing via")
		for _, h := range rc.Msg.Hdrs {
			if h.Kind == hVia {
				opaque := false
				for _, v := range h.Vias {
					opaque = opaque || v.Raw != ""
				}
				V.ClassIf(opaque, "an existing Via entry the proxy cannot decode")
				V.ClassIf(opaque && len(h.Vias) > 1, "an existing Via entry the proxy cannot decode, sharing its line with decodable ones")
			}
		}
		if (len(vias) >= 2 && vlines >= 2) || len(inRR) > 0 || (pushedDefinite && (res.Pushed[0] == nil || res.Pushed[0].Entry != rc.Ingress.Entry)) {
			V.NonTrivial(string(rc.Msg.Bytes()))
		}
		V.SampleEvery(400, func() any {
			return map[string]any{"path": rc.Path, "ingress": rc.Ingress, "hop": rc.HopKind, "msg": rc.Msg.Summary(), "out_vias": res.Out.Entries(hVia), "out_rr": res.Out.Entries(hRR)}
		})
		if f := checkRequestVias(rc.Msg, res.Out, res.Pushed, res.Stamp, res.SrcIP, res.SrcPort); f != "" {
			failf(rt, "%s path via %s (hop %s): %s", rc.Path, res.L, rc.HopKind, f)
		}
		if f := checkRecordRoute(rc.Msg, res.Out, res.Pushed, mustRR); f != "" {
			failf(rt, "%s path via %s (hop %s), must-record-route=%v: %s", rc.Path, res.L, rc.HopKind, mustRR, f)
		}
	})

	// What the proxy has learned stays learned, however many other hosts it
	// hears of afterwards: the primed hop (learned first) is still reached with
	// the proxy's Via on top after thousands of other hosts have been learned.
	// A next hop known by name only: the name was listed in a Via of an earlier
	// request; nothing ever came from the address the host table gives for it and
	// no message wrote that address. Routed to by that name it is a learned hop.
	t.Run("learned-by-name", func(t *testing.T) {
		if (V.replay && V.only != "learned-by-name") || V.ViolationCount() > 0 {
			return
		}
		for si, s := range svcs {
			for ni, name := range []string{"natted-a.test", "natted-b.test"} {
				target := s.ip(27 + ni)
				teachEntry, probeEntry := (si+ni)%2, ni%2
				ua := s.uas[2]
				probe := func(when string, wantVias int, wantL labListenCfg) bool {
					l := s.in.cfg.Listens[probeEntry]
					send := func(b []byte) error { return ua.sendUDP(l.Addr, l.UDPPort, b) }
					id := s.nextID("c06name-")
					wire := []byte(fmt.Sprintf("OPTIONS sip:x@elsewhere.example SIP/2.0\r\nVia: SIP/2.0/UDP %s:5060;branch=z9hG4bK%s\r\nRoute: <sip:%s:5070;lr>\r\nFrom: <sip:a@b>;tag=1\r\nTo: <sip:x@elsewhere.example>\r\nCall-ID: %s\r\nCSeq: 1 OPTIONS\r\nContent-Length: 0\r\n\r\n", ua.ip, id, name, id))
					s.model.learnRequest(s.model.transport(probeEntry, "udp"), ua.ip, &AMsg{IsReq: true, Hdrs: []AHdr{{Kind: hVia, Vias: []AVia{{Host: ua.ip}}}}})
					s.in.expect(wire)
					send(wire)
					rs, err := s.in.settle(send, 1)
					V.Eval()
					got := labMessages(rs)
					if err != nil || len(got) != 1 || got[0].ep == nil || got[0].ep.ip != target {
						V.Violation(t, "learned-by-name", nil, "%s: a request whose Route names %s:5070 (host table: %s) was not relayed exactly once to that element: %v\n%s", when, name, target, err, labDescribe(got))
						return false
					}
					vs := got[0].msg.Entries(hVia)
					if len(vs) != wantVias {
						V.Violation(t, "learned-by-name", map[string]any{"name": name, "when": when}, "%s, a request routed to %s:5070 through listen entry %d arrived with Via entries %q; expected %d entries (%s)", when, name, probeEntry, vs, wantVias, map[int]string{1: "the hop is not learned: relayed as it is", 2: "the hop is learned: the proxy's own on top"}[wantVias])
						return false
					}
					if wantVias == 2 {
						v, err := rVia(vs[0])
						if err != nil || !strings.EqualFold(v.Transport, "UDP") || v.Host != wantL.Addr || v.Port != wantL.UDPPort {
							V.Violation(t, "learned-by-name", map[string]any{"name": name}, "%s, the Via pushed for the hop %s is %q; the hop was learned through listen entry %d (UDP %s:%d)", when, name, vs[0], teachEntry, wantL.Addr, wantL.UDPPort)
							return false
						}
					}
					return true
				}
				if !probe("before anything mentioned "+name, 1, labListenCfg{}) {
					return
				}
				// the teaching request: unroutable, its Via stack lists the name
				tl := s.in.cfg.Listens[teachEntry]
				tsend := func(b []byte) error { return s.uas[3].sendUDP(tl.Addr, tl.UDPPort, b) }
				id := s.nextID("c06teach-")
				teach := []byte(fmt.Sprintf("OPTIONS sip:nobody@unrouted.invalid SIP/2.0\r\nVia: SIP/2.0/UDP %s:5060;branch=z9hG4bK%s\r\nVia: SIP/2.0/UDP %s:5070;branch=z9hG4bKn%s\r\nFrom: <sip:a@b>;tag=1\r\nTo: <sip:nobody@unrouted.invalid>\r\nCall-ID: %s\r\nCSeq: 1 OPTIONS\r\nContent-Length: 0\r\n\r\n", s.uas[3].ip, id, name, id, id))
				s.model.learnRequest(s.model.transport(teachEntry, "udp"), s.uas[3].ip, &AMsg{IsReq: true, Hdrs: []AHdr{{Kind: hVia, Vias: []AVia{{Host: s.uas[3].ip}, {Host: name}}}}})
				s.in.expect(teach)
				tsend(teach)
				if _, err := s.in.settle(tsend, 0); err != nil {
					V.Violation(t, "learned-by-name", nil, "%v", err)
					return
				}
				if !probe(fmt.Sprintf("after a request received on listen entry %d listed %s in a Via", teachEntry, name), 2, tl) {
					return
				}
				V.Class("a hop known by name only (listed in a Via; its address never seen)")
				V.NonTrivial(fmt.Sprintf("learned-by-name|%d|%s", si, name))
			}
		}
	})

	t.Run("learned-hosts-survive", func(t *testing.T) {
		if (V.replay && V.only != "learned-hosts-survive") || V.ViolationCount() > 0 {
			return
		}
		s := svcs[0]
		ua := s.uas[1]
		l := s.in.cfg.Listens[0]
		send := func(b []byte) error { return ua.sendUDP(l.Addr, l.UDPPort, b) }
		hosts := V.N(2600, 30000)
		if V.replay {
			hosts = 30000
		}
		probe := func(after int) bool {
			id := s.nextID("c06keep-")
			wire := []byte(fmt.Sprintf("OPTIONS sip:x@elsewhere.example SIP/2.0\r\nVia: SIP/2.0/UDP %s:5060;branch=z9hG4bK%s\r\nRoute: <sip:%s:5070;lr>\r\nFrom: <sip:a@b>;tag=1\r\nTo: <sip:x@elsewhere.example>\r\nCall-ID: %s\r\nCSeq: 1 OPTIONS\r\nContent-Length: 0\r\n\r\n", ua.ip, id, s.ip(20), id))
			s.in.expect(wire)
			send(wire)
			rs, err := s.in.settle(send, 1)
			V.Eval()
			got := labMessages(rs)
			if err != nil || len(got) != 1 {
				V.Violation(t, "learned-hosts-survive", nil, "after %d further hosts were learned, a request routed to the hop learned first was not relayed exactly once: %v\n%s", after, err, labDescribe(got))
				return false
			}
			if vs := got[0].msg.Entries(hVia); len(vs) != 2 {
				V.Violation(t, "learned-hosts-survive", map[string]any{"hosts_learned_since": after}, "the next hop %s:5070 was learned through listen entry 0 at the start (a request came from it); after %d further hosts were learned by the same service a request routed to it is relayed with Via entries %q - without the proxy's own on top: the hop has been forgotten", s.ip(20), after, vs)
				return false
			}
			return true
		}
		if !probe(0) {
			return
		}
		n := 0
		for n < hosts {
			id := s.nextID("c06fill-")
			var sb strings.Builder
			fmt.Fprintf(&sb, "OPTIONS sip:nobody@unrouted.invalid SIP/2.0\r\nVia: SIP/2.0/UDP %s:5060;branch=z9hG4bK%s\r\n", ua.ip, id)
			for k := 0; k < 12; k++ {
				n++
				fmt.Fprintf(&sb, "Via: SIP/2.0/UDP h%d-%s.fill.example:5060;branch=z9hG4bKf%d\r\n", n, id, n)
			}
			fmt.Fprintf(&sb, "From: <sip:a@b>;tag=1\r\nTo: <sip:nobody@unrouted.invalid>\r\nCall-ID: %s\r\nCSeq: 1 OPTIONS\r\nContent-Length: 0\r\n\r\n", id)
			send([]byte(sb.String()))
			// (stop and wait every ten datagrams: the listener's socket buffer must not
			// overflow - the kernel would drop the barrier with the rest)
			if n%120 == 0 && n%1200 != 0 {
				if _, err := s.in.settle(send, 0); err != nil {
					V.Violation(t, "learned-hosts-survive", nil, "%v", err)
					return
				}
			}
			if n%1200 == 0 {
				if _, err := s.in.settle(send, 0); err != nil {
					V.Violation(t, "learned-hosts-survive", nil, "%v", err)
					return
				}
				if !probe(n) {
					return
				}
			}
		}
		if _, err := s.in.settle(send, 0); err != nil {
			V.Violation(t, "learned-hosts-survive", nil, "%v", err)
			return
		}
		if probe(n) {
			V.Class("a learned hop still known after thousands of other hosts were learned")
			V.NonTrivial("learned-hosts-survive")
			V.Extra("hosts_learned_after_the_probed_hop", n)
		}
	})

	t.Run("branches", func(t *testing.T) {
		n := V.N(12000, 20000)
		if n == 0 || V.ViolationCount() > 0 {
			return
		}
		s := svcs[0]
		ua := s.uas[0]
		l := s.in.cfg.Listens[0]
		s.in.hub.drain()
		dup := ""
		prev := ""
		for i := 0; i < n && dup == ""; i++ {
			id := s.nextID("br-")
			method := "OPTIONS"
			// every seventh request arrives with the top Via (sent-by and branch) and
			// the Call-ID of the one before it - the same request sent again, or the
			// CANCEL / ACK that goes with it: it is handed on with a branch of its own
			if i%7 == 3 && prev != "" {
				id = prev
				method = []string{"OPTIONS", "CANCEL", "ACK"}[(i/7)%3]
				V.Class("a request with the top Via of the one before it gets a branch of its own")
			}
			prev = id
			msg := fmt.Sprintf("%s sip:svc.test SIP/2.0\r\nVia: SIP/2.0/UDP %s:5060;branch=z9hG4bK%s\r\nFrom: <sip:a@b>;tag=1\r\nTo: <sip:svc.test>\r\nCall-ID: %s\r\nCSeq: 1 %s\r\nContent-Length: 0\r\n\r\n", method, ua.ip, id, id, method)
			if err := ua.sendUDP(l.Addr, l.UDPPort, []byte(msg)); err != nil {
				V.HarnessError(t, "send: %v", err)
			}
			r, ok := s.in.hub.waitOne(20 * time.Second)
			V.Eval()
			if !ok || r.msg == nil {
				V.Violation(t, "", msg, "request %d of the branch run was not relayed to a backend within 20 s", i)
				return
			}
			es := r.msg.Entries(hVia)
			if len(es) != 2 {
				V.Violation(t, "", msg, "request %d of the branch run arrived with Via entries %q, want the new one above the sender's", i, es)
				return
			}
			v, err := rVia(es[0])
			br, _, _ := v.Param("branch")
			if err != nil || len(br) < 8 || br[:7] != "z9hG4bK" {
				V.Violation(t, "", msg, "new top Via %q lacks a proper z9hG4bK branch", es[0])
				return
			}
			if seenBranches[br] {
				dup = br
			}
			seenBranches[br] = true
		}
		V.Class("branch freshness run")
		V.Extra("branches_collected", len(seenBranches))
		if dup != "" {
			V.Violation(t, "", dup, "branch %q was generated twice within %d relayed requests", dup, len(seenBranches))
		}
	})
}

package main

// Core of the verification harness: statistics, evidence, verdicts, replay
// plumbing and the rapid wrapper. Shares nothing with the product.

import (
	"context"
	"encoding/base64"
	"encoding/json"
	"errors"
	"flag"
	"fmt"
	"hash/fnv"
	"net"
	"os"
	"path/filepath"
	"sort"
	"strconv"
	"strings"
	"sync"
	"testing"
	"time"

	"pgregory.net/rapid"
)

type vFail struct {
	Test    string `json:"test"`
	Message string `json:"message"`
	Case    any    `json:"case"`
	Only    string `json:"only,omitempty"`
}

type vState struct {
	mu           sync.Mutex
	prop, tier   string
	seed         int
	shard        int
	nshards      int
	out          string
	replay       bool
	only         string
	evaluations  int64
	classes      map[string]int64
	required     map[string]bool
	hashes       map[uint64]struct{}
	hashCapped   bool
	samplesHead  []any
	samplesTail  []any
	rule         string
	assumptions  []string
	exhaustive   *bool
	extra        map[string]any
	known        []string
	violations   []vFail
	inconclusive []string
	harnessErr   string
	curCase      any
	curMsg       string
	lastCase     any
	lastMsg      string
	firstCase    any // the first failing case of the running property and its message
	firstMsg     string
	knownOpen    map[string]bool
	journalF     *os.File
}

const vHashCap = 400000

var vBaseSeed uint64

var V = newVState()

func envInt(name string, def int) int {
	if s := os.Getenv(name); s != "" {
		if n, err := strconv.Atoi(s); err == nil {
			return n
		}
	}
	return def
}

func newVState() *vState {
	v := &vState{
		prop:      os.Getenv("VERIF_PROPERTY"),
		tier:      os.Getenv("VERIF_TIER"),
		seed:      envInt("VERIF_SEED", 1),
		shard:     envInt("VERIF_SHARD", 0),
		nshards:   envInt("VERIF_NSHARDS", 1),
		out:       os.Getenv("VERIF_OUT"),
		replay:    os.Getenv("VERIF_REPLAY") != "",
		only:      os.Getenv("VERIF_ONLY"),
		classes:   map[string]int64{},
		required:  map[string]bool{},
		hashes:    map[uint64]struct{}{},
		extra:     map[string]any{},
		knownOpen: map[string]bool{},
	}
	if v.tier == "" {
		v.tier = "quick"
	}
	if p := os.Getenv("VERIF_KNOWN"); p != "" {
		if b, err := os.ReadFile(p); err == nil {
			var kf struct {
				Findings []struct {
					ID     string `json:"id"`
					Status string `json:"status"`
				} `json:"findings"`
			}
			if json.Unmarshal(b, &kf) == nil {
				for _, f := range kf.Findings {
					if f.Status == "open" {
						v.knownOpen[f.ID] = true
					}
				}
			}
		}
	}
	return v
}

// Thorough reports whether the thorough tier is running.
func (v *vState) Thorough() bool { return v.tier == "thorough" }

// N picks a case count by tier; 0 in replay mode (only the saved input runs).
func (v *vState) N(quick, thorough int) int {
	if v.replay {
		return 0
	}
	if v.tier == "thorough" {
		return thorough
	}
	return quick
}

func (v *vState) Eval() {
	v.mu.Lock()
	v.evaluations++
	v.mu.Unlock()
}

func (v *vState) EvalN(n int) {
	v.mu.Lock()
	v.evaluations += int64(n)
	v.mu.Unlock()
}

func (v *vState) Class(name string) {
	v.mu.Lock()
	v.classes[name]++
	v.mu.Unlock()
}

func (v *vState) ClassIf(cond bool, name string) {
	if cond {
		v.Class(name)
	}
}

// Require declares a class that must be non-empty at the end of a full
// (non-replay) run; otherwise the run is inconclusive (a hole in the
// generator is a defect of the machinery, never a verdict).
func (v *vState) Require(names ...string) {
	v.mu.Lock()
	for _, n := range names {
		v.required[n] = true
	}
	v.mu.Unlock()
}

func hash64(s string) uint64 {
	h := fnv.New64a()
	h.Write([]byte(s))
	return h.Sum64()
}

// NonTrivial records one distinct non-trivial case by its canonical key.
func (v *vState) NonTrivial(key string) {
	h := hash64(key)
	v.mu.Lock()
	if _, ok := v.hashes[h]; !ok {
		if len(v.hashes) < vHashCap {
			v.hashes[h] = struct{}{}
		} else {
			v.hashCapped = true
		}
	}
	v.mu.Unlock()
}

// Sample keeps the first few and the most recent few cases of the run.
func (v *vState) Sample(s any) {
	v.mu.Lock()
	if len(v.samplesHead) < 3 {
		v.samplesHead = append(v.samplesHead, s)
	} else {
		v.samplesTail = append(v.samplesTail, s)
		if len(v.samplesTail) > 3 {
			v.samplesTail = v.samplesTail[1:]
		}
	}
	v.mu.Unlock()
}

// SampleEvery samples cheaply: only every n-th evaluation builds the value.
func (v *vState) SampleEvery(n int64, f func() any) {
	v.mu.Lock()
	e := v.evaluations
	few := len(v.samplesHead) < 3
	v.mu.Unlock()
	if few || e%n == 0 {
		v.Sample(f())
	}
}

func (v *vState) Rule(s string) {
	v.mu.Lock()
	if v.rule == "" {
		v.rule = s
	} else if !strings.Contains(v.rule, s) {
		v.rule += " | " + s
	}
	v.mu.Unlock()
}

func (v *vState) Assume(s string) {
	v.mu.Lock()
	for _, a := range v.assumptions {
		if a == s {
			v.mu.Unlock()
			return
		}
	}
	v.assumptions = append(v.assumptions, s)
	v.mu.Unlock()
}

func (v *vState) Exhaustive(b bool) {
	v.mu.Lock()
	if v.exhaustive == nil {
		v.exhaustive = &b
	} else {
		x := *v.exhaustive && b
		v.exhaustive = &x
	}
	v.mu.Unlock()
}

func (v *vState) Extra(k string, val any) {
	v.mu.Lock()
	v.extra[k] = val
	v.mu.Unlock()
}

func (v *vState) ExtraAdd(k string, n int64) {
	v.mu.Lock()
	if old, ok := v.extra[k].(int64); ok {
		v.extra[k] = old + n
	} else {
		v.extra[k] = n
	}
	v.mu.Unlock()
}

// KnownOpen reports whether finding id is listed as open in known_findings.json.
func (v *vState) KnownOpen(id string) bool { return v.knownOpen[id] }

// KnownConfirmed records that the witness of an open finding still fails.
func (v *vState) KnownConfirmed(what string) {
	v.mu.Lock()
	for _, k := range v.known {
		if k == what {
			v.mu.Unlock()
			return
		}
	}
	v.known = append(v.known, what)
	v.mu.Unlock()
}

func (v *vState) Inconclusive(msg string) {
	v.mu.Lock()
	v.inconclusive = append(v.inconclusive, msg)
	v.mu.Unlock()
}

// Case records the description of the case in flight (shown in the replay
// file of a failure and used as the journal entry of crash-prone engines).
func (v *vState) Case(c any) {
	v.mu.Lock()
	v.curCase = c
	v.mu.Unlock()
}

// Journal persists the case in flight so that the driver can promote it to a
// replay file if the product kills the process.
func (v *vState) Journal(test string, c any) {
	v.Case(c)
	if v.out == "" {
		return
	}
	b, err := json.Marshal(map[string]any{"test": test, "case": c})
	if err != nil {
		return
	}
	// One file, overwritten in place without truncation (truncate-then-write
	// makes ext4 flush synchronously): 10-digit length, newline, payload.
	v.mu.Lock()
	defer v.mu.Unlock()
	if v.journalF == nil {
		f, err := os.OpenFile(filepath.Join(v.out, "journal.bin"), os.O_CREATE|os.O_RDWR, 0o644)
		if err != nil {
			return
		}
		v.journalF = f
	}
	v.journalF.WriteAt([]byte(fmt.Sprintf("%010d\n", len(b))), 0)
	v.journalF.WriteAt(b, 11)
}

// OnlyMatch filters enumerated cases in replay mode.
func (v *vState) OnlyMatch(desc string) bool {
	if v.only == "" {
		return true
	}
	return v.only == desc
}

// Violation records an oracle failure found outside rapid (enumerations).
func (v *vState) Violation(t interface {
	Errorf(string, ...any)
	Name() string
}, only string, c any, format string, args ...any) {
	msg := fmt.Sprintf(format, args...)
	v.mu.Lock()
	v.violations = append(v.violations, vFail{Test: t.Name(), Message: msg, Case: c, Only: only})
	v.mu.Unlock()
	t.Errorf("VIOLATION: %s\ncase: %v", msg, c)
}

// ViolationCount returns the number of violations recorded so far.
func (v *vState) ViolationCount() int {
	v.mu.Lock()
	defer v.mu.Unlock()
	return len(v.violations)
}

// failf fails the running rapid case with a message that reaches the replay file.
func failf(rt *rapid.T, format string, args ...any) {
	msg := fmt.Sprintf(format, args...)
	V.mu.Lock()
	V.curMsg = msg
	V.mu.Unlock()
	rt.Fatalf("%s", msg)
}

// rcheck runs one rapid property as a sub-test with its own case count and
// turns a failure into a recorded violation carrying the shrunk case.
func rcheck(t *testing.T, name string, n int, prop func(*rapid.T)) {
	t.Run(name, func(t *testing.T) {
		if V.replay {
			n = 0
		}
		flag.Set("rapid.checks", strconv.Itoa(n))
		// every sub-test gets its own PRNG stream, a pure function of the run seed and its name
		if vBaseSeed == 0 {
			if f := flag.Lookup("rapid.seed"); f != nil {
				vBaseSeed, _ = strconv.ParseUint(f.Value.String(), 10, 64)
			}
			if vBaseSeed == 0 {
				vBaseSeed = 1
			}
		}
		sub := vBaseSeed*1000003 + hash64(t.Name())%1000000007
		if sub == 0 {
			sub = 1
		}
		flag.Set("rapid.seed", strconv.FormatUint(sub, 10))
		if n == 0 && !V.replay {
			return
		}
		if V.ViolationCount() >= 2 {
			t.Skip("two violations already recorded in this run")
		}
		defer func() {
			if t.Failed() && V.harnessErr == "" {
				V.mu.Lock()
				msg := V.lastMsg
				if msg == "" && V.firstMsg != "" {
					// rapid ran the failing case again and it passed: the failure depends on
					// state earlier cases of this run left behind. The first failure is the
					// finding; its message and case are reported.
					msg = V.firstMsg + " [when rapid ran this case again by itself it passed: the failure depends on what earlier cases of the run left behind in the proxy or its peers]"
					V.lastCase = V.firstCase
				}
				if msg == "" {
					msg = "the property failed without a harness message (product panic inside the case, or a failure rapid could not reproduce: see log_tail)"
				}
				V.violations = append(V.violations, vFail{Test: t.Name(), Message: msg, Case: V.lastCase})
				V.mu.Unlock()
			}
		}()
		V.mu.Lock()
		V.firstMsg, V.firstCase = "", nil
		V.mu.Unlock()
		rapid.Check(t, func(rt *rapid.T) {
			V.mu.Lock()
			V.curCase, V.curMsg = nil, ""
			V.mu.Unlock()
			defer func() {
				V.mu.Lock()
				V.lastCase, V.lastMsg = V.curCase, V.curMsg
				if V.curMsg != "" && V.firstMsg == "" {
					V.firstMsg, V.firstCase = V.curMsg, V.curCase
				}
				V.mu.Unlock()
			}()
			V.Eval()
			prop(rt)
		})
	})
}

func (v *vState) flush() {
	if v.out == "" {
		return
	}
	v.mu.Lock()
	defer v.mu.Unlock()
	required := []string{}
	if !v.replay && v.only == "" {
		for n := range v.required {
			required = append(required, n)
		}
		sort.Strings(required)
	}
	samples := append(append([]any{}, v.samplesHead...), v.samplesTail...)
	st := map[string]any{
		"evaluations":      v.evaluations,
		"classes":          v.classes,
		"samples":          samples,
		"rule":             v.rule,
		"assumptions":      v.assumptions,
		"extra":            v.extra,
		"known_findings":   v.known,
		"violations":       v.violations,
		"required_classes": required,
		"inconclusive":     v.inconclusive,
		"hash_capped":      v.hashCapped,
		"harness_error":    v.harnessErr,
	}
	if v.exhaustive != nil {
		st["exhaustive"] = *v.exhaustive
	}
	b, err := json.Marshal(st)
	if err != nil {
		b, _ = json.Marshal(map[string]any{"harness_error": "cannot encode statistics: " + err.Error(), "evaluations": v.evaluations})
	}
	os.WriteFile(filepath.Join(v.out, "stats.json"), b, 0o644)
	var sb strings.Builder
	for h := range v.hashes {
		sb.WriteString(strconv.FormatUint(h, 16))
		sb.WriteByte('\n')
	}
	os.WriteFile(filepath.Join(v.out, "hashes.txt"), []byte(sb.String()), 0o644)
}

// HarnessError marks the run as broken machinery (exit 2), never a verdict.
func (v *vState) HarnessError(t interface{ Fatalf(string, ...any) }, format string, args ...any) {
	msg := fmt.Sprintf(format, args...)
	v.mu.Lock()
	v.harnessErr = msg
	v.mu.Unlock()
	t.Fatalf("HARNESS ERROR: %s", msg)
}

func killDNS() {
	net.DefaultResolver = &net.Resolver{
		PreferGo: true,
		Dial: func(ctx context.Context, network, address string) (net.Conn, error) {
			return nil, errors.New("verif: DNS is disabled in the harness")
		},
	}
}

func TestMain(m *testing.M) {
	killDNS()
	flag.Parse()
	code := m.Run()
	V.flush()
	os.Exit(code)
}

// jsonBytes renders bytes for evidence/replay: printable ASCII kept, rest escaped.
func jsonBytes(b []byte) string {
	if len(b) > 600 {
		return fmt.Sprintf("%q...(%d bytes)", b[:600], len(b))
	}
	return fmt.Sprintf("%q", b)
}

// ---- stall-aware waiting ------------------------------------------------------
//
// Every wait whose expiry turns into a verdict uses patience instead of the wall
// clock: only time during which this process was demonstrably running counts.
// The waiter wakes every patienceTick; a wake-up that comes later than
// patienceCap after the previous one (the machine or the process stood still:
// a paused VM, a starved scheduler) counts as patienceCap. A product that is
// really wedged still exhausts the budget; a frozen sandbox does not.

const (
	patienceTick = 20 * time.Millisecond
	patienceCap  = 60 * time.Millisecond
)

type patience struct {
	left time.Duration
	last time.Time
}

func newPatience(d time.Duration) *patience { return &patience{left: d, last: time.Now()} }

// spent accounts the time since the previous call and reports whether the budget is used up.
func (p *patience) spent() bool {
	now := time.Now()
	dt := now.Sub(p.last)
	if dt > patienceCap {
		dt = patienceCap
		V.ExtraAdd("stalls_discounted", 1)
	}
	p.last = now
	p.left -= dt
	return p.left <= 0
}

// patientRecv receives from ch, giving up after d of running time.
func patientRecv[T any](ch <-chan T, d time.Duration) (T, bool) {
	v, ok, _ := patientRecvP(ch, newPatience(d), d+time.Hour)
	return v, ok
}

// patientRecvP receives from ch against a budget shared by several waits: it
// returns on a reception, after slice of running time (ok false), or when the
// budget is used up (expired true).
func patientRecvP[T any](ch <-chan T, p *patience, slice time.Duration) (v T, ok bool, expired bool) {
	p.spent()
	stop := p.left - slice
	tick := time.NewTimer(patienceTick)
	defer tick.Stop()
	for {
		select {
		case v = <-ch:
			p.spent()
			return v, true, false
		case <-tick.C:
			if p.spent() {
				return v, false, true
			}
			if p.left <= stop {
				return v, false, false
			}
			tick.Reset(patienceTick)
		}
	}
}

// patientUntil polls cond (every step, at most patienceTick) until it holds or d of running time is spent.
func patientUntil(d, step time.Duration, cond func() bool) bool {
	p := newPatience(d)
	if step > patienceTick {
		step = patienceTick
	}
	for !cond() {
		if p.spent() {
			return cond()
		}
		time.Sleep(step)
	}
	return true
}

// ---- saved inputs (regression tier) -------------------------------------------
//
// /verif/regress/<property>/*.json holds plain inputs - the witnesses of the
// defects the checks have found (now repaired) and the minimised inputs of
// seeded changes - that every run replays first, without the property library:
// no generator, no PRNG, no shrinking. Each file is one JSON object; its "kind"
// selects the executor of the owning check, the remaining fields are the input.
// Byte strings are JSON strings; a value starting with "b64:" is base64.

type regressCase struct {
	Name string
	F    map[string]any
}

func (c regressCase) S(k string) string {
	s, _ := c.F[k].(string)
	if strings.HasPrefix(s, "b64:") {
		if b, err := base64.StdEncoding.DecodeString(s[4:]); err == nil {
			return string(b)
		}
	}
	return s
}

func (c regressCase) I(k string) int {
	f, _ := c.F[k].(float64)
	return int(f)
}

func (c regressCase) Bool(k string) bool {
	b, _ := c.F[k].(bool)
	return b
}

func (c regressCase) Strings(k string) []string {
	var out []string
	if l, ok := c.F[k].([]any); ok {
		for _, x := range l {
			s, _ := x.(string)
			out = append(out, s)
		}
	}
	return out
}

func (c regressCase) Ints(k string) []int {
	var out []int
	if l, ok := c.F[k].([]any); ok {
		for _, x := range l {
			f, _ := x.(float64)
			out = append(out, int(f))
		}
	}
	return out
}

func regressLoad(prop string) ([]regressCase, error) {
	dir := os.Getenv("VERIF_DIR")
	if dir == "" {
		return nil, nil
	}
	files, _ := filepath.Glob(filepath.Join(dir, "regress", prop, "*.json"))
	sort.Strings(files)
	var out []regressCase
	for _, f := range files {
		b, err := os.ReadFile(f)
		if err != nil {
			return nil, err
		}
		var m map[string]any
		if err := json.Unmarshal(b, &m); err != nil {
			return nil, fmt.Errorf("%s: %v", f, err)
		}
		out = append(out, regressCase{Name: strings.TrimSuffix(filepath.Base(f), ".json"), F: m})
	}
	return out, nil
}

// Regress replays the saved inputs of the running property as the sub-test
// "regress". exec returns "" (held), a failure text, or "skip: ..." when the
// kind is not one it executes.
func (v *vState) Regress(t *testing.T, exec func(c regressCase) string) {
	t.Run("regress", func(t *testing.T) {
		if v.replay && !strings.HasPrefix(v.only, "regress:") {
			return
		}
		cases, err := regressLoad(v.prop)
		if err != nil {
			v.HarnessError(t, "saved inputs unreadable: %v", err)
		}
		for _, c := range cases {
			only := "regress:" + c.Name
			if v.only != "" && v.only != only {
				continue
			}
			v.Eval()
			v.Journal(t.Name(), map[string]any{"saved_input": c.Name, "fields": c.F})
			msg := exec(c)
			if strings.HasPrefix(msg, "skip:") {
				v.Class("saved inputs of a kind this check does not execute")
				v.Extra("saved_input_skipped:"+c.Name, msg)
				continue
			}
			v.Class("saved inputs replayed (regress/" + v.prop + ")")
			if msg != "" {
				v.Violation(t, only, c.F, "saved input %s (%v): %s", c.Name, c.F["finding"], msg)
			}
		}
	})
}

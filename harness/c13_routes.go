//verif:needs core,sip,lab
package main

// C13 - Route handling: consume own entry only, keep or strip the next hop as
// configured, relay all further entries unchanged and in order.
// Engine: lab. Oracle: reference model (consumed / hop / remaining list),
// remaining entries compared textually, destination observed.

import (
	"fmt"
	"strings"
	"testing"

	"pgregory.net/rapid"
)

var c13FirstKinds = []string{"listener address:port", "alias:port", "alias without port (listener on 5060)", "alias without port (listener not on 5060) - near miss",
	"listener address, other port - near miss", "listener port on a foreign host - near miss", "name resolving to another address - near miss", "foreign next hop only", "no Route",
	"alias of another listener of the service, with this listener's port - near miss"}

type c13Case struct {
	Instance string     `json:"instance"`
	First    string     `json:"first_entry"`
	Ingress  stdIngress `json:"ingress"`
	Wire     string     `json:"wire"`
	Expected string     `json:"expected"`
}

func c13Decorate(rt *rapid.T, label string, n ANameAddr, lrOptional bool) ANameAddr {
	n.Display = gDisplay(rt, label+".display", false)
	n.Params = gParamList(rt, label+".hparams", 3, hdrParamValAlpha, hdrParamReserved)
	extra := gParamList(rt, label+".uparams", 3, uriParamValAlpha, uriParamReserved)
	for _, p := range extra {
		n.URI.Params = gInsertParam(rt, label+".ppos", n.URI.Params, p)
	}
	if n.URI.User == "" && rapid.Bool().Draw(rt, label+".user") {
		n.URI.User = gFromAlphabet(rt, label+".userv", tokAlpha+"-_.!~*'&=+$/%", 1, 8)
	}
	return n
}

func TestC13(t *testing.T) {
	V.Rule("lab: Route sets of 0-6 entries over 1-6 header lines (',' / ', ' / one per line, odd-case names, any position among the other headers) whose first entry is the listener by address:port, by alias with port, by alias without port (listener on 5060), a near miss (alias without port on a listener not on 5060, listener address with another port, listener port on a foreign host, a name resolving elsewhere, the alias of another listener of the same service with this listener's port) or a plain next hop; entries with token/quoted display names, sip/sips URIs with users, ports, lr in any position, valued and valueless URI parameters, transport=udp|tcp, 0-3 header parameters; keep-next-hop-route in every accepted spelling and via the environment default; UDP and TCP ingress on three listen entries; each route set is sent up to three times (same Route lines; new Call-ID and branch, or the same branch again with the same or another Call-ID). Oracle: reference model - consumed iff port (default 5060) equals the listener's port and host equals its address or resolves to it; hop = first remaining entry; relayed list = input - consumed - (hop unless keep), textually and in order; near misses consume nothing and are themselves the hop. non-trivial = >= 3 entries in >= 2 lines with an alias or near-miss first entry, or entries with header parameters; distinct by message")
	V.Require("first:listener address with the port of the entry's other transport - near miss", "first:alias of another listener of the service, with this listener's port - near miss", "route set towards a tcp next hop that refuses connections, then accepts them", "first:alias without port (listener on 5060)", "first:alias without port (listener not on 5060) - near miss", "first:listener address, other port - near miss", "first:listener port on a foreign host - near miss", "first:name resolving to another address - near miss", "first:listener address:port", "first:alias:port", "first:alias written with capital letters, as configured", "keep:on", "keep:off", "same route set repeated", "same route set repeated with the same top Via branch", "own consumed", "entries with header parameters", ">=3 entries in >=2 lines")
	variants := []stdVariant{{Keep: ""}, {Keep: "on"}, {Keep: "Y"}, {Keep: "0"}, {Keep: "", KeepEnv: "true"}, {Keep: "false", KeepEnv: "true"}}
	var svcs []*stdSvc
	for _, v := range variants {
		s, err := newStdSvc(v)
		if err != nil {
			V.HarnessError(t, "cannot start lab instance: %v", err)
		}
		if err := s.primeHops(); err != nil {
			V.HarnessError(t, "priming: %v", err)
		}
		svcs = append(svcs, s)
	}
	// saved inputs: "keep" selects the instance (false: keep-next-hop-route off, true: on);
	// routes_out is the Route list that must come out, entry by entry
	V.Regress(t, func(c regressCase) string {
		if c.S("kind") != "relay" {
			return "skip: kind " + c.S("kind")
		}
		s := svcs[0]
		if c.Bool("keep") {
			s = svcs[1]
		}
		_, got, fail := s.regressRelay(c)
		if fail != "" || len(got) == 0 {
			return fail
		}
		g := stdIngress{Entry: c.I("entry"), TCP: c.Bool("tcp"), UA: c.I("ua")}
		var want []string
		for _, e := range c.Strings("routes_out") {
			want = append(want, s.regressExpand(e, g))
		}
		out := got[0].msg.Entries(hRoute)
		if len(out) != len(want) {
			return fmt.Sprintf("relayed Route entries %q, want %q", out, want)
		}
		for i := range want {
			if out[i] != want[i] {
				return fmt.Sprintf("Route entry %d changed or moved:\nwant: %q\n got: %q", i, want[i], out[i])
			}
		}
		if at := c.S("arrives_at"); at != "" && got[0].where() != "" && !strings.Contains(got[0].where(), s.regressExpand(at, g)) {
			return fmt.Sprintf("must be sent to %s; it arrived at %s", s.regressExpand(at, g), got[0].where())
		}
		return ""
	})

	rcheck(t, "refusing-hop", V.N(10, 120), func(rt *rapid.T) {
		s := svcs[rapid.IntRange(0, 1).Draw(rt, "instance")]
		obs, ok, err := s.hopOutage(rt, t.Name()+"/refusing-hop", false)
		if _, lost := err.(labLost); lost {
			failf(rt, "%v\nhistory: %s", err, obs)
		} else if err != nil {
			V.HarnessError(rt, "%v", err)
		}
		if !ok {
			return
		}
		V.Class("route set towards a tcp next hop that refuses connections, then accepts them")
		V.NonTrivial("refusing|" + obs.String())
		V.SampleEvery(10, func() any { return obs })
		if f := hopRoutes(obs); f != "" {
			failf(rt, "%s", f)
		}
	})
	rcheck(t, "routes", V.N(3000, 20000), func(rt *rapid.T) {
		vi := rapid.IntRange(0, len(svcs)-1).Draw(rt, "instance")
		s := svcs[vi]
		iname := fmt.Sprintf("keep=%q env=%q", variants[vi].Keep, variants[vi].KeepEnv)
		g := s.gIngress(rt, "ingress", []int{0, 1, 2})
		L := s.transportOf(g)
		kind := rapid.IntRange(0, len(c13FirstKinds)-1).Draw(rt, "first")
		alias := []string{"proxy-a.test", "proxy-b.test", "proxy-c.test"}[g.Entry]
		if kind == 1 && rapid.Bool().Draw(rt, "alias written with capitals") {
			alias = []string{"Proxy-A.Corp.test", "Proxy-B.Corp.test", "Proxy-C.Corp.test"}[g.Entry]
			V.Class("first:alias written with capital letters, as configured")
		}
		lr := []AParam{{K: "lr"}}
		var routes []ANameAddr
		first := func(u AURI) { routes = append(routes, c13Decorate(rt, "first", ANameAddr{URI: u}, true)) }
		switch kind {
		case 0:
			first(AURI{Scheme: "sip", Host: L.Addr, Port: L.Port, Params: lr})
		case 1:
			first(AURI{Scheme: "sip", Host: alias, Port: L.Port, Params: lr})
		case 2:
			if L.Port != 5060 {
				g.Entry, g.TCP = 0, false
				L = s.transportOf(g)
				alias = "proxy-a.test"
			}
			h := alias
			if rapid.Bool().Draw(rt, "byaddr") {
				h = L.Addr
			}
			first(AURI{Scheme: "sip", Host: h, Params: lr})
		case 3:
			if L.Port == 5060 {
				g.Entry, g.TCP = 1, false
				L = s.transportOf(g)
				alias = "proxy-b.test"
			}
			h := alias
			if rapid.Bool().Draw(rt, "byaddr") {
				h = L.Addr
			}
			first(AURI{Scheme: "sip", Host: h, Params: lr}) // port defaults to 5060: not this listener
		case 4:
			h := alias
			if rapid.Bool().Draw(rt, "byaddr") {
				h = L.Addr
			}
			otherPort := 5099
			if g.Entry == 1 && !g.TCP && rapid.Bool().Draw(rt, "the port is the one this listen entry uses for the other transport") {
				// (the entry listens on 5062 for UDP and 5063 for TCP: over UDP, :5063 is
				// not this listener)
				otherPort = 5063
				V.Class("first:listener address with the port of the entry's other transport - near miss")
			}
			first(AURI{Scheme: "sip", Host: h, Port: otherPort, Params: lr})
		case 5:
			first(AURI{Scheme: "sip", Host: s.ip(60), Port: L.Port, Params: lr})
		case 6:
			first(AURI{Scheme: "sip", Host: "foreign.test", Port: L.Port, Params: lr})
		case 9:
			// (what one listener is called is not what its sibling is called, whatever
			// the sibling has been asked before: the service's listeners share tables)
			if L.Port != 5060 {
				g.Entry, g.TCP = 0, false
				L = s.transportOf(g)
			}
			first(AURI{Scheme: "sip", Host: rapid.SampledFrom([]string{"proxy-b.test", "proxy-c.test"}).Draw(rt, "sibling"), Port: L.Port, Params: lr})
		}
		// the next hop (or absent: the request then falls through to the other rules)
		hasHop := kind == 7 || (kind != 8 && rapid.IntRange(0, 4).Draw(rt, "hashop") > 0)
		if hasHop {
			proto := rapid.SampledFrom([]string{"udp", "udp", "tcp"}).Draw(rt, "hopproto")
			hu, _ := s.gHop(rt, "hop", proto)
			routes = append(routes, c13Decorate(rt, "hopdeco", ANameAddr{URI: hu}, false))
		}
		if kind != 8 {
			more := rapid.IntRange(0, 4).Draw(rt, "more")
			for i := 0; i < more && len(routes) < 6; i++ {
				routes = append(routes, s.gRouteEntry(rt, fmt.Sprintf("more%d", i)))
			}
		}
		p := msgParts{IsReq: true, Version: "SIP/2.0", Method: gMethod(rt, "method")}
		p.CSeqMethod, p.CSeqN = p.Method, rapid.IntRange(1, 1<<20).Draw(rt, "cseq")
		p.CallID = s.nextID("c13-")
		p.From = gNameAddr(rt, "from", naOpts{allowBare: true, maxParams: 2})
		p.To = ANameAddr{URI: AURI{Scheme: "sip", User: gWord(rt, "touser"), Host: rapid.SampledFrom([]string{"callee.example", "static-udp.test", "nomatch.example"}).Draw(rt, "tohost")}}
		if rapid.Bool().Draw(rt, "svc") {
			p.RURI = s.gServiceRURI(rt, "ruri", L)
		} else {
			p.RURI = gSIPURI(rt, "ruri", uriOpts{})
		}
		p.Routes = routes
		p.Vias = s.gViaStack(rt, "via", g, 2)
		p.Ext = gExtHeaders(rt, "ext", 3, 0)
		p.Body = gBody(rt, "body", 40)
		msg := assemble(rt, "layout", p)
		rc := relayCase{Path: "route", Ingress: g, Msg: msg, Wire: jsonBytes(msg.Bytes()), FirstRt: c13FirstKinds[kind]}
		res, err := s.runRequestJournal(t.Name()+"/routes", rc, func(exp mOutcome) any {
			return c13Case{iname, c13FirstKinds[kind], g, rc.Wire, fmt.Sprintf("consumed=%v hop=%+v stripped=%v left=%d drop=%v(%s)", exp.ConsumedOwn, exp.Hops, exp.PoppedHop, len(exp.RouteLeft), exp.Drop, exp.Why)}
		})
		if _, lost := err.(labLost); lost {
			failf(rt, "%v", err)
		} else if err != nil {
			V.HarnessError(rt, "%v", err)
		}
		exp := res.Exp
		V.Class("first:" + c13FirstKinds[kind])
		V.ClassIf(s.in.cfg.keepOn(), "keep:on")
		V.ClassIf(!s.in.cfg.keepOn(), "keep:off")
		V.ClassIf(exp.ConsumedOwn, "own consumed")
		V.ClassIf(g.TCP, "ingress:tcp")
		lines := 0
		hp := false
		for _, h := range msg.Hdrs {
			if h.Kind == hRoute {
				lines++
				for _, n := range h.NAs {
					hp = hp || len(n.Params) > 0
				}
			}
		}
		V.ClassIf(hp, "entries with header parameters")
		V.ClassIf(len(routes) >= 3 && lines >= 2, ">=3 entries in >=2 lines")
		if (len(routes) >= 3 && lines >= 2 && kind >= 1 && kind <= 6) || hp {
			V.NonTrivial(string(msg.Bytes()))
		}
		V.SampleEvery(400, func() any {
			return c13Case{iname, c13FirstKinds[kind], g, rc.Wire, fmt.Sprintf("consumed=%v hop=%+v left=%d", exp.ConsumedOwn, exp.Hops, len(exp.RouteLeft))}
		})
		if f := s.checkDestination(rc, res); f != "" {
			failf(rt, "first Route entry is %s: %s", c13FirstKinds[kind], f)
		}
		if exp.Drop {
			return
		}
		if f := checkRoutes(exp, res.Out); f != "" {
			failf(rt, "first Route entry is %s, keep-next-hop-route %v: %s", c13FirstKinds[kind], s.in.cfg.keepOn(), f)
		}
		// in-dialog requests repeat their route set: the same Route lines again
		// (new Call-ID and branch) must be handled exactly the same way
		reps := rapid.IntRange(0, 2).Draw(rt, "repeats")
		for r := 0; r < reps; r++ {
			m2 := msg.Clone()
			// ... or the sender's Via as it was (branch included): the same request
			// sent again, or a request with another Call-ID from a sender that does
			// not renew its branch - still routed by its own Route set
			sameBranch := rapid.IntRange(0, 2).Draw(rt, "same branch again")
			V.ClassIf(sameBranch > 0, "same route set repeated with the same top Via branch")
			for i := range m2.Hdrs {
				if m2.Hdrs[i].Kind == hCallID && sameBranch != 1 {
					m2.Hdrs[i].Value = s.nextID("c13r-")
				}
				if m2.Hdrs[i].Kind == hVia && len(m2.Hdrs[i].Vias) > 0 && sameBranch > 0 {
					break
				}
				if m2.Hdrs[i].Kind == hVia && len(m2.Hdrs[i].Vias) > 0 {
					for j, p := range m2.Hdrs[i].Vias[0].Params {
						if p.K == "branch" {
							m2.Hdrs[i].Vias[0].Params[j].V = "z9hG4bK" + s.nextID("rb")
						}
					}
					break
				}
			}
			rc2 := relayCase{Path: "route", Ingress: g, Msg: m2, Wire: jsonBytes(m2.Bytes()), FirstRt: c13FirstKinds[kind]}
			res2, err := s.runRequestJournal(t.Name()+"/routes", rc2, func(exp mOutcome) any {
				return map[string]any{"instance": iname, "note": fmt.Sprintf("repetition %d of the same route set", r+1), "first_request": rc.Wire, "wire": rc2.Wire}
			})
			if _, lost := err.(labLost); lost {
				failf(rt, "%v", err)
			} else if err != nil {
				V.HarnessError(rt, "%v", err)
			}
			V.Class("same route set repeated")
			if f := s.checkDestination(rc2, res2); f != "" {
				failf(rt, "repetition %d of the same route set (first entry %s): %s", r+1, c13FirstKinds[kind], f)
			}
			if !res2.Exp.Drop {
				if f := checkRoutes(res2.Exp, res2.Out); f != "" {
					failf(rt, "repetition %d of the same route set (first entry %s, keep-next-hop-route %v): %s", r+1, c13FirstKinds[kind], s.in.cfg.keepOn(), f)
				}
			}
		}
	})
}

//verif:needs core,sip,lab
package main

// C20 - sending survives connection faults without loss or duplication.
// Engine: unit, fault enumeration. The fault space named by the property is
// enumerated completely (cached inbound connection x reconnectable path x
// send sequences x subject), scripted net.Conn doubles record every Write,
// real loopback listeners record what each accepted connection received.

import (
	"bufio"
	"bytes"
	"fmt"
	"net"
	"strings"
	"sync"
	"testing"
	"time"

	"pgregory.net/rapid"
)

// ---- recording listener -----------------------------------------------------

type c20Recv struct {
	mu  sync.Mutex
	buf bytes.Buffer
	eof bool
}

func (r *c20Recv) bytes() []byte {
	r.mu.Lock()
	defer r.mu.Unlock()
	return append([]byte(nil), r.buf.Bytes()...)
}

type c20Listener struct {
	ln    net.Listener
	addr  string
	reset bool
	mu    sync.Mutex
	conns []*c20Recv
}

func newC20Listener(ip string, port int, reset bool) (*c20Listener, error) {
	ln, err := net.Listen("tcp", fmt.Sprintf("%s:%d", ip, port))
	if err != nil {
		return nil, err
	}
	l := &c20Listener{ln: ln, addr: ln.Addr().String(), reset: reset}
	go func() {
		for {
			c, err := ln.Accept()
			if err != nil {
				return
			}
			rc := &c20Recv{}
			l.mu.Lock()
			l.conns = append(l.conns, rc)
			l.mu.Unlock()
			if reset {
				if tc, ok := c.(*net.TCPConn); ok {
					tc.SetLinger(0)
				}
				c.Close()
				continue
			}
			go func() {
				buf := make([]byte, 8192)
				for {
					n, err := c.Read(buf)
					rc.mu.Lock()
					rc.buf.Write(buf[:n])
					if err != nil {
						rc.eof = true
					}
					rc.mu.Unlock()
					if err != nil {
						c.Close()
						return
					}
				}
			}()
		}
	}()
	return l, nil
}

func (l *c20Listener) count() int { l.mu.Lock(); defer l.mu.Unlock(); return len(l.conns) }
func (l *c20Listener) since(n int) []*c20Recv {
	l.mu.Lock()
	defer l.mu.Unlock()
	return append([]*c20Recv(nil), l.conns[n:]...)
}

// ---- the scenario space -------------------------------------------------------

type c20Scenario struct {
	Subject   string `json:"subject"`   // "failover" | "tcpbackend"
	Primary   string `json:"primary"`   // absent | healthy | fail@0 | fail@1 | fail@len-1
	Secondary string `json:"secondary"` // absent | fresh | stale | refusing | reset   (tcpbackend: conn state + destination)
	Sends     int    `json:"sends"`
	Rearm     []int  `json:"rearm,omitempty"` // random part: before send i re-arm a fault (see code)
	Local     string `json:"local,omitempty"` // "" = no local address configured (what the wiring passes then), "addr" = a local address of the block is configured
}

func (s c20Scenario) String() string {
	if s.Local != "" {
		return fmt.Sprintf("%s primary=%s secondary=%s sends=%d rearm=%v local=%s", s.Subject, s.Primary, s.Secondary, s.Sends, s.Rearm, s.Local)
	}
	return fmt.Sprintf("%s primary=%s secondary=%s sends=%d rearm=%v", s.Subject, s.Primary, s.Secondary, s.Sends, s.Rearm)
}

type c20Env struct {
	accept, reset *c20Listener
	refusing      string
	localIP       string
	msgs          []*Message
	wires         [][]byte
}

func newC20Env(c int) (*c20Env, error) {
	n := labReserve()
	e := &c20Env{}
	var err error
	if e.accept, err = newC20Listener(n.ip(c, 1), 6001, false); err != nil {
		return nil, err
	}
	if e.reset, err = newC20Listener(n.ip(c, 2), 6002, true); err != nil {
		return nil, err
	}
	// a refusing destination: a port that was bound and closed again
	// (on the address of the accepting destination, another port: what is known
	// about one destination says nothing about its neighbour)
	ln, err := net.Listen("tcp", n.ip(c, 1)+":6003")
	if err != nil {
		return nil, err
	}
	e.refusing = ln.Addr().String()
	ln.Close()
	e.localIP = n.ip(c, 9)
	for i := 0; i < 12; i++ {
		body := strings.Repeat(fmt.Sprintf("payload-%d-", i), 3+i)
		text := fmt.Sprintf("MESSAGE sip:dest%d@example.test SIP/2.0\r\nVia: SIP/2.0/TCP 127.0.0.2:5060;branch=z9hG4bKc20m%d\r\nFrom: <sip:a@b>;tag=%d\r\nTo: <sip:c@d>\r\nCall-ID: c20-msg-%d\r\nCSeq: %d MESSAGE\r\nContent-Length: %d\r\n\r\n%s", i, i, i, i, i+1, len(body), body)
		m, err := ParseMessage(bufio.NewReader(strings.NewReader(text)))
		if err != nil {
			return nil, err
		}
		w, _ := m.Bytes()
		e.msgs = append(e.msgs, m)
		e.wires = append(e.wires, w)
	}
	return e, nil
}

func c20FailAfter(kind string, msgLen int) int {
	switch kind {
	case "fail@0":
		return 0
	case "fail@1":
		return 1
	case "fail@len-1":
		return msgLen - 1
	}
	return -1
}

type c20Sender interface{ Send(*Message) error }

// c20Run executes one scenario and returns "" or the oracle failure.
func c20Run(e *c20Env, sc c20Scenario) (fail string, faultHit bool) {
	var cleanup []func()
	defer func() {
		if r := recover(); r != nil {
			fail = fmt.Sprintf("panic: %v", r)
		}
		// release what the scenario opened, without TIME_WAIT (reset): thousands
		// of scenarios must not exhaust the local port range
		for _, f := range cleanup {
			func() {
				defer func() { recover() }() // (an object the product left in a broken state must not take the harness down)
				f()
			}()
		}
	}()
	hardClose := func(c net.Conn) {
		if tc, ok := c.(*net.TCPConn); ok && tc != nil {
			tc.SetLinger(0)
			tc.Close()
		}
	}
	var scripted []*c20Conn
	dest := ""
	switch sc.Secondary {
	case "fresh", "stale", "stale@1", "stale@len-1":
		dest = e.accept.addr
	case "reset", "reset-observed":
		dest = e.reset.addr
	case "refusing":
		dest = e.refusing
	}
	startA, startR := e.accept.count(), e.reset.count()
	// "reset-observed": the connection-established callback returns only after the
	// peer's reset has arrived, so every write on that connection fails for certain
	established := func(c net.Conn) {}
	if sc.Secondary == "reset-observed" {
		established = func(c net.Conn) {
			c.SetReadDeadline(time.Now().Add(5 * time.Second))
			buf := make([]byte, 16)
			for {
				if _, err := c.Read(buf); err != nil {
					break
				}
			}
			c.SetReadDeadline(time.Time{})
		}
	}
	var subject c20Sender
	var primaryConn, staleConn *c20Conn
	var fo *FailOverClientTransport
	switch sc.Subject {
	case "failover":
		var prim, sec ClientTransport
		if sc.Primary != "absent" {
			primaryConn = &c20Conn{name: "primary", failAfter: c20FailAfter(sc.Primary, len(e.wires[0]))}
			scripted = append(scripted, primaryConn)
			prim, _ = NewTCPClientTransportWithConn(primaryConn)
		}
		if sc.Secondary != "absent" {
			dh, dps, _ := net.SplitHostPort(dest)
			dp := 0
			fmt.Sscanf(dps, "%d", &dp)
			// (the proxy passes its own address as the local address of outbound connections)
			localAddress := ""
			if sc.Local == "addr" {
				localAddress = e.localIP
			}
			st, _ := NewTCPClientTransport(dh, dp, localAddress, established)
			if strings.HasPrefix(sc.Secondary, "stale") {
				// (the stale connection takes none, one or all but one byte of the message before it fails)
				staleConn = &c20Conn{name: "stale", failAfter: max(0, c20FailAfter("fail"+strings.TrimPrefix(sc.Secondary, "stale"), len(e.wires[0])))}
				scripted = append(scripted, staleConn)
				st.conn = staleConn
			}
			sec = st
			cleanup = append(cleanup, func() {
				if st.conn != nil {
					hardClose(st.conn)
				}
			})
		}
		fo = NewFailOverClientTransport(prim, sec)
		subject = fo
	default: // tcpbackend: Primary describes the cached connection, Secondary the destination
		if dest == "" {
			dest = e.refusing
		}
		// what NewProxyItem passes: JoinHostPort(backend-local-address, backend-local-port), ":0" when neither is configured
		localhostport := ":0"
		if sc.Local == "addr" {
			localhostport = e.localIP + ":0"
		}
		tb, _ := NewTCPBackend(localhostport, dest, established)
		switch sc.Primary {
		case "healthy":
			primaryConn = &c20Conn{name: "cached", failAfter: -1}
			scripted = append(scripted, primaryConn)
			tb.conn = primaryConn
		case "fail@0", "fail@1", "fail@len-1":
			staleConn = &c20Conn{name: "cached-stale", failAfter: c20FailAfter(sc.Primary, len(e.wires[0]))}
			scripted = append(scripted, staleConn)
			tb.conn = staleConn
		}
		subject = tb
		cleanup = append(cleanup, func() {
			if tb.conn != nil {
				hardClose(tb.conn)
			}
		})
	}
	primaryAlive := sc.Primary == "healthy"
	// a working path exists iff a healthy cached connection, or a destination that accepts
	working := func() bool {
		if primaryAlive {
			return true
		}
		return sc.Secondary == "fresh" || strings.HasPrefix(sc.Secondary, "stale")
	}
	delivered := map[int]int{} // message index -> complete copies seen
	for i := 0; i < sc.Sends; i++ {
		mi := i % len(e.msgs)
		if i < len(sc.Rearm) {
			switch sc.Rearm[i] {
			case 1: // the cached primary breaks now
				if primaryConn != nil && !primaryConn.failed {
					primaryConn.mu.Lock()
					primaryConn.failAfter = 0
					primaryConn.mu.Unlock()
				}
			case 2: // the peer drops the reconnectable path's connection
				if st, ok := fo2sec(fo); ok && st.conn != nil {
					st.conn.Close()
					faultHit = true
				}
			}
		}
		var primWritesBefore int
		if primaryConn != nil {
			primaryConn.mu.Lock()
			primWritesBefore = len(primaryConn.writes)
			if primaryConn.failAfter >= 0 && !primaryConn.failed {
				faultHit = true
			}
			primaryConn.mu.Unlock()
		}
		primFailedBefore := primaryConn != nil && primaryConn.failed
		done := make(chan error, 1)
		go func() {
			defer func() {
				if r := recover(); r != nil {
					done <- fmt.Errorf("panic: %v", r)
				}
			}()
			done <- subject.Send(e.msgs[mi])
		}()
		err, returned := patientRecv(done, 15*time.Second)
		if !returned {
			return fmt.Sprintf("send %d of [%s] did not return within 15 s (hang)", i+1, sc), faultHit
		}
		if err != nil && strings.HasPrefix(err.Error(), "panic:") {
			return fmt.Sprintf("send %d of [%s]: %v", i+1, sc, err), faultHit
		}
		if primaryConn != nil && primaryConn.failed {
			primaryAlive = false
		}
		if staleConn != nil && staleConn.failed {
			faultHit = true
		}
		if sc.Secondary == "refusing" || sc.Secondary == "reset" || sc.Secondary == "reset-observed" {
			faultHit = faultHit || !primaryAlive
		}
		// (4) a failed cached connection is never written to again
		if primFailedBefore {
			primaryConn.mu.Lock()
			w := len(primaryConn.writes)
			primaryConn.mu.Unlock()
			if w != primWritesBefore {
				return fmt.Sprintf("send %d of [%s] wrote again to the cached connection that had already failed", i+1, sc), faultHit
			}
		}
		// where did a complete copy of this message go?
		copies := 0
		where := ""
		wire := e.wires[mi]
		for _, sc2 := range scripted {
			sc2.mu.Lock()
			for _, w := range sc2.writes {
				if bytes.Equal(w, wire) {
					copies++
					where += sc2.name + " "
				}
			}
			sc2.mu.Unlock()
		}
		if err == nil && sc.Secondary == "reset-observed" && !primaryAlive {
			return fmt.Sprintf("send %d of [%s] reported success although every connection to the destination had been reset before the write (no write can have succeeded)", i+1, sc), faultHit
		}
		if err == nil {
			// wait for the real connections to have read what was written
			budget := newPatience(5 * time.Second)
			for {
				real := 0
				for _, rc := range append(e.accept.since(startA), e.reset.since(startR)...) {
					real += bytes.Count(rc.bytes(), wire)
				}
				if copies+real >= 1+delivered[mi] || budget.spent() || (sc.Secondary == "reset" && !primaryAlive) {
					copies += real
					break
				}
				time.Sleep(50 * time.Microsecond)
			}
			if copies-delivered[mi] < 1 && !(sc.Secondary == "reset" && !primaryAlive) {
				return fmt.Sprintf("send %d of [%s] reported success but no connection received the complete message", i+1, sc), faultHit
			}
		} else {
			if strings.Contains(err.Error(), "address already in use") || strings.Contains(err.Error(), "cannot assign requested address") || strings.Contains(err.Error(), "too many open files") {
				// the machine ran out of local ports / descriptors: not the property's subject
				V.ExtraAdd("scenarios_skipped_no_local_port", 1)
				return "", faultHit
			}
			if working() {
				return fmt.Sprintf("send %d of [%s] failed with %q although a working path exists (healthy cached connection: %v, destination accepts: %v)", i+1, sc, err, primaryAlive, sc.Secondary == "fresh" || strings.HasPrefix(sc.Secondary, "stale")), faultHit
			}
		}
		delivered[mi] = copies
		_ = where
	}
	// end of scenario: every real connection holds a concatenation of complete
	// messages (never a resumed tail), every message at most once overall
	time.Sleep(500 * time.Microsecond)
	total := map[int]int{}
	for _, sc2 := range scripted {
		for _, w := range sc2.writes {
			for mi, wire := range e.wires {
				if bytes.Equal(w, wire) {
					total[mi]++
				}
			}
		}
	}
	for _, rc := range e.accept.since(startA) {
		b := rc.bytes()
		rest := b
		for len(rest) > 0 {
			matched := false
			for mi, wire := range e.wires {
				if bytes.HasPrefix(rest, wire) {
					total[mi]++
					rest = rest[len(wire):]
					matched = true
					break
				}
			}
			if !matched {
				return fmt.Sprintf("[%s]: a connection to the destination received bytes that are not a sequence of complete messages (a resumed tail or a fragment): %s", sc, jsonBytes(b)), faultHit
			}
		}
	}
	for mi, n := range total {
		if n > 1 {
			return fmt.Sprintf("[%s]: message %d was written completely %d times (duplication)", sc, mi, n), faultHit
		}
	}
	return "", faultHit
}

func fo2sec(fo *FailOverClientTransport) (*TCPClientTransport, bool) {
	if fo == nil || fo.secondary == nil {
		return nil, false
	}
	st, ok := fo.secondary.(*TCPClientTransport)
	return st, ok
}

func TestC20(t *testing.T) {
	V.Rule("unit, fault enumeration: cached inbound connection {absent, healthy, failing on write after 0 / 1 / len-1 bytes} x reconnectable path {absent, fresh, stale connection failing once - after 0, 1 or all but one byte of the message - then destination accepts, destination refusing, destination accepting then resetting, the same with the reset observed before the write (connection-established callback waits for it: every write then fails for certain)} x send sequences of 1-3 distinct messages x subject {FailOverClientTransport over TCPClientTransports, TCPBackend (cached connection x destination)} x {no local address configured, a local address configured for outbound connections} enumerated completely; plus rapid-generated sequences of up to 12 sends with faults re-armed between sends (cached connection breaks later; peer drops the reconnectable connection). Plus rotations of 1-3 TCP backends (as the proxy holds them) whose destinations accept or refuse, cached connections absent or stale: a dispatch that reports success has written its message completely, once, to one accepting destination; with every destination refusing every dispatch reports an error. Plus histories on the table of client transports itself (per-transaction entries towards one accepting destination sharing its reconnectable path, cached connections absent / healthy / failing, final responses removing their entry before the send, the once-a-minute sweep forced): every send succeeds and writes its message exactly once. Scripted net.Conn doubles record every Write; real loopback listeners record every accepted connection's bytes. Oracle: success => some connection received the complete message (not asserted for a resetting destination); a working path (healthy cached connection or accepting destination) => the send must succeed; all writes failed for certain (reset observed) => the send must not report success; refusing destination => error within the call, no hang, no panic; a failed cached connection is never written again; every real connection holds a concatenation of complete messages; no message is written completely twice. non-trivial = scenario in which a write or dial fails and a later attempt exists; distinct by scenario")
	V.Require("lab: responses for transactions whose connection was lost", "rotation of tcp backends, all refusing", "stale connection fails after taking part of the message", "table: send through a per-transaction entry", "a local address is configured for outbound connections", "fault hit", "subject:failover", "subject:tcpbackend", "secondary:refusing", "secondary:reset", "secondary:stale", "primary:fail@len-1")
	env, err := newC20Env(210)
	if err != nil {
		V.HarnessError(t, "environment: %v", err)
	}
	t.Run("enumeration", func(t *testing.T) {
		if V.replay && V.only == "" {
			return
		}
		n := 0
		complete := true
	outer:
		for _, subject := range []string{"failover", "tcpbackend"} {
			prims := []string{"absent", "healthy", "fail@0", "fail@1", "fail@len-1"}
			secs := []string{"absent", "fresh", "stale", "stale@1", "stale@len-1", "refusing", "reset", "reset-observed"}
			if subject == "tcpbackend" {
				secs = []string{"fresh", "refusing", "reset", "reset-observed"} // the destination
			}
			for _, p := range prims {
				for _, s := range secs {
					for sl := 0; sl < 6; sl++ {
						sends := 1 + sl%3
						sc := c20Scenario{Subject: subject, Primary: p, Secondary: s, Sends: sends, Local: []string{"", "addr"}[sl/3]}
						if !V.OnlyMatch(sc.String()) {
							continue
						}
						n++
						V.Eval()
						fail, hit := c20Run(env, sc)
						V.Class("subject:" + subject)
						V.Class("primary:" + p)
						V.Class("secondary:" + s)
						V.ClassIf(strings.HasPrefix(s, "stale@"), "stale connection fails after taking part of the message")
						V.ClassIf(sc.Local == "addr", "a local address is configured for outbound connections")
						if hit {
							V.Class("fault hit")
							V.NonTrivial(sc.String())
						}
						if n%9 == 1 {
							V.Sample(sc)
						}
						if fail != "" {
							V.Violation(t, sc.String(), sc, "%s", fail)
							complete = false
							break outer
						}
					}
				}
			}
		}
		V.Exhaustive(complete && V.only == "")
		V.Extra("exhaustive_subspace", fmt.Sprintf("%d scenarios: {failover: 5 cached-connection states x 8 reconnectable-path states, tcpbackend: 5 cached-connection states x 4 destinations} x 1-3 sends x local address unset/set", n))
	})

	rcheck(t, "random", V.N(1500, 6000), func(rt *rapid.T) {
		sc := c20Scenario{Subject: rapid.SampledFrom([]string{"failover", "failover", "tcpbackend"}).Draw(rt, "subject")}
		sc.Primary = rapid.SampledFrom([]string{"absent", "healthy", "healthy", "fail@0", "fail@1", "fail@len-1"}).Draw(rt, "primary")
		if sc.Subject == "failover" {
			sc.Secondary = rapid.SampledFrom([]string{"absent", "fresh", "fresh", "stale", "stale@1", "stale@len-1", "refusing", "reset", "reset-observed"}).Draw(rt, "secondary")
		} else {
			sc.Secondary = rapid.SampledFrom([]string{"fresh", "fresh", "refusing", "reset", "reset-observed"}).Draw(rt, "destination")
		}
		sc.Sends = rapid.IntRange(1, 12).Draw(rt, "sends")
		sc.Local = rapid.SampledFrom([]string{"", "addr"}).Draw(rt, "local address")
		for i := 0; i < sc.Sends; i++ {
			r := rapid.IntRange(0, 5).Draw(rt, "rearm")
			if r > 2 {
				r = 0
			}
			sc.Rearm = append(sc.Rearm, r)
		}
		V.Case(sc)
		fail, hit := c20Run(env, sc)
		V.Class("subject:" + sc.Subject)
		if hit {
			V.Class("fault hit")
			V.NonTrivial(sc.String())
		}
		V.SampleEvery(50, func() any { return sc })
		if fail != "" {
			failf(rt, "%s", fail)
		}
	})
	// The rotation in front of TCP backends: what a dispatch reports is what
	// happened on the wire.
	rcheck(t, "rotation", V.N(300, 3000), func(rt *rapid.T) {
		k := rapid.IntRange(1, 3).Draw(rt, "backends")
		rb := NewRoundRobinBackend()
		accepting := 0
		var desc []string
		var tbs []*TCPBackend
		var stales []*c20Conn
		defer func() {
			for _, tb := range tbs {
				if tb.conn != nil {
					if tc, ok := tb.conn.(*net.TCPConn); ok {
						tc.SetLinger(0)
					}
					tb.conn.Close()
				}
			}
		}()
		startA := env.accept.count()
		for i := 0; i < k; i++ {
			dest, kind := env.refusing, "refusing"
			if rapid.IntRange(0, 2).Draw(rt, "destination accepts") == 0 {
				if accepting == 0 {
					dest, kind = env.accept.addr, "accepting"
					accepting++
				}
			}
			// (the rotation keys its members by address: a second refusing member gets a port of its own)
			if kind == "refusing" && i > 0 {
				h, _, _ := net.SplitHostPort(env.refusing)
				dest = fmt.Sprintf("%s:%d", h, 6003+i)
			}
			tb, _ := NewTCPBackend(":0", dest, func(net.Conn) {})
			if rapid.IntRange(0, 2).Draw(rt, "cached connection is stale") == 0 {
				sc := &c20Conn{name: "cached-stale", failAfter: rapid.SampledFrom([]int{0, 1, 40}).Draw(rt, "stale connection takes bytes")}
				tb.conn = sc
				stales = append(stales, sc)
				kind += "+stale cached connection"
			}
			tbs = append(tbs, tb)
			rb.AddBackend(tb)
			desc = append(desc, kind)
		}
		sends := rapid.IntRange(1, 5).Draw(rt, "dispatches")
		plan := fmt.Sprintf("rotation of %v, %d dispatches", desc, sends)
		V.Case(plan)
		V.ClassIf(accepting == 0, "rotation of tcp backends, all refusing")
		V.NonTrivial(plan)
		V.SampleEvery(40, func() any { return plan })
		okCount := 0
		for i := 0; i < sends; i++ {
			done := make(chan error, 1)
			go func() {
				defer func() {
					if r := recover(); r != nil {
						done <- fmt.Errorf("panic: %v", r)
					}
				}()
				done <- rb.Send(env.msgs[i%len(env.msgs)])
			}()
			err, returned := patientRecv(done, 15*time.Second)
			if !returned {
				failf(rt, "dispatch %d through a %s did not return within 15 s", i+1, plan)
			}
			if err != nil && strings.HasPrefix(err.Error(), "panic:") {
				failf(rt, "dispatch %d through a %s: %v", i+1, plan, err)
			}
			if err == nil {
				okCount++
				if accepting == 0 {
					failf(rt, "dispatch %d through a %s reported success: every destination refuses connections, nothing can have been written", i+1, plan)
				}
			}
		}
		// every reported success is one complete message at the accepting destination
		if accepting > 0 {
			deadline := newPatience(5 * time.Second)
			for {
				var all []byte
				for _, rc := range env.accept.since(startA) {
					all = append(all, rc.bytes()...)
				}
				got := bytes.Count(all, []byte("MESSAGE sip:dest"))
				complete := 0
				for i := 0; i < sends; i++ {
					c := bytes.Count(all, env.wires[i%len(env.msgs)])
					if c > 1 {
						failf(rt, "%s: the message of dispatch %d was written %d times to the accepting destination", plan, i+1, c)
					}
					complete += c
				}
				// (distinct messages: sends <= 5 < len(msgs))
				if complete >= okCount && got == complete {
					break
				}
				if deadline.spent() {
					failf(rt, "%s: %d dispatches reported success, the accepting destination holds %d complete messages (%d message starts)", plan, okCount, complete, got)
				}
				time.Sleep(20 * time.Millisecond)
			}
		}
	})
	// The same promise on a running proxy: a request arrives over TCP from a client
	// that announces (sent-by, no rport) an address where it listens; the client's
	// connection is reset while the transaction is pending; the backend's
	// provisional and final responses can no longer be written to the cached
	// connection - each is delivered, once, over a new connection to the announced
	// address, and so are the responses of later transactions.
	lsvc, err := newStdSvc(stdVariant{})
	if err != nil {
		V.HarnessError(t, "cannot start lab instance: %v", err)
	}
	rcheck(t, "lab-lost-connection", V.N(15, 150), func(rt *rapid.T) {
		s := lsvc
		entry := rapid.IntRange(0, 1).Draw(rt, "listen entry")
		l := s.in.cfg.Listens[entry]
		uaN := rapid.IntRange(0, 3).Draw(rt, "ua")
		uaIP := s.uas[uaN].ip
		port := rapid.SampledFrom([]int{5060, 6010}).Draw(rt, "announced port")
		c, err := s.in.hub.dialTCP("c20-lost", uaIP, l.Addr, l.TCPPort)
		if err != nil {
			failf(rt, "TCP listener does not accept: %v", err)
		}
		defer c.close()
		k := rapid.IntRange(1, 3).Draw(rt, "transactions pending when the connection is lost")
		var at []labRx
		var hist []string
		for i := 0; i < k; i++ {
			id := s.nextID("c20l-")
			m := rapid.SampledFrom([]string{"INVITE", "OPTIONS", "MESSAGE"}).Draw(rt, "method")
			wire := []byte(fmt.Sprintf("%s sip:svc.test SIP/2.0\r\nVia: SIP/2.0/TCP %s:%d;branch=z9hG4bK%s\r\nFrom: <sip:a@a.example>;tag=f\r\nTo: <sip:svc@nomatch.example>\r\nCall-ID: %s\r\nCSeq: 1 %s\r\nContent-Length: 0\r\n\r\n", m, uaIP, port, id, id, m))
			s.model.learnRequest(s.model.transport(entry, "tcp"), uaIP, &AMsg{IsReq: true, Hdrs: []AHdr{{Kind: hVia, Vias: []AVia{{Host: uaIP}}}}})
			s.in.expect(wire)
			if err := c.send(wire); err != nil {
				V.HarnessError(rt, "send: %v", err)
			}
			rs, err := s.in.settle(c.sendStrict, 1)
			if _, lost := err.(labLost); lost {
				failf(rt, "%v", err)
			} else if err != nil {
				V.HarnessError(rt, "%v", err)
			}
			got := labMessages(rs)
			if len(got) != 1 || got[0].tcp != nil || !s.isBackendOf(got[0].ep, entry, false) {
				if len(got) == 1 && got[0].tcp != nil {
					continue // the TCP backend's turn: answered over its connection below all the same
				}
				return // where requests go is C03's and C05's subject
			}
			at = append(at, got[0])
			hist = append(hist, m+" "+id)
		}
		if len(at) == 0 {
			return
		}
		c.close()
		time.Sleep(time.Duration(rapid.IntRange(5, 40).Draw(rt, "ms after the reset")) * time.Millisecond)
		V.Journal(t.Name()+"/lab-lost-connection", map[string]any{"pending": hist, "announced": fmt.Sprintf("%s:%d", uaIP, port)})
		V.Class("lab: responses for transactions whose connection was lost")
		V.NonTrivial(fmt.Sprintf("lost|%d|%v", port, hist))
		for i, r := range at {
			codes := []int{200}
			if rapid.Bool().Draw(rt, "a provisional response first") {
				codes = []int{rapid.SampledFrom([]int{100, 180, 183}).Draw(rt, "provisional"), 200}
			}
			for _, code := range codes {
				resp := buildResponse(r.msg, code, "Answer", "t", "")
				ep := r.ep
				bsend := func(b []byte) error { return ep.sendUDP(l.Addr, l.UDPPort, b) }
				s.in.expect(resp)
				if err := bsend(resp); err != nil {
					V.HarnessError(rt, "backend send: %v", err)
				}
				rs, err := s.in.settle(bsend, 1)
				if _, lost := err.(labLost); lost {
					failf(rt, "%v", err)
				} else if err != nil {
					V.HarnessError(rt, "%v", err)
				}
				got := labMessages(rs)
				V.Eval()
				if len(got) != 1 || got[0].tcp == nil || got[0].ep == nil || got[0].ep.ip != uaIP || got[0].ep.port != port {
					failf(rt, "the %d to %s (transaction %d of %d pending when the client's connection was reset): the connection the request came over is gone, the client announced %s:%d (no rport) and listens there - the response must be delivered there exactly once over a new connection; receptions:\n%s", code, hist[i], i+1, len(at), uaIP, port, labDescribe(got))
				}
			}
		}
	})
	// The same promises at the level where the proxy keeps its transports: the
	// table of client transports. Transactions towards one TCP destination get
	// per-transaction entries (GetTransport with a transaction id) that share the
	// reconnectable path of the destination; each may have the connection its
	// request arrived on as cached connection; final responses remove their entry
	// before they are sent (as sendMessage does), and once a minute the table is
	// swept. Whatever was removed or swept before: a send whose cached connection
	// is absent or fails falls back to a fresh connection to the destination -
	// which accepts - and succeeds, the message written there exactly once.
	rcheck(t, "table-histories", V.N(400, 4000), func(rt *rapid.T) {
		mgr := NewClientTransportMgr(func(net.Conn) {})
		dh, dps, _ := net.SplitHostPort(env.accept.addr)
		dp := 0
		fmt.Sscanf(dps, "%d", &dp)
		local := ""
		if rapid.Bool().Draw(rt, "local address") {
			local = env.localIP
		}
		startA := env.accept.count()
		defer func() {
			// release the connections the table dialled (reset: no TIME_WAIT pile-up)
			mgr.Lock()
			for _, tr := range mgr.transports {
				if st, ok := tr.secondary.(*TCPClientTransport); ok && st != nil && st.conn != nil {
					if tc, ok := st.conn.(*net.TCPConn); ok && tc != nil {
						tc.SetLinger(0)
					}
					st.conn.Close()
				}
			}
			mgr.Unlock()
		}()
		type txn struct {
			id      string
			cached  *c20Conn
			removed bool
		}
		var txns []*txn
		var hist []string
		sent := 0
		steps := rapid.IntRange(2, 14).Draw(rt, "steps")
		for i := 0; i < steps; i++ {
			switch op := rapid.IntRange(0, 5).Draw(rt, "op"); {
			case op == 0 || len(txns) == 0: // a request arrives (over a connection of its own, or over UDP: no cached connection)
				tx := &txn{id: fmt.Sprintf("INVITE-z9hG4bKt%d", len(txns))}
				tr, err := mgr.GetTransport("tcp", dh, dp, local, tx.id)
				if err != nil {
					failf(rt, "history %v: GetTransport failed: %v", hist, err)
				}
				switch rapid.IntRange(0, 2).Draw(rt, "cached connection") {
				case 1:
					tx.cached = &c20Conn{name: tx.id, failAfter: -1}
				case 2:
					tx.cached = &c20Conn{name: tx.id, failAfter: rapid.SampledFrom([]int{0, 1, 40}).Draw(rt, "fails after")}
				}
				if tx.cached != nil {
					tr.primary, _ = NewTCPClientTransportWithConn(tx.cached)
				}
				txns = append(txns, tx)
				hist = append(hist, fmt.Sprintf("request %s (cached connection: %v)", tx.id, map[bool]string{true: "none"}[tx.cached == nil]+map[bool]string{true: "healthy or failing"}[tx.cached != nil]))
			case op == 1: // a minute passes
				mgr.Lock()
				mgr.lastCleanTime -= 61
				mgr.Unlock()
				hist = append(hist, "a minute passes")
			default: // a response is relayed: provisional, or final (entry removed first)
				tx := txns[rapid.IntRange(0, len(txns)-1).Draw(rt, "which")]
				final := rapid.Bool().Draw(rt, "final")
				tr, err := mgr.GetTransport("tcp", dh, dp, local, tx.id)
				if err != nil {
					failf(rt, "history %v: GetTransport failed: %v", hist, err)
				}
				if final {
					mgr.RemoveTransport("tcp", dh, dp, tx.id)
					tx.removed = true
				}
				mi := sent % len(env.msgs)
				sent++
				hist = append(hist, fmt.Sprintf("response for %s (final: %v)", tx.id, final))
				V.Case(hist)
				done := make(chan error, 1)
				go func() {
					defer func() {
						if r := recover(); r != nil {
							done <- fmt.Errorf("panic: %v", r)
						}
					}()
					done <- tr.Send(env.msgs[mi])
				}()
				err, returned := patientRecv(done, 15*time.Second)
				if !returned {
					failf(rt, "history %v: the send did not return within 15 s", hist)
				}
				if err != nil && (strings.Contains(err.Error(), "address already in use") || strings.Contains(err.Error(), "cannot assign requested address") || strings.Contains(err.Error(), "too many open files")) {
					V.ExtraAdd("scenarios_skipped_no_local_port", 1)
					return
				}
				if err != nil {
					failf(rt, "history %v: the send failed with %q although the destination %s accepts connections (a cached connection that is absent or fails must be replaced by a fresh connection)", hist, err, env.accept.addr)
				}
				V.Class("table: send through a per-transaction entry")
				V.ClassIf(tx.removed && !final, "table: send after the entry was removed")
			}
		}
		// every message written completely exactly once: on a scripted cached connection or on a connection the destination accepted
		time.Sleep(300 * time.Microsecond)
		for k := 0; k < sent && k < len(env.msgs); k++ {
			wire := env.wires[k%len(env.msgs)]
			want := 0
			for j := k; j < sent; j += len(env.msgs) {
				want++
			}
			copies := 0
			budget := newPatience(5 * time.Second)
			for {
				copies = 0
				for _, tx := range txns {
					if tx.cached != nil {
						tx.cached.mu.Lock()
						for _, w := range tx.cached.writes {
							if bytes.Equal(w, wire) {
								copies++
							}
						}
						tx.cached.mu.Unlock()
					}
				}
				for _, rc := range env.accept.since(startA) {
					copies += bytes.Count(rc.bytes(), wire)
				}
				if copies >= want || budget.spent() {
					break
				}
				time.Sleep(100 * time.Microsecond)
			}
			if copies != want {
				failf(rt, "history %v: message %d was sent %d time(s), every send reported success, but %d complete copies were written (on the cached connections and the connections the destination accepted)", hist, k, want, copies)
			}
		}
		V.NonTrivial(strings.Join(hist, "|"))
		V.SampleEvery(60, func() any { return hist })
	})
}

//verif:needs core,sip,lab
package main

// C19 - the backend rotation follows name resolution, with bounded failure
// tolerance. Engine: unit with real loopback sockets. The resolver is driven
// at addressResolved (the function its polling loop calls) on a literal
// DynamicHostResolver without polling goroutine; the real
// CreateRoundRobinBackend callback, the real rotation and a real Proxy
// (backend index fed by change events) are wired as main does.

import (
	"bufio"
	"bytes"
	"errors"
	"fmt"
	"net"
	"runtime"
	"sort"
	"strings"
	"sync/atomic"
	"testing"
	"time"

	"pgregory.net/rapid"
)

// c19Barrier is a ServerTransport double; the proxy loop calls GetAddress()
// on the transport a message came from, which makes it a hook that runs in the
// loop goroutine itself: fn may read the loop-owned tables without racing.
type c19Barrier struct {
	ch chan struct{}
	fn func()
}

func (b *c19Barrier) Start(MessageHandler) error       { return nil }
func (b *c19Barrier) Send(string, int, *Message) error { return nil }
func (b *c19Barrier) GetProtocol() string              { return "UDP" }
func (b *c19Barrier) GetAddress() string {
	if b.fn != nil {
		b.fn()
		b.fn = nil
	}
	select {
	case b.ch <- struct{}{}:
	default:
	}
	return "127.0.0.3"
}
func (b *c19Barrier) GetPort() int { return 5999 }
func (b *c19Barrier) IsExit() bool { return false }

type c19Rig struct {
	proto    string
	names    []string
	pools    [][]string // per name: candidate IPs
	port     int
	ports    []int // per host name: the two names of a rig use different ports
	res      *DynamicHostResolver
	rb       *RoundRobinBackend
	proxy    *Proxy
	bar      *c19Barrier
	hub      *labHub
	eps      map[string]*labEP // by ip
	model    []c19Host         // per name
	dialogN  int
	retained map[string]Backend
	notified int64 // notifications that ran to their end (counted by the sentinel callback)
	sameName bool  // both registrations are for one host name (on two ports)
}

type c19Host struct {
	addrs  []string
	failed int
}

func newC19Rig(proto string, nNames int, c int) (*c19Rig, error) {
	n := labReserve()
	r := &c19Rig{proto: proto, port: 5080, ports: []int{5080, 5081}, hub: newLabHub(), eps: map[string]*labEP{}, bar: &c19Barrier{ch: make(chan struct{}, 1)}, retained: map[string]Backend{}}
	if nNames == 3 {
		// one host name configured twice, on two ports (a backend that serves two
		// ports): one entry of the resolver, two registrations of the rotation
		nNames = 2
		r.sameName = true
		n0 := fmt.Sprintf("pool-twice-%s-%d.verif.invalid", proto, c)
		r.names = []string{n0, n0}
		r.pools = [][]string{{n.ip(c, 1), n.ip(c, 2), n.ip(c, 3)}, {n.ip(c, 1), n.ip(c, 2), n.ip(c, 3)}}
	} else if nNames == 1 {
		r.names = []string{fmt.Sprintf("pool-%s-%d.verif.invalid", proto, c)}
		r.pools = [][]string{{n.ip(c, 1), n.ip(c, 2), n.ip(c, 3), n.ip(c, 4), n.ip(c, 5)}}
	} else {
		r.names = []string{fmt.Sprintf("pool-a-%s-%d.verif.invalid", proto, c), fmt.Sprintf("pool-b-%s-%d.verif.invalid", proto, c)}
		r.pools = [][]string{{n.ip(c, 1), n.ip(c, 2), n.ip(c, 3)}, {n.ip(c, 4), n.ip(c, 5)}}
	}
	for pi, pool := range r.pools {
		for _, ip := range pool {
			var ep *labEP
			var err error
			if proto == "udp" {
				ep, err = r.hub.udpEP("backend", ip, r.ports[pi])
			} else {
				ep, err = r.hub.tcpEP("backend", ip, r.ports[pi])
			}
			if err != nil {
				return nil, err
			}
			r.eps[ip] = ep
		}
	}
	// the resolver: entries exist already (never resolved), no polling goroutine
	if dynamicHostResolver != nil {
		dynamicHostResolver.Stop()
	}
	// the product's constructor, stopped at once: its polling goroutine sees no
	// host name in its first round and then sleeps for the (one hour) interval
	r.res = NewDynamicHostResolver(3600)
	r.res.Stop()
	var urls []string
	for ni, name := range r.names {
		r.res.Lock()
		r.res.hostIPs[name] = NewAddressWithCallback()
		if r.sameName {
			// the name is known already, with one address, when the rotation registers
			// for it (another service of the configuration asked for it before)
			r.res.hostIPs[name].addrs = []string{r.pools[0][0]}
		}
		r.res.Unlock()
		urls = append(urls, fmt.Sprintf("%s://%s:%d", proto, name, r.ports[ni]))
	}
	dynamicHostResolver = r.res
	rb, err := CreateRoundRobinBackend(":0", urls, func(conn net.Conn) {})
	if err != nil {
		return nil, err
	}
	r.rb = rb
	// a sentinel callback behind the rotation's own: the resolver calls the
	// callbacks of one notification in registration order from one goroutine,
	// so when the sentinel runs the rotation has been told everything
	for _, name := range r.names {
		r.res.Lock()
		e := r.res.hostIPs[name]
		e.callbacks = append(e.callbacks, func(string, []string, []string) { atomic.AddInt64(&r.notified, 1) })
		r.res.Unlock()
	}
	r.proxy = NewProxy("svc.test", 1200, "", false, NewPreConfigRoute(), NewPreConfigHostResolver(), NewSelfLearnRoute(), true, false)
	r.proxy.AddItem(&ProxyItem{backend: rb, transports: []ServerTransport{r.bar}})
	r.model = make([]c19Host, len(r.names))
	if r.sameName {
		for i := range r.model {
			r.model[i].addrs = []string{r.pools[0][0]}
		}
		// what was known at registration has reached the rotation and the proxy
		patientUntil(3*time.Second, 200*time.Microsecond, func() bool { return len(r.rb.GetAllBackend()) >= 2 })
		time.Sleep(20 * time.Millisecond)
		if err := r.quiesce(runtime.NumGoroutine(), atomic.LoadInt64(&r.notified), false); err != nil {
			return nil, err
		}
		if f := r.checkMembership(); f != "" {
			return nil, fmt.Errorf("VIOLATION-AT-START %s", f)
		}
		if f := r.checkBehaviour(); f != "" {
			return nil, fmt.Errorf("VIOLATION-AT-START %s", f)
		}
	}
	return r, nil
}

// quiesce waits until the step's notification (if the reference machine
// expects one: the address set changed) has run to its end - the sentinel
// callback counts them -, the change-event channel is empty and the proxy loop
// has gone round once more. When no notification is expected the goroutine count
// is given a moment to fall back (a notification nobody expected is then still
// seen by the membership check of this or the next step).
func (r *c19Rig) quiesce(baseline int, notifiedBefore int64, expectChange bool) error {
	if expectChange {
		// a missing notification is reported by the membership check that follows
		patientUntil(10*time.Second, 20*time.Microsecond, func() bool { return atomic.LoadInt64(&r.notified) > notifiedBefore })
	} else {
		patientUntil(20*time.Millisecond, 20*time.Microsecond, func() bool { return runtime.NumGoroutine() <= baseline })
	}
	if !patientUntil(10*time.Second, 20*time.Microsecond, func() bool { return len(r.proxy.backendChangeChannel) == 0 }) {
		return fmt.Errorf("the proxy loop left %d backend change events unhandled for 10 s", len(r.proxy.backendChangeChannel))
	}
	return r.barrier()
}

func (r *c19Rig) barrier() error { return r.inLoop(nil) }

// inLoop sends a barrier message through the proxy's message channel and runs
// fn inside the loop goroutine when the loop handles it.
func (r *c19Rig) inLoop(fn func()) error {
	// a fresh double per barrier: no stale signal can be mistaken for this one
	b := &c19Barrier{ch: make(chan struct{}, 1), fn: fn}
	m := &Message{response: &StatusLine{version: "SIP/2.0", statusCode: 100, reason: "Barrier"}, headers: []*Header{}, body: []byte{}}
	r.proxy.HandleRawMessage(NewRawMessage("127.0.0.9", 9, b, false, m))
	if _, ok := patientRecv(b.ch, 10*time.Second); !ok {
		return errors.New("proxy loop did not take the barrier message within 10 s")
	}
	return nil
}

func (r *c19Rig) expected() []string {
	var out []string
	for ni, h := range r.model {
		for _, ip := range h.addrs {
			out = append(out, fmt.Sprintf("%s:%d", ip, r.ports[ni]))
		}
	}
	sort.Strings(out)
	return out
}

// apply feeds one outcome for name index ni: ips == nil means failure.
func (r *c19Rig) apply(ni int, ips []string, fail bool) string {
	// reference machine
	h := &r.model[ni]
	before := strings.Join(sortedCopy(h.addrs), ",")
	if fail {
		h.failed++
		if h.failed > 3 && len(h.addrs) > 0 {
			h.addrs, h.failed = nil, 0
		}
	} else {
		h.addrs, h.failed = append([]string{}, ips...), 0
	}
	if r.sameName {
		r.model[1-ni] = c19Host{addrs: append([]string{}, h.addrs...), failed: h.failed}
	}
	expectChange := strings.Join(sortedCopy(h.addrs), ",") != before
	for k, b := range r.rb.GetAllBackend() {
		r.retained[k] = b
	}
	baseline := runtime.NumGoroutine()
	notifiedBefore := atomic.LoadInt64(&r.notified)
	if fail {
		r.res.addressResolved(r.names[ni], nil, errors.New("verif: resolution failed"))
	} else {
		r.res.addressResolved(r.names[ni], append([]string{}, ips...), nil)
	}
	if err := r.quiesce(baseline, notifiedBefore, expectChange); err != nil {
		return err.Error()
	}
	// a mismatch is re-examined for up to 3 s of running time before it counts
	// (correct code converges at once; an unexpected late notification may not)
	f := r.checkMembership()
	for p := newPatience(3 * time.Second); f != "" && !p.spent(); {
		time.Sleep(2 * time.Millisecond)
		if err := r.barrier(); err != nil {
			return err.Error()
		}
		f = r.checkMembership()
	}
	return f
}

func sortedCopy(a []string) []string {
	out := append([]string{}, a...)
	sort.Strings(out)
	return out
}

func (r *c19Rig) checkMembership() string {
	want := r.expected()
	var got []string
	for k := range r.rb.GetAllBackend() {
		got = append(got, k)
	}
	sort.Strings(got)
	if strings.Join(got, ",") != strings.Join(want, ",") {
		return fmt.Sprintf("rotation contains %v, name resolution says %v", got, want)
	}
	var idx []string
	if err := r.inLoop(func() {
		for k := range r.proxy.backends {
			idx = append(idx, k)
		}
	}); err != nil {
		return err.Error()
	}
	sort.Strings(idx)
	if strings.Join(idx, ",") != strings.Join(want, ",") {
		return fmt.Sprintf("the proxy recognises %v as backend addresses, name resolution says %v", idx, want)
	}
	if got := r.res.GetAddrsOfHost(r.names[0]); len(got) != len(r.model[0].addrs) {
		return fmt.Sprintf("resolver reports %v for %s, want %v", got, r.names[0], r.model[0].addrs)
	}
	return ""
}

// checkBehaviour: 2k dispatches reach exactly the k current addresses, each
// twice; vanished backends were closed; responses are attributed to members only.
func (r *c19Rig) checkBehaviour() string {
	want := r.expected()
	r.hub.drain()
	req, _ := ParseMessage(bufio.NewReader(strings.NewReader("OPTIONS sip:svc.test SIP/2.0\r\nVia: SIP/2.0/UDP 127.0.0.9:9;branch=z9hG4bKc19\r\nCall-ID: c19\r\nCSeq: 1 OPTIONS\r\nContent-Length: 0\r\n\r\n")))
	k := len(want)
	for i := 0; i < 2*k; i++ {
		if err := r.rb.Send(req); err != nil {
			return fmt.Sprintf("dispatch %d of %d failed: %v (rotation should hold %v)", i+1, 2*k, err, want)
		}
	}
	if k == 0 {
		if err := r.rb.Send(req); err == nil {
			return "dispatch on an empty rotation reported success"
		}
	}
	counts := map[string]int{}
	total := 0
	for total < 2*k {
		rx, ok := r.hub.waitOne(20 * time.Second)
		if !ok {
			return fmt.Sprintf("only %d of %d dispatches arrived at the resolved addresses %v within 20 s: %v", total, 2*k, want, counts)
		}
		if rx.msg == nil || rx.closed {
			continue
		}
		counts[fmt.Sprintf("%s:%d", rx.ep.ip, rx.ep.port)]++
		total++
	}
	time.Sleep(300 * time.Microsecond)
	for _, rx := range r.hub.drain() {
		if rx.msg != nil && !rx.closed {
			counts[fmt.Sprintf("%s:%d", rx.ep.ip, rx.ep.port)]++
		}
	}
	for _, a := range want {
		if counts[a] != 2 {
			return fmt.Sprintf("%d dispatches over %v arrived as %v, want each address exactly twice", 2*k, want, counts)
		}
	}
	if len(counts) != k {
		return fmt.Sprintf("dispatches arrived at %v, rotation should hold exactly %v", counts, want)
	}
	// vanished backends are closed
	cur := r.rb.GetAllBackend()
	for a, b := range r.retained {
		if _, still := cur[a]; still {
			continue
		}
		if r.proto == "udp" {
			if err := b.Send(req); err == nil {
				return fmt.Sprintf("backend %s left the rotation but its socket still sends: it was not closed", a)
			}
		} else if tb, ok := b.(*TCPBackend); ok && tb.conn != nil {
			tb.conn.SetWriteDeadline(time.Now().Add(time.Second))
			if _, err := tb.conn.Write([]byte("\r\n")); err == nil {
				return fmt.Sprintf("TCP backend %s left the rotation but its connection is still open", a)
			}
		}
		delete(r.retained, a)
	}
	// attribution of responses: a pin is created iff the source is a member
	member := map[string]bool{}
	for _, a := range want {
		member[a] = true
	}
	for pi, pool := range r.pools {
		for _, ip := range pool {
			port := r.ports[pi]
			r.dialogN++
			id := fmt.Sprintf("c19d%d", r.dialogN)
			resp, err := ParseMessage(bufio.NewReader(strings.NewReader(fmt.Sprintf("SIP/2.0 200 OK\r\nVia: SIP/2.0/UDP 127.0.0.3:5999;branch=z9hG4bK%s\r\nFrom: <sip:a@a.example>;tag=f%s\r\nTo: <sip:b@b.example>;tag=t%s\r\nCall-ID: %s\r\nCSeq: 1 INVITE\r\nContent-Length: 0\r\n\r\n", id, id, id, id))))
			if err != nil {
				return "harness: " + err.Error()
			}
			dlg, err := resp.GetDialog()
			if err != nil {
				return "harness: " + err.Error()
			}
			r.proxy.HandleRawMessage(NewRawMessage(ip, port, &c19Barrier{ch: make(chan struct{}, 1)}, false, resp))
			pinned := false
			if err := r.inLoop(func() { _, pinned = r.proxy.dialogBasedBackends.backends[dlg] }); err != nil {
				return err.Error()
			}
			addr := fmt.Sprintf("%s:%d", ip, port)
			if pinned != member[addr] {
				return fmt.Sprintf("a dialog-creating response from %s was attributed to a backend: %v; %s is in the rotation: %v (rotation %v)", addr, pinned, addr, member[addr], want)
			}
		}
	}
	return ""
}

// c19Pending: a transaction the proxy has sent to one particular backend (an
// in-dialog request of a dialog pinned to it) and that backend's answer, not
// yet sent.
type c19Pending struct {
	addr string // ip:port of the backend
	ip   string
	port int
	resp []byte
	bye  []byte // initial-INVITE variant: the BYE of the dialog the late 200 establishes
}

// openInitial: an initial INVITE passes through the rotation to some member,
// which answers 180 with a To-tag at once; its 200 is kept for later, and so is
// the BYE of the dialog.
func (r *c19Rig) openInitial() (*c19Pending, string) {
	r.dialogN++
	id := fmt.Sprintf("c19i%d", r.dialogN)
	r.hub.drain()
	req, err := ParseMessage(bufio.NewReader(strings.NewReader(fmt.Sprintf("INVITE sip:svc.test SIP/2.0\r\nVia: SIP/2.0/UDP 127.0.0.9:9;branch=z9hG4bKin%s\r\nFrom: <sip:a@a.example>;tag=f%s\r\nTo: <sip:b@b.example>\r\nCall-ID: %s\r\nCSeq: 1 INVITE\r\nContent-Length: 0\r\n\r\n", id, id, id))))
	if err != nil {
		return nil, "harness: " + err.Error()
	}
	r.proxy.HandleRawMessage(NewRawMessage("127.0.0.9", 9, &c19Barrier{ch: make(chan struct{}, 1)}, false, req))
	if err := r.barrier(); err != nil {
		return nil, err.Error()
	}
	for {
		rx, ok := r.hub.waitOne(2 * time.Second)
		if !ok {
			return nil, ""
		}
		if rx.msg == nil || rx.closed || rx.ep == nil {
			continue
		}
		p := &c19Pending{addr: fmt.Sprintf("%s:%d", rx.ep.ip, rx.ep.port), ip: rx.ep.ip, port: rx.ep.port}
		ringing, err := ParseMessage(bufio.NewReader(bytes.NewReader(buildResponse(rx.msg, 180, "Ringing", "t"+id, ""))))
		if err != nil {
			return nil, "harness: " + err.Error()
		}
		r.proxy.HandleRawMessage(NewRawMessage(p.ip, p.port, &c19Barrier{ch: make(chan struct{}, 1)}, false, ringing))
		if err := r.barrier(); err != nil {
			return nil, err.Error()
		}
		p.resp = buildResponse(rx.msg, 200, "OK", "t"+id, "")
		p.bye = []byte(fmt.Sprintf("BYE sip:svc.test SIP/2.0\r\nVia: SIP/2.0/UDP 127.0.0.9:9;branch=z9hG4bKby%s\r\nFrom: <sip:a@a.example>;tag=f%s\r\nTo: <sip:b@b.example>;tag=t%s\r\nCall-ID: %s\r\nCSeq: 2 BYE\r\nContent-Length: 0\r\n\r\n", id, id, id, id))
		return p, ""
	}
}

// openTransaction pins a dialog to the member at addr (its 200 to an INVITE
// passes through the proxy) and lets a re-INVITE of that dialog pass, which the
// proxy sends to that member; the member's answer is kept for later.
func (r *c19Rig) openTransaction(addr string) (*c19Pending, string) {
	ip, port := splitHostPort(addr)
	r.dialogN++
	id := fmt.Sprintf("c19t%d", r.dialogN)
	resp, err := ParseMessage(bufio.NewReader(strings.NewReader(fmt.Sprintf("SIP/2.0 200 OK\r\nVia: SIP/2.0/UDP 127.0.0.3:5999;branch=z9hG4bK%s\r\nFrom: <sip:a@a.example>;tag=f%s\r\nTo: <sip:b@b.example>;tag=t%s\r\nCall-ID: %s\r\nCSeq: 1 INVITE\r\nContent-Length: 0\r\n\r\n", id, id, id, id))))
	if err != nil {
		return nil, "harness: " + err.Error()
	}
	r.proxy.HandleRawMessage(NewRawMessage(ip, port, &c19Barrier{ch: make(chan struct{}, 1)}, false, resp))
	if err := r.barrier(); err != nil {
		return nil, err.Error()
	}
	r.hub.drain()
	req, err := ParseMessage(bufio.NewReader(strings.NewReader(fmt.Sprintf("INVITE sip:svc.test SIP/2.0\r\nVia: SIP/2.0/UDP 127.0.0.9:9;branch=z9hG4bKre%s\r\nFrom: <sip:a@a.example>;tag=f%s\r\nTo: <sip:b@b.example>;tag=t%s\r\nCall-ID: %s\r\nCSeq: 2 INVITE\r\nContent-Length: 0\r\n\r\n", id, id, id, id))))
	if err != nil {
		return nil, "harness: " + err.Error()
	}
	r.proxy.HandleRawMessage(NewRawMessage("127.0.0.9", 9, &c19Barrier{ch: make(chan struct{}, 1)}, false, req))
	if err := r.barrier(); err != nil {
		return nil, err.Error()
	}
	for {
		rx, ok := r.hub.waitOne(2 * time.Second)
		if !ok {
			return nil, "" // the request did not come out (not this sub-check's subject)
		}
		if rx.msg == nil || rx.closed {
			continue
		}
		if rx.ep == nil || rx.ep.ip != ip {
			return nil, "" // it went elsewhere (C04's subject)
		}
		return &c19Pending{addr: addr, ip: ip, port: port, resp: buildResponse(rx.msg, 200, "OK", "", "")}, ""
	}
}

// lateAnswer: the backend's answer to the pending transaction arrives, from
// the backend's address, after name resolution has taken that address out of
// the rotation. The rotation and the proxy's index of backend addresses still
// follow name resolution.
func (r *c19Rig) lateAnswer(p *c19Pending) string {
	m, err := ParseMessage(bufio.NewReader(bytes.NewReader(p.resp)))
	if err != nil {
		return "harness: " + err.Error()
	}
	r.proxy.HandleRawMessage(NewRawMessage(p.ip, p.port, &c19Barrier{ch: make(chan struct{}, 1)}, false, m))
	if err := r.barrier(); err != nil {
		return err.Error()
	}
	if f := r.checkMembership(); f != "" {
		return fmt.Sprintf("after the answer to a pending transaction arrived from %s, which name resolution had removed in the meantime: %s", p.addr, f)
	}
	if want := r.expected(); p.bye != nil && len(want) > 0 {
		// the dialog that 200 established belongs to no backend that is gone: its
		// BYE reaches a backend name resolution knows
		r.hub.drain()
		bye, err := ParseMessage(bufio.NewReader(bytes.NewReader(p.bye)))
		if err != nil {
			return "harness: " + err.Error()
		}
		r.proxy.HandleRawMessage(NewRawMessage("127.0.0.9", 9, &c19Barrier{ch: make(chan struct{}, 1)}, false, bye))
		if err := r.barrier(); err != nil {
			return err.Error()
		}
		for {
			rx, ok := r.hub.waitOne(3 * time.Second)
			if !ok {
				return fmt.Sprintf("an INVITE went to %s, which answered 180; name resolution then removed that address; its 200 arrived afterwards; the BYE of that dialog reached no backend within 3 s although the rotation holds %v", p.addr, want)
			}
			if rx.msg == nil || rx.closed || rx.ep == nil {
				continue
			}
			if at := fmt.Sprintf("%s:%d", rx.ep.ip, rx.ep.port); !inStrs(at, want) {
				return fmt.Sprintf("the BYE of a dialog whose 200 came from the removed address %s was sent to %s; the rotation holds %v", p.addr, at, want)
			}
			break
		}
	}
	return ""
}

func c19OutcomeString(ni int, ips []string, fail bool) string {
	if fail {
		return fmt.Sprintf("h%d:fail", ni)
	}
	var ds []string
	for _, ip := range ips {
		ds = append(ds, ip[strings.LastIndex(ip, ".")+1:])
	}
	return fmt.Sprintf("h%d:ok{%s}", ni, strings.Join(ds, ","))
}

func TestC19(t *testing.T) {
	V.Rule("unit with real sockets: sequences of resolution outcomes (failure, or success with any duplicate-free address set incl. the empty one, order drawn) fed through the resolver's own addressResolved into the real rotation and a real Proxy, with quiescence between steps - exhaustively all sequences up to length 4 (thorough: 5) over the 8 subsets of 3 addresses + failure from the blank state, randomly up to length 60 over the subsets of 5 addresses with one host name or two host names (disjoint pools, different ports) feeding the same rotation, udp and tcp backends. Reference machine per name: success => addrs := S, failed := 0; failure => failed++ and iff failed > 3 and addrs non-empty: addrs := {}, failed := 0. After every step: rotation membership and the proxy's backend-address index equal the union of the model's sets; at sequence ends and drawn steps also behaviourally: 2k dispatches reach exactly the k harness sockets at those addresses twice each, vanished backends are closed, a dialog-creating response from address X is attributed iff X is a member. non-trivial = sequence with >= 3 failures in a row after a non-empty success, or a success that both adds and removes; distinct by sequence")
	V.Require("one host name configured twice, on two ports", "answer of a backend that name resolution had removed meanwhile", "4th failure empties", "3 failures tolerated", "success adds and removes", "same-set success between failures", "two host names", "tcp backends", "udp backends", "behaviour checked")
	c := 200

	t.Run("exhaustive", func(t *testing.T) {
		if V.replay && V.only == "" {
			return
		}
		maxLen := 4
		if V.Thorough() {
			maxLen = 5
		}
		rig, err := newC19Rig("udp", 1, c)
		c++
		if err != nil {
			V.HarnessError(t, "rig: %v", err)
		}
		V.Class("udp backends")
		pool := rig.pools[0][:3]
		var outcomes [][]string // nil = failure
		outcomes = append(outcomes, nil)
		for m := 0; m < 8; m++ {
			s := []string{}
			for b := 0; b < 3; b++ {
				if m&(1<<b) != 0 {
					s = append(s, pool[b])
				}
			}
			outcomes = append(outcomes, s)
		}
		n := 0
		seq := make([]int, maxLen)
		var run func(depth int) bool
		run = func(depth int) bool {
			if depth == maxLen {
				n++
				if V.only == "" && n%V.nshards != V.shard {
					return true
				}
				var desc []string
				for _, o := range seq {
					desc = append(desc, c19OutcomeString(0, outcomes[o], outcomes[o] == nil))
				}
				d := strings.Join(desc, " ")
				if !V.OnlyMatch(d) {
					return true
				}
				// reset to the blank state: a success with the empty set
				if f := rig.apply(0, []string{}, false); f != "" {
					V.Violation(t, d, d, "reset step (success with the empty set): %s", f)
					return false
				}
				fails, nonEmpty, nt := 0, false, false
				for i, o := range seq {
					V.Eval()
					isFail := outcomes[o] == nil
					before := rig.model[0]
					f := rig.apply(0, outcomes[o], isFail)
					if f != "" {
						V.Violation(t, d, map[string]any{"sequence": d, "failing_step": i + 1}, "after step %d (%s) of [%s]: %s", i+1, desc[i], d, f)
						return false
					}
					if isFail {
						fails++
						if fails == 3 && nonEmpty {
							V.Class("3 failures tolerated")
							nt = true
						}
						if fails == 4 && len(before.addrs) > 0 {
							V.Class("4th failure empties")
						}
					} else {
						if fails > 0 && fails < 4 && strings.Join(before.addrs, ",") == strings.Join(outcomes[o], ",") && len(before.addrs) > 0 {
							V.Class("same-set success between failures")
						}
						fails = 0
						nonEmpty = len(outcomes[o]) > 0
						add, rem := 0, 0
						for _, a := range outcomes[o] {
							if !inStrs(a, before.addrs) {
								add++
							}
						}
						for _, a := range before.addrs {
							if !inStrs(a, outcomes[o]) {
								rem++
							}
						}
						if add > 0 && rem > 0 {
							V.Class("success adds and removes")
							nt = true
						}
					}
				}
				if n%17 == 0 || nt {
					V.Class("behaviour checked")
					if f := rig.checkBehaviour(); f != "" {
						V.Violation(t, d, d, "after [%s]: %s", d, f)
						return false
					}
				}
				if nt {
					V.NonTrivial(d)
				}
				if n%1500 == 1 {
					V.Sample(d)
				}
				return true
			}
			for o := range outcomes {
				seq[depth] = o
				if !run(depth + 1) {
					return false
				}
			}
			return true
		}
		ok := run(0)
		V.Exhaustive(ok && V.only == "")
		V.Extra("exhaustive_subspace", fmt.Sprintf("all %d sequences of length %d (every prefix checked) over {failure} + 8 subsets of 3 addresses, each from the blank state", n, maxLen))
	})

	rigs := map[string]*c19Rig{}
	rcheck(t, "random", V.N(200, 4000), func(rt *rapid.T) {
		proto := rapid.SampledFrom([]string{"udp", "udp", "tcp"}).Draw(rt, "proto")
		nNames := rapid.IntRange(1, 3).Draw(rt, "host names (3 = one name configured twice, on two ports)")
		key := fmt.Sprintf("%s-%d", proto, nNames)
		rig := rigs[key]
		if rig == nil {
			var err error
			rig, err = newC19Rig(proto, nNames, c)
			c++
			if err != nil && strings.HasPrefix(err.Error(), "VIOLATION-AT-START ") {
				failf(rt, "a host name that was known with one address when the rotation registered for it twice (two ports): %s", strings.TrimPrefix(err.Error(), "VIOLATION-AT-START "))
			}
			if err != nil {
				V.HarnessError(rt, "rig: %v", err)
			}
			rigs[key] = rig
		}
		// the global resolver variable must be this rig's (CreateRoundRobinBackend already ran)
		V.Class(proto + " backends")
		V.ClassIf(nNames == 2, "two host names")
		V.ClassIf(nNames == 3, "one host name configured twice, on two ports")
		if nNames == 3 {
			nNames = 2
		}
		for ni := range rig.names {
			if f := rig.apply(ni, []string{}, false); f != "" {
				failf(rt, "reset step: %s", f)
			}
		}
		steps := rapid.IntRange(1, 60).Draw(rt, "steps")
		var desc []string
		V.Case(desc)
		fails := make([]int, nNames)
		nt := false
		var pending *c19Pending
		for i := 0; i < steps; i++ {
			ni := rapid.IntRange(0, nNames-1).Draw(rt, "name")
			pool := rig.pools[ni]
			var ips []string
			fail := false
			before := rig.model[ni]
			switch rapid.IntRange(0, 5).Draw(rt, "outcome") {
			case 0, 1, 2:
				fail = true
			case 3:
				ips = append([]string{}, before.addrs...) // same set again
			default:
				perm := rapid.Permutation(pool).Draw(rt, "order")
				k := rapid.IntRange(0, len(pool)).Draw(rt, "size")
				ips = perm[:k]
			}
			desc = append(desc, c19OutcomeString(ni, ips, fail))
			V.Case(desc)
			f := rig.apply(ni, ips, fail)
			if f != "" {
				failf(rt, "after step %d of %v: %s", i+1, desc, f)
			}
			if fail {
				fails[ni]++
				if fails[ni] == 3 && len(before.addrs) > 0 {
					V.Class("3 failures tolerated")
					nt = true
				}
				if fails[ni] == 4 && len(before.addrs) > 0 {
					V.Class("4th failure empties")
				}
				if fails[ni] >= 4 {
					fails[ni] = 0
				}
			} else {
				if fails[ni] > 0 && len(before.addrs) > 0 && strings.Join(before.addrs, ",") == strings.Join(ips, ",") {
					V.Class("same-set success between failures")
				}
				fails[ni] = 0
			}
			// a transaction pending at one member across the steps that follow; when
			// resolution has removed that member, its answer arrives
			if pending != nil && !inStrs(pending.addr, rig.expected()) {
				desc = append(desc, "late-answer:"+pending.addr)
				V.Case(desc)
				V.Class("answer of a backend that name resolution had removed meanwhile")
				if f := rig.lateAnswer(pending); f != "" {
					failf(rt, "after step %d of %v: %s", i+1, desc, f)
				}
				pending = nil
				if f := rig.checkBehaviour(); f != "" {
					failf(rt, "after step %d of %v: %s", i+1, desc, f)
				}
			}
			if want := rig.expected(); pending == nil && len(want) > 0 && rapid.IntRange(0, 4).Draw(rt, "a transaction stays pending at one member") == 0 {
				x := want[rapid.IntRange(0, len(want)-1).Draw(rt, "which member")]
				var p *c19Pending
				var f string
				if rapid.Bool().Draw(rt, "an initial INVITE answered 180 (rather than a re-INVITE of a pinned dialog)") {
					p, f = rig.openInitial()
					if p != nil {
						x = p.addr
					}
				} else {
					p, f = rig.openTransaction(x)
				}
				if f != "" {
					failf(rt, "after step %d of %v: %s", i+1, desc, f)
				}
				if p != nil {
					pending = p
					desc = append(desc, "pending@"+x)
					V.Case(desc)
				}
			}
			if rapid.IntRange(0, 9).Draw(rt, "probe") == 0 || i == steps-1 {
				V.Class("behaviour checked")
				if f := rig.checkBehaviour(); f != "" {
					failf(rt, "after step %d of %v: %s", i+1, desc, f)
				}
			}
		}
		if nt {
			V.NonTrivial(strings.Join(desc, " "))
		}
		V.SampleEvery(40, func() any { return strings.Join(desc, " ") })
	})
}

func inStrs(s string, a []string) bool {
	for _, x := range a {
		if x == s {
			return true
		}
	}
	return false
}

//verif:needs core,sip,lab
package main

// C04 - in-dialog requests stick to the backend that answered the dialog.
// Engine: lab, rapid state machine. Model: pins (dialog -> backend) created by
// an INVITE response with both tags sent from the backend's configured
// address, or by an answered backend-issued SUBSCRIBE; every pinned in-dialog
// request addressed to the service must arrive at that backend and nowhere
// else; unpinned and stray requests at exactly one backend, any.

import (
	"fmt"
	"strings"
	"testing"
	"time"

	"pgregory.net/rapid"
)

type c04Dialog struct {
	ID       string
	CallID   string
	TagA     string // caller's tag
	TagB     string // callee's tag ("" until a response carried one)
	UriA     AURI
	UriB     AURI
	Caller   int    // user agent
	Backend  string // where the initial INVITE landed ("ip:port/proto")
	At       labRx
	Pinned   string // backend the dialog is pinned to ("" = not pinned)
	BySub    bool   // created by a backend-issued SUBSCRIBE
	UA       int    // for BySub: the user agent subscribed to
	SubReqAt *RMsg  // for BySub: the SUBSCRIBE as received by the user agent
	UAEP     *labEP
	Uses     int
	PinFirst time.Time // just before the first pin-creating response was sent (zero = never)
}

func c04BackendKey(r labRx) string {
	proto := "udp"
	if r.tcp != nil {
		proto = "tcp"
	}
	return fmt.Sprintf("%s:%d/%s", r.ep.ip, r.ep.port, proto)
}

func c04GenIdent(rt *rapid.T, label string, small bool) string {
	if small {
		return gFromAlphabet(rt, label, "ab-", 1, 3)
	}
	return gFromAlphabet(rt, label, "0123456789abcdef", 8, 12)
}

func TestC04(t *testing.T) {
	V.Rule("lab: rapid state machines over 1-12 concurrent dialogs per history on services with 2-6 UDP (and one TCP) backends: initial INVITE (UDP or TCP ingress) -> lands on some backend; that backend answers 100 / 18x with To-tag / 2xx / 4xx-6xx with To-tag from its configured address (UDP socket or the proxy's TCP connection); in-dialog ACK, BYE (never answered), re-INVITE, UPDATE, INFO, PRACK, MESSAGE, REFER, OPTIONS, NOTIFY, SUBSCRIBE in both directions (From/To swapped) from any user agent, plain or decorated (display names, URI parameters, compact names); backend-issued SUBSCRIBE answered by the user agent (Expires 3600 / 60 / 0 / absent), the first NOTIFY optionally sent right behind the 2xx from the same socket, refresh and un-subscribe (Expires: 0) by the backend, then NOTIFY in that dialog; unrelated out-of-dialog requests advancing the rotation in between; stray requests with both tags of an unknown dialog; one service instance with a dialog timeout of 2 s and pauses of 60-220 ms in its histories, where a pin younger than the timeout must survive every expiry sweep (older ones are don't-cares). a fault history (backend-outage): a dialog pinned to the TCP backend, the backend's listener closed and its connections reset, 0-3 in-dialog requests (they may reach nobody, never another backend), the backend listening again, 1-3 in-dialog requests (each at the pinned backend). a resolution history (pool-flap): a dialog pinned to a member of a resolved TCP pool, whose address then leaves the pool and may join it again while the backend itself keeps listening - the dialog's requests still reach it. Identifiers from small alphabets (tags containing '-', equal From and To URIs, tel:/urn: identities) or long ones. Oracle: model pins; a pinned in-dialog request must arrive at the pinned backend and at no other endpoint (FIFO barrier), unpinned/stray ones at exactly one backend. non-trivial = pinned in-dialog request for which the rotation alone would have picked another backend; distinct by (dialog shape, method, direction)")
	V.Require("the caller is on a backend's own address", "a dialog through each of two listen entries that share a tcp backend", "the pinned backend's address left the resolved pool", "pinned tcp backend down and up again", "CSeq written with more than one blank or a tab before the method", "NOTIFY right behind the 2xx of a backend-issued SUBSCRIBE", "short timeout: pinned request after a pause", "pinned request while rotation points elsewhere", "direction: callee->service", "direction: caller->service", "method:ACK", "method:BYE", "method:INVITE", "method:UPDATE", "method:NOTIFY", "method:SUBSCRIBE", "pin by backend-issued SUBSCRIBE", "SUBSCRIBE answered with Expires: 0", "equal From and To URIs", "tag contains '-'", "unpinned dialog (only 100 so far)", "stray in-dialog request", "tcp backend pinned", "pin by non-2xx final with To-tag")
	// the last instance runs with a dialog timeout of 2 s: its expiry sweep runs
	// every 2 s under the histories, which sometimes pause; a pin younger than
	// the timeout must survive every sweep (older ones are don't-cares)
	const shortTimeout = 2 * time.Second
	vars := []stdVariant{{Pool: 2}, {Pool: 3, PoolTCP: true}, {Pool: 6}, {Pool: 3, Timeout: int(shortTimeout / time.Second)}}
	var svcs []*stdSvc
	for _, v := range vars {
		s, err := newStdSvc(v)
		if err != nil {
			V.HarnessError(t, "cannot start lab instance: %v", err)
		}
		for _, b := range s.in.cfg.Listens[0].Backends {
			proto, hp, _ := strings.Cut(b, "://")
			host, port := splitHostPort(hp)
			if proto == "udp" {
				if _, err := s.in.hub.udpEP("backend-udp", host, port); err != nil {
					V.HarnessError(t, "bind: %v", err)
				}
			}
		}
		svcs = append(svcs, s)
	}
	inMethods := []string{"ACK", "BYE", "INVITE", "UPDATE", "INFO", "PRACK", "MESSAGE", "REFER", "OPTIONS", "NOTIFY", "SUBSCRIBE"}

	// One TCP backend behind two listen entries: a dialog that runs through the
	// second entry and is answered by that backend sticks to it like any other.
	ssvc, err := newStdSvc(stdVariant{SharedTCP: true})
	if err != nil {
		V.HarnessError(t, "cannot start lab instance: %v", err)
	}
	rcheck(t, "shared-tcp-backend", V.N(10, 100), func(rt *rapid.T) {
		s := ssvc
		entry := rapid.IntRange(0, 1).Draw(rt, "listen entry")
		l := s.in.cfg.Listens[entry]
		ua := s.uas[rapid.IntRange(0, 3).Draw(rt, "ua")]
		send := func(b []byte) error { return ua.sendUDP(l.Addr, l.UDPPort, b) }
		mk := func(method, callID, toTag string, cseq int) []byte {
			to := "<sip:b@nomatch.example>"
			if toTag != "" {
				to += ";tag=" + toTag
			}
			return []byte(fmt.Sprintf("%s sip:svc.test SIP/2.0\r\nVia: SIP/2.0/UDP %s:5060;branch=z9hG4bK%s-%d\r\nFrom: <sip:a@a.example>;tag=f\r\nTo: %s\r\nCall-ID: %s\r\nCSeq: %d %s\r\nContent-Length: 0\r\n\r\n", method, ua.ip, callID, cseq, to, callID, cseq, method))
		}
		one := func(wire []byte) labRx {
			s.model.learnRequest(s.model.transport(entry, "udp"), ua.ip, &AMsg{IsReq: true, Hdrs: []AHdr{{Kind: hVia, Vias: []AVia{{Host: ua.ip}}}}})
			s.in.expect(wire)
			if err := send(wire); err != nil {
				V.HarnessError(rt, "send: %v", err)
			}
			rs, err := s.in.settle(send, 1)
			if _, lost := err.(labLost); lost {
				failf(rt, "%v", err)
			} else if err != nil {
				V.HarnessError(rt, "%v", err)
			}
			got := labMessages(rs)
			if len(got) != 1 || !s.isBackendOf(got[0].ep, entry, got[0].tcp != nil) {
				failf(rt, "a request for the service through listen entry %d must reach exactly one of its backends; receptions:\n%s", entry, labDescribe(got))
			}
			return got[0]
		}
		var id string
		var inv labRx
		for try := 0; try < len(l.Backends)+1 && id == ""; try++ {
			cand := s.nextID("c04s-")
			if r := one(mk("INVITE", cand, "", 1)); r.tcp != nil {
				id, inv = cand, r
			}
		}
		if id == "" {
			failf(rt, "%d INVITEs through listen entry %d, none reached its TCP backend", len(l.Backends)+1, entry)
		}
		resp := buildResponse(inv.msg, 200, "OK", "t"+id, "")
		s.in.expect(resp)
		if err := inv.tcp.send(resp); err != nil {
			V.HarnessError(rt, "backend could not answer: %v", err)
		}
		rs, err := s.in.settle(inv.tcp.send, 1)
		if _, lost := err.(labLost); lost {
			failf(rt, "%v", err)
		} else if err != nil {
			V.HarnessError(rt, "%v", err)
		}
		if got := labMessages(rs); len(got) != 1 || got[0].ep != ua {
			return // C02's subject
		}
		V.Class("a dialog through each of two listen entries that share a tcp backend")
		V.NonTrivial(fmt.Sprintf("shared|%d|%s", entry, id))
		for i, k := 0, rapid.IntRange(2, 4).Draw(rt, "in-dialog requests"); i < k; i++ {
			m := rapid.SampledFrom([]string{"ACK", "INFO", "UPDATE", "BYE"}).Draw(rt, "in-dialog method")
			r := one(mk(m, id, "t"+id, 2+i))
			if r.tcp == nil {
				failf(rt, "listen entry %d and listen entry %d share the TCP backend %s:5080; a dialog through entry %d was answered by it (200 with To-tag over the proxy's connection); the dialog's %s then went to %s", 0, 1, s.ip(33), entry, m, r.where())
			}
		}
	})
	// The caller is on a backend's own address and port (a machine that serves as a
	// backend and also places calls through the proxy): its dialog sticks to the
	// backend that answered it, like anybody's.
	rcheck(t, "caller-is-a-backend", V.N(10, 100), func(rt *rapid.T) {
		s := svcs[2] // six UDP backends
		l := s.in.cfg.Listens[0]
		ci := rapid.IntRange(0, len(l.Backends)-1).Draw(rt, "the caller's backend")
		_, chp, _ := strings.Cut(l.Backends[ci], "://")
		cip, cport := splitHostPort(chp)
		caller, err := s.in.hub.udpEP("backend-udp", cip, cport)
		if err != nil {
			V.HarnessError(rt, "bind: %v", err)
		}
		send := func(b []byte) error { return caller.sendUDP(l.Addr, l.UDPPort, b) }
		mk := func(method, callID, toTag string, cseq int) []byte {
			to := "<sip:b@nomatch.example>"
			if toTag != "" {
				to += ";tag=" + toTag
			}
			return []byte(fmt.Sprintf("%s sip:svc.test SIP/2.0\r\nVia: SIP/2.0/UDP %s:%d;branch=z9hG4bK%s-%d\r\nFrom: <sip:a@a.example>;tag=f\r\nTo: %s\r\nCall-ID: %s\r\nCSeq: %d %s\r\nContent-Length: 0\r\n\r\n", method, cip, cport, callID, cseq, to, callID, cseq, method))
		}
		one := func(wire []byte) labRx {
			s.model.learnRequest(s.model.transport(0, "udp"), cip, &AMsg{IsReq: true, Hdrs: []AHdr{{Kind: hVia, Vias: []AVia{{Host: cip}}}}})
			s.in.expect(wire)
			if err := send(wire); err != nil {
				V.HarnessError(rt, "send: %v", err)
			}
			rs, err := s.in.settle(send, 1)
			if _, lost := err.(labLost); lost {
				failf(rt, "%v", err)
			} else if err != nil {
				V.HarnessError(rt, "%v", err)
			}
			got := labMessages(rs)
			if len(got) != 1 || !s.isBackendOf(got[0].ep, 0, got[0].tcp != nil) {
				failf(rt, "a request for the service sent from %s (itself a backend's address) must reach exactly one backend; receptions:\n%s", chp, labDescribe(got))
			}
			return got[0]
		}
		var id string
		var inv labRx
		for try := 0; try < 3 && id == ""; try++ {
			cand := s.nextID("c04c-")
			if r := one(mk("INVITE", cand, "", 1)); r.ep != caller {
				id, inv = cand, r
			}
		}
		if id == "" {
			return
		}
		resp := buildResponse(inv.msg, 200, "OK", "t"+id, "")
		bep := inv.ep
		bsend := func(b []byte) error { return bep.sendUDP(l.Addr, l.UDPPort, b) }
		s.in.expect(resp)
		if err := bsend(resp); err != nil {
			V.HarnessError(rt, "backend send: %v", err)
		}
		rs, err := s.in.settle(bsend, 1)
		if _, lost := err.(labLost); lost {
			failf(rt, "%v", err)
		} else if err != nil {
			V.HarnessError(rt, "%v", err)
		}
		if got := labMessages(rs); len(got) != 1 || got[0].ep != caller {
			return // C02's subject
		}
		V.Class("the caller is on a backend's own address")
		V.NonTrivial("callerbackend|" + id)
		for i, k := 0, rapid.IntRange(2, 4).Draw(rt, "in-dialog requests"); i < k; i++ {
			m := rapid.SampledFrom([]string{"ACK", "INFO", "UPDATE", "BYE"}).Draw(rt, "in-dialog method")
			if r := one(mk(m, id, "t"+id, 2+i)); r.ep != bep {
				failf(rt, "the caller %s is itself a backend of the service; its INVITE was answered (200 with To-tag) by backend %s; the dialog's %s then went to %s", chp, bep, m, r.where())
			}
		}
	})
	// the address of the pinned backend leaves the resolved pool (and joins again)
	fsvc, err := newStdSvc(stdVariant{DynPool: true})
	if err != nil {
		V.HarnessError(t, "cannot start lab instance: %v", err)
	}
	rcheck(t, "pool-flap", V.N(10, 120), func(rt *rapid.T) {
		obs, ok, err := fsvc.poolFlap(rt, t.Name()+"/pool-flap")
		if _, lost := err.(labLost); lost {
			failf(rt, "%v\nhistory: %s", err, obs)
		} else if err != nil {
			V.HarnessError(rt, "%v", err)
		}
		if !ok {
			return
		}
		V.Class("the pinned backend's address left the resolved pool")
		V.NonTrivial("flap|" + obs.String())
		V.SampleEvery(10, func() any { return obs })
		if f := outageSticky(obs); f != "" {
			failf(rt, "%s", f)
		}
	})
	// a fault history: the pinned TCP backend goes away and comes back
	rcheck(t, "backend-outage", V.N(12, 150), func(rt *rapid.T) {
		s := svcs[1]
		obs, ok, err := s.backendOutage(rt, t.Name()+"/backend-outage")
		if _, lost := err.(labLost); lost {
			failf(rt, "%v\nhistory: %s", err, obs)
		} else if err != nil {
			V.HarnessError(rt, "%v", err)
		}
		if !ok {
			return
		}
		V.Class("pinned tcp backend down and up again")
		V.NonTrivial("outage|" + obs.String())
		V.SampleEvery(10, func() any { return obs })
		if f := outageSticky(obs); f != "" {
			failf(rt, "%s", f)
		}
	})

	rcheck(t, "histories", V.N(300, 2500), func(rt *rapid.T) {
		inst := rapid.IntRange(0, len(svcs)-1).Draw(rt, "instance")
		s := svcs[inst]
		short := vars[inst].Timeout > 0
		pauses := 0
		l := s.in.cfg.Listens[0]
		nb := len(l.Backends)
		small := rapid.Bool().Draw(rt, "small identifiers")
		// (white space between the CSeq number and the method: one blank, or what a
		// lenient stack also writes; the answering backend echoes the header)
		cseqSep := rapid.SampledFrom([]string{" ", " ", " ", " ", " ", "  ", "\t", " \t "}).Draw(rt, "blanks between CSeq number and method")
		V.ClassIf(cseqSep != " ", "CSeq written with more than one blank or a tab before the method")
		var dialogs []*c04Dialog
		hist := []string{fmt.Sprintf("%d backends", nb)}
		lastRR := "" // backend of the last load-balanced dispatch
		order := []string{}
		for _, b := range l.Backends {
			proto, hp, _ := strings.Cut(b, "://")
			order = append(order, hp+"/"+proto)
		}
		nextRR := func() string {
			for i, k := range order {
				if k == lastRR {
					return order[(i+1)%len(order)]
				}
			}
			return ""
		}
		// send one request from a user agent to the service and return the receptions
		sendReq := func(rt *rapid.T, ua int, tcp bool, wire []byte, viaHost string) []labRx {
			g := stdIngress{UA: ua, Entry: 0, TCP: tcp}
			send, srcIP, _, err := s.sender(g)
			if err != nil {
				V.HarnessError(rt, "ingress: %v", err)
			}
			s.model.learnRequest(s.transportOf(g), srcIP, &AMsg{IsReq: true, Hdrs: []AHdr{{Kind: hVia, Vias: []AVia{{Host: viaHost}}}}})
			V.Journal(t.Name()+"/histories", hist)
			s.in.expect(wire)
			if err := send(wire); err != nil {
				if _, lost := err.(labLost); lost {
					failf(rt, "%v\nhistory: %v", err, hist)
				}
				V.HarnessError(rt, "send: %v", err)
			}
			rs, err := s.in.settle(send, 1)
			if _, lost := err.(labLost); lost {
				failf(rt, "%v\nhistory: %v", err, hist)
			} else if err != nil {
				V.HarnessError(rt, "%v", err)
			}
			return labMessages(rs)
		}
		render := func(method string, ruri string, from, to ANameAddr, callID string, ua int, tcp bool, compact bool, extra string) []byte {
			names := [3]string{"From", "To", "Call-ID"}
			if compact {
				names = [3]string{"f", "t", "i"}
			}
			tr := "UDP"
			if tcp {
				tr = "TCP"
			}
			return []byte(fmt.Sprintf("%s %s SIP/2.0\r\nVia: SIP/2.0/%s %s:5060;branch=z9hG4bK%s;rport\r\n%s: %s\r\n%s: %s\r\n%s: %s\r\nCSeq: %d%s%s\r\nMax-Forwards: 70\r\n%sContent-Length: 0\r\n\r\n",
				method, ruri, tr, s.ip(10+ua), s.nextID("c04b"), names[0], from.String(), names[1], to.String(), names[2], callID, 1+len(hist), cseqSep, method, extra))
		}
		decorate := func(rt *rapid.T, n ANameAddr, on bool) ANameAddr {
			if !on {
				return n
			}
			n.Display = rapid.SampledFrom([]string{"", "Alice ", "\"B B\" "}).Draw(rt, "display")
			if n.URI.IsSIP() {
				n.URI.Params = append([]AParam{}, AParam{K: "transport", V: "udp", HasV: true})
				n.Bare = false
			}
			n.Params = append([]AParam{{K: "x", V: "1", HasV: true}}, n.Params...)
			return n
		}
		svcRURI := func(rt *rapid.T) string {
			return rapid.SampledFrom([]string{"sip:svc.test", "sip:sos@svc2.test", "urn:service:sos", "sip:x@emergency.test", "sip:" + l.Addr + ":5060"}).Draw(rt, "ruri")
		}
		genURI := func(rt *rapid.T, label string) AURI {
			switch rapid.IntRange(0, 5).Draw(rt, label+".kind") {
			case 0:
				return AURI{Abs: "tel:+1555" + gFromAlphabet(rt, label+".n", "0123", 1, 3)}
			case 1:
				return AURI{Abs: "urn:service:sos"}
			case 2:
				return AURI{Scheme: "sip", Host: "h.example"}
			default:
				return AURI{Scheme: "sip", User: gFromAlphabet(rt, label+".u", "abc", 1, 3), Host: rapid.SampledFrom([]string{"a.example", "b.example", "svc.test"}).Draw(rt, label+".h"), Port: rapid.SampledFrom([]int{0, 0, 5060, 5070}).Draw(rt, label+".p")}
			}
		}
		checkLanding := func(rt *rapid.T, got []labRx, what string, pinned string) labRx {
			if len(got) != 1 {
				failf(rt, "%s must be delivered to exactly one backend; receptions:\n%shistory: %v", what, labDescribe(got), hist)
			}
			r := got[0]
			if !s.isBackendOf(r.ep, 0, r.tcp != nil) {
				failf(rt, "%s must be delivered to a backend of the service; it arrived at %s\nhistory: %v", what, r.where(), hist)
			}
			k := c04BackendKey(r)
			if pinned != "" && k != pinned {
				failf(rt, "%s belongs to a dialog answered by backend %s and must be delivered there; it arrived at %s\nhistory: %v", what, pinned, k, hist)
			}
			return r
		}

		rt.Repeat(map[string]func(*rapid.T){
			"invite": func(rt *rapid.T) {
				if len(dialogs) >= 12 {
					rt.Skip("enough dialogs")
				}
				d := &c04Dialog{ID: s.nextID("d"), Caller: rapid.IntRange(0, 3).Draw(rt, "caller")}
				d.CallID = c04GenIdent(rt, "callid", small) + "@" + d.ID
				if small && rapid.Bool().Draw(rt, "dash in callid") {
					d.CallID = "c-" + d.ID + "-" + c04GenIdent(rt, "callid2", true)
				}
				d.TagA = c04GenIdent(rt, "tagA", small)
				d.UriA = genURI(rt, "uriA")
				d.UriB = genURI(rt, "uriB")
				if rapid.IntRange(0, 3).Draw(rt, "equal uris") == 0 {
					d.UriB = d.UriA
				}
				tcp := rapid.IntRange(0, 3).Draw(rt, "tcp") == 0
				from := ANameAddr{URI: d.UriA, Params: []AParam{{K: "tag", V: d.TagA, HasV: true}}}
				to := ANameAddr{URI: d.UriB}
				hist = append(hist, fmt.Sprintf("%s: INVITE from ua%d (Call-ID %s, From %s, To %s)", d.ID, d.Caller, d.CallID, from, to))
				got := sendReq(rt, d.Caller, tcp, render("INVITE", svcRURI(rt), from, to, d.CallID, d.Caller, tcp, false, ""), s.ip(10+d.Caller))
				r := checkLanding(rt, got, "initial INVITE of "+d.ID, "")
				d.At, d.Backend = r, c04BackendKey(r)
				lastRR = d.Backend
				hist[len(hist)-1] += " -> " + d.Backend
				dialogs = append(dialogs, d)
				V.ClassIf(d.UriA.String() == d.UriB.String(), "equal From and To URIs")
			},
			"backendResponds": func(rt *rapid.T) {
				var cand []*c04Dialog
				for _, d := range dialogs {
					if !d.BySub {
						cand = append(cand, d)
					}
				}
				if len(cand) == 0 {
					rt.Skip("no INVITE dialog")
				}
				d := cand[rapid.IntRange(0, len(cand)-1).Draw(rt, "dialog")]
				code := gTxStatus(rt, "status")
				toTag := ""
				if code > 100 {
					if d.TagB == "" {
						d.TagB = c04GenIdent(rt, "tagB", small)
						if small && rapid.Bool().Draw(rt, "dash in tag") {
							d.TagB = "b-" + d.TagB
						}
						if d.UriA.String() == d.UriB.String() && rapid.IntRange(0, 2).Draw(rt, "equal tags") == 0 {
							d.TagB = d.TagA + "x"
						}
					}
					toTag = d.TagB
				}
				resp := buildResponse(d.At.msg, code, "Answer", toTag, "")
				hist = append(hist, fmt.Sprintf("%s: backend %s answers the INVITE with %d (To-tag %q)", d.ID, d.Backend, code, toTag))
				var send func([]byte) error
				if d.At.tcp != nil {
					if d.At.tcp.isDead() {
						rt.Skip("connection gone")
					}
					send = d.At.tcp.send
				} else {
					ep := d.At.ep
					send = func(b []byte) error { return ep.sendUDP(l.Addr, l.UDPPort, b) }
				}
				V.Journal(t.Name()+"/histories", hist)
				if toTag != "" && d.PinFirst.IsZero() {
					d.PinFirst = time.Now()
				}
				s.in.expect(resp)
				if err := send(resp); err != nil {
					V.HarnessError(rt, "backend send: %v", err)
				}
				// where the response goes is C02's subject: the barrier alone tells that it was processed
				if _, err := s.in.settle(send, 0); err != nil {
					if _, lost := err.(labLost); lost {
						failf(rt, "%v\nhistory: %v", err, hist)
					}
					V.HarnessError(rt, "%v", err)
				}
				if toTag != "" {
					d.Pinned = d.Backend
					V.ClassIf(d.At.tcp != nil, "tcp backend pinned")
					V.ClassIf(code >= 300, "pin by non-2xx final with To-tag")
					V.ClassIf(strings.Contains(d.TagA+d.TagB, "-"), "tag contains '-'")
				}
			},
			"inDialog": func(rt *rapid.T) {
				if len(dialogs) == 0 {
					rt.Skip("no dialog")
				}
				d := dialogs[rapid.IntRange(0, len(dialogs)-1).Draw(rt, "dialog")]
				if d.BySub && d.Pinned == "" {
					rt.Skip("subscription not answered yet")
				}
				method := rapid.SampledFrom(inMethods).Draw(rt, "method")
				tagB := d.TagB
				if tagB == "" {
					// the callee has not produced a tag yet: an in-dialog-looking request with a made-up tag
					tagB = "early" + c04GenIdent(rt, "earlytag", small)
				}
				callerDir := rapid.Bool().Draw(rt, "caller->service")
				if d.BySub {
					callerDir = false // requests of the user agent towards the subscribing backend
				}
				a := ANameAddr{URI: d.UriA, Params: []AParam{{K: "tag", V: d.TagA, HasV: true}}}
				b := ANameAddr{URI: d.UriB, Params: []AParam{{K: "tag", V: tagB, HasV: true}}}
				deco := rapid.Bool().Draw(rt, "decorated")
				from, to := decorate(rt, a, deco), decorate(rt, b, deco)
				if !callerDir {
					from, to = decorate(rt, b, deco), decorate(rt, a, deco)
				}
				ua := rapid.IntRange(0, 3).Draw(rt, "from ua")
				tcp := rapid.IntRange(0, 3).Draw(rt, "tcp") == 0
				extra := ""
				if method == "NOTIFY" {
					extra = "Subscription-State: active;expires=60\r\nEvent: presence\r\n"
				}
				hist = append(hist, fmt.Sprintf("%s: in-dialog %s from ua%d (%s, decorated=%v, pinned to %q, rotation would pick %q)", d.ID, method, ua, map[bool]string{true: "caller->service", false: "callee->service"}[callerDir], deco, d.Pinned, nextRR()))
				got := sendReq(rt, ua, tcp, render(method, svcRURI(rt), from, to, d.CallID, ua, tcp, deco && rapid.Bool().Draw(rt, "compact"), extra), s.ip(10+ua))
				pinned := d.Pinned
				if d.TagB == "" {
					pinned = ""
				}
				outlived := false
				if short && pinned != "" && time.Since(d.PinFirst) > shortTimeout-150*time.Millisecond {
					// the request may have been handled after the pin's timeout: where it
					// lands (and whether the rotation moved) tells nothing any more
					pinned, outlived = "", true
					V.Class("short timeout: dialog outlived its pin (don't-care)")
				} else if short && pinned != "" {
					V.Class("short timeout: pin younger than the timeout honoured")
					V.ClassIf(pauses > 0, "short timeout: pinned request after a pause")
				}
				r := checkLanding(rt, got, fmt.Sprintf("in-dialog %s of %s", method, d.ID), pinned)
				if outlived {
					lastRR = ""
					return
				}
				V.Class("method:" + method)
				V.ClassIf(callerDir, "direction: caller->service")
				V.ClassIf(!callerDir, "direction: callee->service")
				if pinned != "" {
					if nr := nextRR(); nr != "" && nr != pinned {
						V.Class("pinned request while rotation points elsewhere")
						V.NonTrivial(fmt.Sprintf("%s|%s|%v|%v|%v|%v", method, map[bool]string{true: "c", false: "s"}[callerDir], deco, d.UriA.String() == d.UriB.String(), d.BySub, small))
					}
					d.Uses++
				} else {
					lastRR = c04BackendKey(r)
					V.Class("unpinned dialog (only 100 so far)")
				}
			},
			"pause": func(rt *rapid.T) {
				if !short || pauses >= 3 {
					rt.Skip("pauses belong to the short-timeout instance")
				}
				pauses++
				ms := rapid.IntRange(60, 220).Draw(rt, "ms")
				hist = append(hist, fmt.Sprintf("pause %d ms", ms))
				time.Sleep(time.Duration(ms) * time.Millisecond)
			},
			"unrelated": func(rt *rapid.T) {
				n := rapid.IntRange(1, 4).Draw(rt, "n")
				for i := 0; i < n; i++ {
					ua := rapid.IntRange(0, 3).Draw(rt, "ua")
					id := s.nextID("u")
					from := ANameAddr{URI: AURI{Scheme: "sip", User: "x", Host: "other.example"}, Params: []AParam{{K: "tag", V: id, HasV: true}}}
					to := ANameAddr{URI: AURI{Scheme: "sip", User: "svc", Host: "nomatch.example"}}
					hist = append(hist, fmt.Sprintf("unrelated OPTIONS %s from ua%d", id, ua))
					got := sendReq(rt, ua, false, render("OPTIONS", "sip:svc.test", from, to, "unrelated-"+id, ua, false, false, ""), s.ip(10+ua))
					r := checkLanding(rt, got, "out-of-dialog OPTIONS", "")
					lastRR = c04BackendKey(r)
				}
			},
			"stray": func(rt *rapid.T) {
				ua := rapid.IntRange(0, 3).Draw(rt, "ua")
				id := s.nextID("s")
				from := ANameAddr{URI: AURI{Scheme: "sip", User: "x", Host: "other.example"}, Params: []AParam{{K: "tag", V: "sa" + id, HasV: true}}}
				to := ANameAddr{URI: AURI{Scheme: "sip", User: "svc", Host: "nomatch.example"}, Params: []AParam{{K: "tag", V: "sb" + id, HasV: true}}}
				method := rapid.SampledFrom([]string{"BYE", "INFO", "NOTIFY", "INVITE"}).Draw(rt, "method")
				hist = append(hist, fmt.Sprintf("stray in-dialog %s %s from ua%d", method, id, ua))
				got := sendReq(rt, ua, false, render(method, "sip:svc.test", from, to, "stray-"+id, ua, false, false, ""), s.ip(10+ua))
				r := checkLanding(rt, got, "in-dialog request of an unknown dialog", "")
				lastRR = c04BackendKey(r)
				V.Class("stray in-dialog request")
			},
			"backendSubscribes": func(rt *rapid.T) {
				if len(dialogs) >= 12 {
					rt.Skip("enough dialogs")
				}
				// a UDP backend subscribes at a user agent the proxy already knows
				ua := rapid.IntRange(0, 3).Draw(rt, "ua")
				if s.model.learned[s.ip(10+ua)] == nil {
					rt.Skip("user agent not known to the proxy yet")
				}
				var ubs []string
				for _, b := range l.Backends {
					if strings.HasPrefix(b, "udp://") {
						ubs = append(ubs, strings.TrimPrefix(b, "udp://"))
					}
				}
				hp := ubs[rapid.IntRange(0, len(ubs)-1).Draw(rt, "backend")]
				bh, bp := splitHostPort(hp)
				bep, _ := s.in.hub.udpEP("backend-udp", bh, bp)
				d := &c04Dialog{ID: s.nextID("sub"), BySub: true, UA: ua, Backend: hp + "/udp"}
				d.CallID = c04GenIdent(rt, "callid", small) + "@" + d.ID
				d.TagA = c04GenIdent(rt, "tagA", small) // the subscribing backend's tag
				d.UriA = AURI{Scheme: "sip", User: "svc", Host: "svc.test"}
				d.UriB = genURI(rt, "uriB")
				uaport := rapid.SampledFrom([]int{5060, 6010}).Draw(rt, "uaport")
				wire := fmt.Sprintf("SUBSCRIBE sip:u@%s:%d SIP/2.0\r\nVia: SIP/2.0/UDP %s:%d;branch=z9hG4bK%s\r\nRoute: <sip:%s:%d;lr>\r\nFrom: %s\r\nTo: %s\r\nCall-ID: %s\r\nCSeq: 1 SUBSCRIBE\r\nEvent: presence\r\nExpires: 3600\r\nContent-Length: 0\r\n\r\n",
					s.ip(10+ua), uaport, bh, bp, s.nextID("c04sb"), s.ip(10+ua), uaport,
					ANameAddr{URI: d.UriA, Params: []AParam{{K: "tag", V: d.TagA, HasV: true}}}.String(), ANameAddr{URI: d.UriB}.String(), d.CallID)
				hist = append(hist, fmt.Sprintf("%s: backend %s sends SUBSCRIBE to ua%d:%d (Call-ID %s)", d.ID, hp, ua, uaport, d.CallID))
				V.Journal(t.Name()+"/histories", hist)
				send := func(b []byte) error { return bep.sendUDP(l.Addr, l.UDPPort, b) }
				s.model.learnRequest(s.model.transport(0, "udp"), bh, &AMsg{IsReq: true, Hdrs: []AHdr{{Kind: hVia, Vias: []AVia{{Host: bh}}}}})
				s.in.expect([]byte(wire))
				if err := send([]byte(wire)); err != nil {
					V.HarnessError(rt, "send: %v", err)
				}
				rs, err := s.in.settle(send, 1)
				if _, lost := err.(labLost); lost {
					failf(rt, "%v\nhistory: %v", err, hist)
				} else if err != nil {
					V.HarnessError(rt, "%v", err)
				}
				got := labMessages(rs)
				if len(got) != 1 || got[0].ep == nil || got[0].ep.ip != s.ip(10+ua) || got[0].ep.port != uaport {
					failf(rt, "the backend's SUBSCRIBE must be relayed to ua%d by its Route; receptions:\n%shistory: %v", ua, labDescribe(got), hist)
				}
				if len(got[0].msg.Entries(hVia)) != 2 {
					rt.Skip("proxy did not insert itself (user agent known by another key): response cannot come back through it")
				}
				d.SubReqAt = got[0].msg
				d.UAEP = got[0].ep
				dialogs = append(dialogs, d)
			},
			"backendRefreshesSubscription": func(rt *rapid.T) {
				var cand []*c04Dialog
				for _, d := range dialogs {
					if d.BySub && d.Pinned != "" && d.UAEP != nil {
						cand = append(cand, d)
					}
				}
				if len(cand) == 0 {
					rt.Skip("no established subscription")
				}
				d := cand[rapid.IntRange(0, len(cand)-1).Draw(rt, "sub")]
				hp := strings.TrimSuffix(d.Backend, "/udp")
				bh, bp := splitHostPort(hp)
				bep, _ := s.in.hub.udpEP("backend-udp", bh, bp)
				exp := rapid.SampledFrom([]string{"3600", "0", "0", "60"}).Draw(rt, "expires")
				wire := fmt.Sprintf("SUBSCRIBE sip:u@%s:%d SIP/2.0\r\nVia: SIP/2.0/UDP %s:%d;branch=z9hG4bK%s\r\nRoute: <sip:%s:%d;lr>\r\nFrom: %s\r\nTo: %s\r\nCall-ID: %s\r\nCSeq: 2 SUBSCRIBE\r\nEvent: presence\r\nExpires: %s\r\nContent-Length: 0\r\n\r\n",
					d.UAEP.ip, d.UAEP.port, bh, bp, s.nextID("c04rf"), d.UAEP.ip, d.UAEP.port,
					ANameAddr{URI: d.UriA, Params: []AParam{{K: "tag", V: d.TagA, HasV: true}}}.String(), ANameAddr{URI: d.UriB, Params: []AParam{{K: "tag", V: d.TagB, HasV: true}}}.String(), d.CallID, exp)
				hist = append(hist, fmt.Sprintf("%s: backend %s refreshes the subscription with Expires: %s, ua answers with the same", d.ID, hp, exp))
				V.Journal(t.Name()+"/histories", hist)
				send := func(b []byte) error { return bep.sendUDP(l.Addr, l.UDPPort, b) }
				s.model.learnRequest(s.model.transport(0, "udp"), bh, &AMsg{IsReq: true, Hdrs: []AHdr{{Kind: hVia, Vias: []AVia{{Host: bh}}}}})
				s.in.expect([]byte(wire))
				if err := send([]byte(wire)); err != nil {
					V.HarnessError(rt, "send: %v", err)
				}
				rs, err := s.in.settle(send, 1)
				if _, lost := err.(labLost); lost {
					failf(rt, "%v\nhistory: %v", err, hist)
				} else if err != nil {
					V.HarnessError(rt, "%v", err)
				}
				got := labMessages(rs)
				if len(got) != 1 || got[0].ep != d.UAEP {
					failf(rt, "the backend's refresh SUBSCRIBE must be relayed to the user agent by its Route; receptions:\n%shistory: %v", labDescribe(got), hist)
				}
				if len(got[0].msg.Entries(hVia)) != 2 {
					return // proxy did not insert itself: the answer would not come back through it
				}
				resp := buildResponse(got[0].msg, 200, "OK", "", "Expires: "+exp+"\r\n")
				ep := d.UAEP
				usend := func(b []byte) error { return ep.sendUDP(l.Addr, l.UDPPort, b) }
				s.in.expect(resp)
				if err := usend(resp); err != nil {
					V.HarnessError(rt, "send: %v", err)
				}
				rs, err = s.in.settle(usend, 1)
				if _, lost := err.(labLost); lost {
					failf(rt, "%v\nhistory: %v", err, hist)
				} else if err != nil {
					V.HarnessError(rt, "%v", err)
				}
				got = labMessages(rs)
				if len(got) != 1 || c04BackendKey(got[0]) != d.Backend {
					failf(rt, "the answer to the backend's refresh SUBSCRIBE must return to backend %s; receptions:\n%shistory: %v", d.Backend, labDescribe(got), hist)
				}
				V.ClassIf(exp == "0", "SUBSCRIBE answered with Expires: 0")
			},
			"uaAnswersSubscribe": func(rt *rapid.T) {
				var cand []*c04Dialog
				for _, d := range dialogs {
					if d.BySub && d.Pinned == "" && d.SubReqAt != nil {
						cand = append(cand, d)
					}
				}
				if len(cand) == 0 {
					rt.Skip("no unanswered subscription")
				}
				d := cand[rapid.IntRange(0, len(cand)-1).Draw(rt, "sub")]
				d.TagB = c04GenIdent(rt, "tagB", small)
				code := rapid.IntRange(200, 299).Draw(rt, "status")
				// a one-shot fetch is answered with Expires: 0; the final NOTIFY still belongs to the dialog
				exp := rapid.SampledFrom([]string{"Expires: 3600\r\n", "Expires: 0\r\n", "", "Expires: 60\r\n"}).Draw(rt, "expires")
				resp := buildResponse(d.SubReqAt, code, "OK", d.TagB, exp)
				V.ClassIf(exp == "Expires: 0\r\n", "SUBSCRIBE answered with Expires: 0")
				hist = append(hist, fmt.Sprintf("%s: ua%d answers the SUBSCRIBE with %d (To-tag %s, %q)", d.ID, d.UA, code, d.TagB, exp))
				V.Journal(t.Name()+"/histories", hist)
				ep := d.UAEP
				send := func(b []byte) error { return ep.sendUDP(l.Addr, l.UDPPort, b) }
				if d.PinFirst.IsZero() {
					d.PinFirst = time.Now()
				}
				// RFC 6665: the notifier sends the first NOTIFY right behind its 2xx. Both
				// datagrams leave the same socket back to back; the NOTIFY belongs to the
				// dialog the 2xx has just established
				immediate := rapid.Bool().Draw(rt, "NOTIFY right behind the 2xx")
				var notify []byte
				if immediate {
					notify = []byte(fmt.Sprintf("NOTIFY sip:svc.test SIP/2.0\r\nVia: SIP/2.0/UDP %s:%d;branch=z9hG4bK%s\r\nFrom: %s\r\nTo: %s\r\nCall-ID: %s\r\nCSeq: 1 NOTIFY\r\nEvent: presence\r\nSubscription-State: active;expires=60\r\nMax-Forwards: 70\r\nContent-Length: 0\r\n\r\n",
						ep.ip, ep.port, s.nextID("c04n"), ANameAddr{URI: d.UriB, Params: []AParam{{K: "tag", V: d.TagB, HasV: true}}}.String(), ANameAddr{URI: d.UriA, Params: []AParam{{K: "tag", V: d.TagA, HasV: true}}}.String(), d.CallID))
					s.model.learnRequest(s.model.transport(0, "udp"), ep.ip, &AMsg{IsReq: true, Hdrs: []AHdr{{Kind: hVia, Vias: []AVia{{Host: ep.ip}}}}})
					hist[len(hist)-1] += " and sends the first NOTIFY right behind it"
					V.Journal(t.Name()+"/histories", hist)
				}
				if immediate {
					s.in.expect(resp, notify)
				} else {
					s.in.expect(resp)
				}
				if err := send(resp); err != nil {
					V.HarnessError(rt, "send: %v", err)
				}
				want := 1
				if immediate {
					if err := send(notify); err != nil {
						V.HarnessError(rt, "send: %v", err)
					}
					want = 2
				}
				rs, err := s.in.settle(send, want)
				if _, lost := err.(labLost); lost {
					failf(rt, "%v\nhistory: %v", err, hist)
				} else if err != nil {
					V.HarnessError(rt, "%v", err)
				}
				got := labMessages(rs)
				if immediate {
					var answers, notifies []labRx
					for _, r := range got {
						if strings.HasPrefix(r.msg.Start, "SIP/") {
							answers = append(answers, r)
						} else {
							notifies = append(notifies, r)
						}
					}
					if len(answers) != 1 || c04BackendKey(answers[0]) != d.Backend {
						failf(rt, "the answer to the backend's SUBSCRIBE must return to backend %s; receptions:\n%shistory: %v", d.Backend, labDescribe(got), hist)
					}
					if len(notifies) != 1 || c04BackendKey(notifies[0]) != d.Backend {
						failf(rt, "the NOTIFY sent right behind the 2xx belongs to the dialog of the subscribing backend %s and must be delivered there and nowhere else; receptions:\n%shistory: %v", d.Backend, labDescribe(got), hist)
					}
					V.Class("NOTIFY right behind the 2xx of a backend-issued SUBSCRIBE")
				} else if len(got) != 1 || c04BackendKey(got[0]) != d.Backend {
					failf(rt, "the answer to the backend's SUBSCRIBE must return to backend %s; receptions:\n%shistory: %v", d.Backend, labDescribe(got), hist)
				}
				d.Pinned = d.Backend
				V.Class("pin by backend-issued SUBSCRIBE")
			},
		})
		V.SampleEvery(30, func() any { return hist })
	})

	// Every pin younger than the dialog timeout survives the expiry sweeps: on the
	// 2 s instance a new dialog is pinned every 300 ms for a little longer than
	// one timeout, and every 50 ms all dialogs that are certainly younger than
	// the timeout are probed with an in-dialog request. At least one sweep falls
	// into the window (any relayed request triggers it once it is due).
	t.Run("sweep-survival", func(t *testing.T) {
		if (V.replay && V.only == "") || V.ViolationCount() > 0 {
			return
		}
		V.Require("sweep survival: young pin probed across a sweep period")
		s := svcs[len(svcs)-1]
		l := s.in.cfg.Listens[0]
		ua := s.uas[0]
		send := func(b []byte) error { return ua.sendUDP(l.Addr, l.UDPPort, b) }
		request := func(method, callID, fromTag, toTag string) ([]labRx, error) {
			to := "<sip:b@nomatch.example>"
			if toTag != "" {
				to += ";tag=" + toTag
			}
			wire := []byte(fmt.Sprintf("%s sip:svc.test SIP/2.0\r\nVia: SIP/2.0/UDP %s:5060;branch=z9hG4bK%s;rport\r\nFrom: <sip:a@a.example>;tag=%s\r\nTo: %s\r\nCall-ID: %s\r\nCSeq: 1 %s\r\nContent-Length: 0\r\n\r\n", method, ua.ip, s.nextID("c04s"), fromTag, to, callID, method))
			s.model.learnRequest(s.model.transport(0, "udp"), ua.ip, &AMsg{IsReq: true, Hdrs: []AHdr{{Kind: hVia, Vias: []AVia{{Host: ua.ip}}}}})
			s.in.expect(wire)
			if err := send(wire); err != nil {
				return nil, err
			}
			rs, err := s.in.settle(send, 1)
			return labMessages(rs), err
		}
		type sdlg struct {
			id, pinned string
			before     time.Time
			probes     int
		}
		for round := 0; round < V.N(1, 4); round++ {
			start := time.Now()
			nextPin := start
			var ds []*sdlg
			var log []string
			for time.Since(start) < shortTimeout+700*time.Millisecond {
				if !time.Now().Before(nextPin) {
					nextPin = nextPin.Add(300 * time.Millisecond)
					d := &sdlg{id: s.nextID("sv")}
					got, err := request("INVITE", "c04sv-"+d.id, "f"+d.id, "")
					if err != nil || len(got) != 1 {
						if _, lost := err.(labLost); lost || err == nil {
							V.Violation(t, "", log, "sweep survival: the INVITE of %s was not delivered to exactly one backend: %v\n%s", d.id, err, labDescribe(got))
							return
						}
						V.HarnessError(t, "%v", err)
					}
					d.pinned = c04BackendKey(got[0])
					resp := buildResponse(got[0].msg, 200, "OK", "t"+d.id, "")
					ep := got[0].ep
					bsend := func(b []byte) error { return ep.sendUDP(l.Addr, l.UDPPort, b) }
					d.before = time.Now()
					s.in.expect(resp)
					bsend(resp)
					if _, err := s.in.settle(bsend, 1); err != nil {
						if _, lost := err.(labLost); lost {
							V.Violation(t, "", log, "sweep survival: %v", err)
							return
						}
						V.HarnessError(t, "%v", err)
					}
					ds = append(ds, d)
					log = append(log, fmt.Sprintf("+%dms: %s pinned to %s", time.Since(start).Milliseconds(), d.id, d.pinned))
				}
				for _, d := range ds {
					if time.Since(d.before) > shortTimeout-300*time.Millisecond {
						continue
					}
					got, err := request("INFO", "c04sv-"+d.id, "f"+d.id, "t"+d.id)
					age := time.Since(d.before)
					V.Eval()
					if err != nil || len(got) != 1 {
						if _, lost := err.(labLost); lost || err == nil {
							V.Violation(t, "", log, "sweep survival: in-dialog INFO of %s not delivered to exactly one backend: %v\n%s", d.id, err, labDescribe(got))
							return
						}
						V.HarnessError(t, "%v", err)
					}
					if age > shortTimeout-100*time.Millisecond {
						continue // slow run: may have been handled after the timeout
					}
					d.probes++
					if k := c04BackendKey(got[0]); k != d.pinned {
						log = append(log, fmt.Sprintf("+%dms: INFO of %s (pinned %d ms ago) arrived at %s", time.Since(start).Milliseconds(), d.id, age.Milliseconds(), k))
						V.Violation(t, "", log, "sweep survival: dialog %s was pinned to %s only %v ago (dialog timeout %v) but its in-dialog INFO arrived at %s - the pin did not survive\nlog: %v", d.id, d.pinned, age.Round(time.Millisecond), shortTimeout, k, log)
						return
					}
					if time.Since(start) > shortTimeout {
						V.Class("sweep survival: young pin probed across a sweep period")
						V.NonTrivial(fmt.Sprintf("sv|%s|%d", d.id, d.probes))
					}
				}
				time.Sleep(50 * time.Millisecond)
			}
			V.Sample(map[string]any{"sweep_survival_round": round, "dialogs": len(ds), "log_head": log[:min(len(log), 4)]})
		}
	})
}

//verif:needs core,sip,lab
package main

// C01 - relaying leaves everything the proxy does not own untouched.
// Engine: lab. Oracle: the bytes that arrive at the (single) destination are
// read by the independent reader and compared with the input: start line,
// ordered (name, value) list of the headers the proxy does not own, exactly
// one Content-Length = body length, body bytes.

import (
	"bufio"
	"fmt"
	"net"
	"strconv"
	"strings"
	"testing"
	"time"

	"pgregory.net/rapid"
)

func c01NonTrivial(m *AMsg) bool {
	hasExt := false
	for _, h := range m.Hdrs {
		if h.Kind != hExt {
			continue
		}
		hasExt = true
		if len(h.Value) > 4096 || h.Name != strings.ToUpper(h.Name[:1])+h.Name[1:] {
			return true
		}
		for i := 0; i < len(h.Value); i++ {
			if !strings.ContainsRune(tokAlpha+tokSpecial, rune(h.Value[i])) {
				return true
			}
		}
	}
	return hasExt && len(m.Body) > 0
}

func c01Classes(m *AMsg, path string, tcpIn bool, at labRx) {
	V.Class("path:" + path)
	V.ClassIf(tcpIn, "ingress:tcp")
	V.ClassIf(!tcpIn, "ingress:udp")
	V.ClassIf(at.tcp != nil, "egress:tcp")
	V.ClassIf(at.tcp == nil, "egress:udp")
	long, nul, odd := false, false, false
	for _, h := range m.Hdrs {
		if len(h.Value) > 4096 {
			long = true
		}
		if h.Kind == hCL && h.Name != "Content-Length" {
			odd = true
		}
	}
	for _, b := range m.Body {
		if b == 0 || b == '\r' || b == '\n' {
			nul = true
			break
		}
	}
	V.ClassIf(long, "header line > 4096 bytes")
	V.ClassIf(nul, "body has NUL/CR/LF")
	V.ClassIf(odd, "non-canonical Content-Length spelling")
	V.ClassIf(len(m.Body) > 4096, "body > 4096 bytes")
	V.ClassIf(!m.IsReq || !m.RURI.IsSIP(), "response or tel/urn Request-URI")
}

func TestC01(t *testing.T) {
	V.Rule("lab: well-formed requests (any method token; sip/sips/tel/urn Request-URI with users, passwords, ports, valued/valueless parameters, URI headers) and responses (100-699), 0-40 extension headers (token names incl. compact/odd-case/repeated; values empty, long around the 4096/8192/16384 windows, rich in % \" ; , < > = : @ ?, UTF-8, invalid UTF-8, NUL/TAB, white-space-like runes at the edges), any From/To/Call-ID/CSeq, bodies 0-60 KiB of arbitrary bytes, drawn header-name spelling, list layout and header interleaving; relayed over the four paths (backend, Route, static route, response by Via), UDP and TCP ingress/egress, listen entries with different settings; output read by the independent reader. non-trivial = >= 1 extension header and (a value with a non-token byte or > 4096 bytes, or a non-canonical spelling, or a non-empty body); distinct by input bytes + path")
	V.Assume("outside the domain and not generated: folded lines, blanks before the colon, runs of blanks in the start line, messages without Content-Length, CR/LF inside values")
	V.Require("a tcp next hop that stops reading for seconds with megabytes under way", "Content-Length written with leading zeros", "a second request with the Via stack and method of the one before, other content", "pipelined over tcp", "path:backend", "path:route", "path:static", "path:response", "ingress:tcp", "ingress:udp", "egress:tcp", "egress:udp", "header line > 4096 bytes", "body has NUL/CR/LF", "non-canonical Content-Length spelling", "response or tel/urn Request-URI")
	svc, err := newStdSvc(stdVariant{Keep: "", Default: false, NoReceived: [3]string{"", "true", ""}, MustRR: [3]string{"", "true", ""}})
	if err != nil {
		V.HarnessError(t, "cannot start lab instance: %v", err)
	}
	svc2, err := newStdSvc(stdVariant{Keep: "on", Default: false, NoReceived: [3]string{"false", "", ""}})
	if err != nil {
		V.HarnessError(t, "cannot start lab instance: %v", err)
	}
	for _, s := range []*stdSvc{svc, svc2} {
		if err := s.primeHops(); err != nil {
			V.HarnessError(t, "priming: %v", err)
		}
	}
	pick := func(rt *rapid.T) *stdSvc {
		if rapid.IntRange(0, 2).Draw(rt, "instance") == 0 {
			return svc2
		}
		return svc
	}

	// saved inputs: relayed through the first instance, judged on the wire level
	V.Regress(t, func(c regressCase) string {
		if c.S("kind") != "relay" {
			return "skip: kind " + c.S("kind")
		}
		in, got, fail := svc.regressRelay(c)
		if fail != "" || len(got) == 0 {
			return fail
		}
		return checkContentR(in, got[0].msg)
	})

	rcheck(t, "requests", V.N(2500, 20000), func(rt *rapid.T) {
		s := pick(rt)
		rc := s.gRelayRequest(rt, relayOpts{JoinOpaque: true, Sloppy: true, Paths: []string{"backend", "route", "static"}, MaxVias: 4, MaxRRs: 2, MaxExt: 40, MaxLong: 16384, MaxBody: 60000})
		V.Journal(t.Name()+"/requests", rc)
		res, err := s.runRequest(rc)
		if _, lost := err.(labLost); lost {
			failf(rt, "%v", err)
		} else if err != nil {
			V.HarnessError(rt, "%v", err)
		}
		if res.Exp.Drop || len(res.Got) != 1 {
			// where the request goes is C03's business; C01 judges what was relayed
			if !res.Exp.Drop && len(res.Got) == 0 {
				failf(rt, "a well-formed request taking the %s path was not relayed at all (expected %+v)", rc.Path, res.Exp.Hops)
			}
			if len(res.Got) == 0 {
				return
			}
		}
		V.ClassIf(rc.Msg.CLOverride != "", "Content-Length written with leading zeros")
		c01Classes(rc.Msg, rc.Path, rc.Ingress.TCP, res.At)
		if c01NonTrivial(rc.Msg) {
			V.NonTrivial(rc.Path + "|" + string(rc.Msg.Bytes()))
		}
		V.SampleEvery(300, func() any {
			return map[string]any{"path": rc.Path, "ingress": rc.Ingress, "msg": rc.Msg.Summary(), "arrived_at": res.At.where()}
		})
		for _, r := range res.Got {
			if f := checkContent(rc.Msg, r.msg); f != "" {
				failf(rt, "%s path, arrived at %s: %s", rc.Path, r.where(), f)
			}
		}
		// Now and then another request follows from the same sender with the very
		// same Via stack (sent-by and branch included) and method but other content
		// - a sender that does not renew its branch, or a request re-sent with
		// another body: what is relayed for it is its own content all the same.
		if len(rc.Msg.Vias()) > 0 && rapid.IntRange(0, 7).Draw(rt, "a second request with the same Via stack and method") == 0 {
			sib := relayCase{Path: rc.Path, Ingress: rc.Ingress, Msg: rc.Msg.Clone(), FirstRt: rc.FirstRt, HopKind: rc.HopKind}
			for i := range sib.Msg.Hdrs {
				h := &sib.Msg.Hdrs[i]
				switch h.Kind {
				case hCallID:
					h.Value = s.nextID("sib-") + h.Value
				case hExt:
					if !interpretedNames[strings.ToLower(h.Name)] && len(h.Value) < 4096 {
						h.Value = "2nd " + h.Value
					}
				}
			}
			sib.Msg.Body = append([]byte("second request\x00\r\n"), sib.Msg.Body...)
			zeros := ""
			if cl := sib.Msg.CLOverride; cl != "" {
				// the declared length is re-computed for the sibling's own body
				zeros = cl[:len(cl)-len(strings.TrimLeft(cl, "0"))]
				if strings.TrimLeft(cl, "0") == "" {
					zeros = cl[:len(cl)-1]
				}
				sib.Msg.CLOverride = ""
			}
			if !(sib.Ingress.TCP && len(sib.Msg.Bytes()) > 63000) {
				fitUDP(sib.Msg, 63000)
			}
			if zeros != "" {
				sib.Msg.CLOverride = zeros + strconv.Itoa(len(sib.Msg.Body))
			}
			sib.Wire = jsonBytes(sib.Msg.Bytes())
			V.Journal(t.Name()+"/requests", map[string]any{"first": rc, "second_same_via_stack": sib})
			res2, err := s.runRequest(sib)
			if _, lost := err.(labLost); lost {
				failf(rt, "second request with the Via stack of the one before: %v", err)
			} else if err != nil {
				V.HarnessError(rt, "%v", err)
			}
			V.Class("a second request with the Via stack and method of the one before, other content")
			if !res2.Exp.Drop && len(res2.Got) == 0 {
				failf(rt, "a second request with the same Via stack and method as the one before it, but another Call-ID and body, was not relayed at all (%s path)", rc.Path)
			}
			for _, r := range res2.Got {
				if f := checkContent(sib.Msg, r.msg); f != "" {
					failf(rt, "second request with the Via stack and method of the one before (%s path), arrived at %s: %s", rc.Path, r.where(), f)
				}
			}
		}
	})

	// A TCP next hop that stops reading for a few seconds while megabytes are on
	// their way to it, then reads on: what it finally reads is the requests that
	// were sent, each intact, in order - however the proxy's writes fared meanwhile.
	rcheck(t, "slow-tcp-hop", V.N(1, 4), func(rt *rapid.T) {
		s := svc
		l := s.in.cfg.Listens[0]
		s.seq++
		hip, hport := s.ip(26), 9000+s.seq%20000
		ln, err := net.Listen("tcp", fmt.Sprintf("%s:%d", hip, hport))
		if err != nil {
			V.HarnessError(rt, "hop cannot listen: %v", err)
		}
		defer ln.Close()
		n := rapid.IntRange(110, 150).Draw(rt, "requests")
		pause := time.Duration(rapid.IntRange(2600, 3600).Draw(rt, "ms without reading")) * time.Millisecond
		type rx struct {
			m   *RMsg
			err error
		}
		got := make(chan rx, n+8)
		go func() {
			c, err := ln.Accept()
			if err != nil {
				got <- rx{nil, err}
				return
			}
			defer c.Close()
			time.Sleep(pause)
			rd := bufio.NewReaderSize(c, 1<<16)
			for {
				m, err := sipReadStream(rd)
				got <- rx{m, err}
				if err != nil {
					return
				}
			}
		}()
		c, err := s.in.hub.dialTCP("c01-slow", s.ip(13), l.Addr, l.TCPPort)
		if err != nil {
			failf(rt, "TCP listener does not accept: %v", err)
		}
		defer c.close()
		var sent []*RMsg
		var wires [][]byte
		for i := 0; i < n; i++ {
			id := s.nextID("slow-")
			var bb strings.Builder
			blen := rapid.IntRange(40000, 60000).Draw(rt, "body len")
			for k := 0; bb.Len() < blen; k++ {
				fmt.Fprintf(&bb, "%s/%d/%07d\x00\r\n", id, i, k)
			}
			body := bb.String()[:blen]
			w := []byte(fmt.Sprintf("MESSAGE sip:x@nomatch.example SIP/2.0\r\nVia: SIP/2.0/TCP %s:5060;branch=z9hG4bK%s\r\nMax-Forwards: 70\r\nRoute: <sip:%s:%d;transport=tcp;lr>\r\nFrom: <sip:a@a.example>;tag=f\r\nTo: <sip:x@nomatch.example>\r\nCall-ID: %s\r\nCSeq: %d MESSAGE\r\nSubject: request %d of %d\r\nContent-Length: %d\r\n\r\n%s", s.ip(13), id, hip, hport, id, i+1, i+1, n, len(body), body))
			m, err := sipRead(w)
			if err != nil {
				V.HarnessError(rt, "own message unreadable: %v", err)
			}
			sent = append(sent, m)
			wires = append(wires, w)
		}
		V.Journal(t.Name()+"/slow-tcp-hop", map[string]any{"hop": fmt.Sprintf("%s:%d", hip, hport), "requests": n, "pause_ms": pause.Milliseconds()})
		wdone := make(chan error, 1)
		go func() {
			for _, w := range wires {
				c.conn.SetWriteDeadline(time.Now().Add(60 * time.Second))
				if _, err := c.conn.Write(w); err != nil {
					wdone <- err
					return
				}
			}
			wdone <- nil
		}()
		total := 0
		for _, w := range wires {
			total += len(w)
		}
		V.Class("a tcp next hop that stops reading for seconds with megabytes under way")
		V.NonTrivial(fmt.Sprintf("slow|%d|%d", n, total))
		V.EvalN(n)
		budget := newPatience(pause + 40*time.Second)
		for i := 0; i < n; i++ {
			r, ok, _ := patientRecvP(got, budget, pause+40*time.Second)
			if !ok {
				failf(rt, "a TCP next hop that did not read for %v and then read on: %d of %d requests (%d bytes in all) arrived within 40 s of its reading again; the rest never came", pause, i, n, total)
			}
			if r.err != nil {
				failf(rt, "a TCP next hop that did not read for %v and then read on: after %d of %d intact requests its stream can no longer be framed (%v) - it does not consist of the requests that were sent", pause, i, n, r.err)
			}
			if f := checkContentR(sent[i], r.m); f != "" {
				failf(rt, "a TCP next hop that did not read for %v and then read on: message %d of its stream is not request %d as sent: %s", pause, i+1, i+1, f)
			}
		}
		if err, ok := patientRecv(wdone, 30*time.Second); ok && err != nil {
			failf(rt, "the proxy closed the client's connection, which carried only well-formed requests: %v", err)
		}
	})

	rcheck(t, "responses", V.N(1000, 8000), func(rt *rapid.T) {
		s := pick(rt)
		rc := s.gRelayResponse(rt, 40, 16384, 60000)
		V.Journal(t.Name()+"/responses", rc)
		res, err := s.runResponse(rc)
		if _, lost := err.(labLost); lost {
			failf(rt, "%v", err)
		} else if err != nil {
			V.HarnessError(rt, "%v", err)
		}
		if !res.Ok {
			return
		}
		if len(res.Got) == 0 {
			failf(rt, "a well-formed response whose second Via names %+v was not relayed at all", res.Hop)
		}
		c01Classes(rc.Msg, "response", false, res.Got[0])
		if c01NonTrivial(rc.Msg) {
			V.NonTrivial("response|" + string(rc.Msg.Bytes()))
		}
		V.SampleEvery(300, func() any {
			return map[string]any{"path": "response", "from": rc.From, "msg": rc.Msg.Summary(), "arrived_at": res.Got[0].where()}
		})
		for _, r := range res.Got {
			if f := checkContent(rc.Msg, r.msg); f != "" {
				failf(rt, "response path, arrived at %s: %s", r.where(), f)
			}
		}
	})

	// pipelined requests on one TCP connection (and bursts on one UDP socket):
	// a message that waits in the proxy's queue while later ones are decoded
	// must still be relayed with its own bytes
	rcheck(t, "pipelined", V.N(150, 1500), func(rt *rapid.T) {
		s := pick(rt)
		entry := rapid.IntRange(0, 1).Draw(rt, "entry")
		l := s.in.cfg.Listens[entry]
		tcp := rapid.IntRange(0, 2).Draw(rt, "tcp") > 0
		k := rapid.IntRange(2, 14).Draw(rt, "requests")
		var msgs []*AMsg
		var wires [][]byte
		total := 0
		for i := 0; i < k; i++ {
			maxBody := 6000
			if !tcp {
				maxBody = 2500
			}
			m := gAnyMsg(rt, fmt.Sprintf("m%d", i), anyOpts{MaxExt: 5, MaxLong: 0, MaxBody: maxBody})
			m.IsReq, m.Method, m.RURI, m.Version = true, gMethod(rt, "method"), s.gServiceRURI(rt, "ruri", s.model.transport(entry, map[bool]string{true: "tcp", false: "udp"}[tcp])), "SIP/2.0"
			if len(m.Body) == 0 && rapid.Bool().Draw(rt, "forcebody") {
				m.Body = gBody(rt, "body2", maxBody)
			}
			var hs []AHdr
			for _, h := range m.Hdrs {
				switch h.Kind {
				case hRoute:
					continue
				case hCallID:
					h.Value = s.nextID("c01p-")
				case hTo:
					h.NAs = []ANameAddr{{URI: AURI{Scheme: "sip", User: "x", Host: "nomatch.example"}}}
				case hCSeq:
					h.Value = "1 " + m.Method
				}
				hs = append(hs, h)
			}
			m.Hdrs = hs
			if total+len(m.Bytes()) > 50000 && !tcp {
				break
			}
			total += len(m.Bytes())
			msgs = append(msgs, m)
			wires = append(wires, m.Bytes())
		}
		var send func([]byte) error
		src := s.ip(13)
		if tcp {
			c, err := s.in.hub.dialTCP("pipeline", src, l.Addr, l.TCPPort)
			if err != nil {
				failf(rt, "TCP listener does not accept: %v", err)
			}
			defer c.close()
			send = c.send
		} else {
			ua := s.uas[3]
			send = func(b []byte) error { return ua.sendUDP(l.Addr, l.UDPPort, b) }
		}
		V.Journal(t.Name()+"/pipelined", map[string]any{"tcp": tcp, "requests": len(msgs), "bytes": total})
		for _, m := range msgs {
			s.model.learnRequest(s.model.transport(entry, map[bool]string{true: "tcp", false: "udp"}[tcp]), src, m)
		}
		s.in.expect(wires...)
		if tcp {
			// all of them in one write: they arrive pipelined
			var all []byte
			for _, w := range wires {
				all = append(all, w...)
			}
			if err := send(all); err != nil {
				V.HarnessError(rt, "send: %v", err)
			}
		} else {
			for _, w := range wires {
				send(w)
			}
		}
		rs, err := s.in.settle(send, len(msgs))
		if _, lost := err.(labLost); lost {
			failf(rt, "%v", err)
		} else if err != nil {
			V.HarnessError(rt, "%v", err)
		}
		got := labMessages(rs)
		V.Class("path:pipelined")
		V.ClassIf(tcp, "pipelined over tcp")
		V.NonTrivial(fmt.Sprintf("pipelined|%v|%x", tcp, hash64(string(wires[0]))))
		byID := map[string][]labRx{}
		for _, r := range got {
			id, _ := r.msg.First(hCallID)
			byID[id] = append(byID[id], r)
		}
		for i, m := range msgs {
			rs := byID[m.First(hCallID).Value]
			if len(rs) != 1 {
				failf(rt, "request %d of %d pipelined requests (tcp=%v) was relayed %d times", i+1, len(msgs), tcp, len(rs))
			}
			if f := checkContent(m, rs[0].msg); f != "" {
				failf(rt, "request %d of %d pipelined requests (tcp=%v): %s", i+1, len(msgs), tcp, f)
			}
		}
	})
}

//verif:needs core,sip,lab
package main

// C05 - unpinned requests rotate evenly over the backends registered right now.
// Engine: unit (RoundRobinBackend with recording Backend doubles).
// Oracle is behavioural (windows of k distinct members per segment, member of
// the current set, closed exactly once, nothing after removal, error when
// empty) and independent of the cursor arithmetic.

import (
	"bufio"
	"fmt"
	"net"
	"os"
	"runtime"
	"strings"
	"sync"
	"sync/atomic"
	"testing"
	"time"

	"pgregory.net/rapid"
)

type c05Double struct {
	addr   string
	gen    int
	recv   int64
	closed int64
	log    *[]*c05Double
	mu     *sync.Mutex
}

func (d *c05Double) Send(msg *Message) error {
	atomic.AddInt64(&d.recv, 1)
	if d.log != nil {
		*d.log = append(*d.log, d)
	}
	if msg != nil {
		msg.headers = append(msg.headers, &Header{name: "hit", value: d})
	}
	return nil
}
func (d *c05Double) GetAddress() string { return d.addr }
func (d *c05Double) Close()             { atomic.AddInt64(&d.closed, 1) }

// c05Run executes a sequential op string against a fresh pool and checks the
// oracle after every step. ops: "+a" add, "-a" remove, "." dispatch.
type c05Op struct {
	Kind byte // '+', '-', '.'
	Addr int
}

func c05OpsString(ops []c05Op) string {
	var sb strings.Builder
	for _, o := range ops {
		if o.Kind == '.' {
			sb.WriteByte('.')
		} else {
			sb.WriteByte(o.Kind)
			sb.WriteByte(byte('a' + o.Addr))
		}
	}
	return sb.String()
}

type c05Result struct {
	segAfterRemoval bool // a segment with k>=2 and >=k+1 dispatches that follows a removal
	dispatches      int
}

func c05Run(ops []c05Op, naddr int) (res c05Result, fail string) {
	defer func() {
		if r := recover(); r != nil {
			fail = fmt.Sprintf("panic: %v", r)
		}
	}()
	rb := NewRoundRobinBackend()
	var log []*c05Double
	cur := map[int]*c05Double{} // model: current members
	var all []*c05Double
	gen := 0
	// current segment
	var seg []*c05Double
	segFollowsRemoval := false
	for i, op := range ops {
		switch op.Kind {
		case '+':
			gen++
			d := &c05Double{addr: fmt.Sprintf("10.0.0.%d:5060", op.Addr+1), gen: gen, log: &log}
			all = append(all, d)
			rb.AddBackend(d)
			cur[op.Addr] = d
			seg = nil
			segFollowsRemoval = false
		case '-':
			d, present := cur[op.Addr]
			rb.RemoveBackend(fmt.Sprintf("10.0.0.%d:5060", op.Addr+1))
			if present {
				delete(cur, op.Addr)
				if c := atomic.LoadInt64(&d.closed); c != 1 {
					return res, fmt.Sprintf("step %d: removed backend %s closed %d times, want exactly once", i, d.addr, c)
				}
				seg = nil
				segFollowsRemoval = true
			}
			// removing an absent address must be a no-op: segment continues
		case '.':
			before := len(log)
			err := rb.Send(&Message{})
			res.dispatches++
			if len(cur) == 0 {
				if err == nil || len(log) != before {
					return res, fmt.Sprintf("step %d: dispatch with no backend registered returned err=%v and reached %d backends; want an error and no delivery", i, err, len(log)-before)
				}
				continue
			}
			if err != nil {
				return res, fmt.Sprintf("step %d: dispatch failed with %v although %d backends are registered", i, err, len(cur))
			}
			if len(log) != before+1 {
				return res, fmt.Sprintf("step %d: one dispatch reached %d backends", i, len(log)-before)
			}
			hit := log[len(log)-1]
			member := false
			for _, d := range cur {
				if d == hit {
					member = true
				}
			}
			if !member {
				return res, fmt.Sprintf("step %d: dispatch went to %s (generation %d), which is not registered at that moment", i, hit.addr, hit.gen)
			}
			seg = append(seg, hit)
			k := len(cur)
			if len(seg) >= k {
				w := seg[len(seg)-k:]
				seen := map[*c05Double]bool{}
				for _, d := range w {
					seen[d] = true
				}
				if len(seen) != k {
					names := []string{}
					for _, d := range w {
						names = append(names, d.addr)
					}
					return res, fmt.Sprintf("step %d: the last %d consecutive dispatches over %d backends went to %v - not each backend exactly once", i, k, k, names)
				}
			}
			if segFollowsRemoval && k >= 2 && len(seg) >= k+1 {
				res.segAfterRemoval = true
			}
		}
		// global invariants
		for _, d := range all {
			stillMember := false
			for _, c := range cur {
				if c == d {
					stillMember = true
				}
			}
			if !stillMember {
				if c := atomic.LoadInt64(&d.closed); c != 1 {
					return res, fmt.Sprintf("step %d: backend %s (generation %d) is not registered and was closed %d times", i, d.addr, d.gen, c)
				}
			} else if c := atomic.LoadInt64(&d.closed); c != 0 {
				return res, fmt.Sprintf("step %d: registered backend %s was closed", i, d.addr)
			}
		}
		got := rb.GetAllBackend()
		if len(got) != len(cur) {
			return res, fmt.Sprintf("step %d: pool reports %d backends, %d registered", i, len(got), len(cur))
		}
	}
	return res, ""
}

func TestC05(t *testing.T) {
	V.Rule("unit: add/remove/dispatch histories on the round-robin pool with recording doubles - exhaustive for all sequences up to length 6 (thorough: 7) over 4 addresses (never adding a present address; removing an absent one allowed), rapid state-machine histories up to 400 steps over 5 addresses with dispatch bursts, histories up to 40 steps over the real UDP/TCP backend objects (one local address, receptions observed at harness sockets, closed-socket check on removal; now and then a registered UDP backend's socket closed for one round of dispatches and bound again; the pool assembled from the constructors or, as the running proxy does, by CreateRoundRobinBackend over backend URLs and changed through hostIPChanged), and racing plans (dispatch goroutines vs add/remove goroutines, logical clock). non-trivial = history with a segment of k>=2 backends and >=k+1 dispatches that follows a removal; distinct by op string / plan")
	V.Assume("across a membership change the property fixes nothing about where the rotation resumes, so the oracle does not either")
	V.Require("segment after removal", "dispatch on empty pool", "remove absent address")

	t.Run("exhaustive", func(t *testing.T) {
		if V.replay && V.only == "" {
			return
		}
		maxLen := 6
		if V.Thorough() {
			maxLen = 7
		}
		const naddr = 4
		syms := []c05Op{{'.', 0}}
		for a := 0; a < naddr; a++ {
			syms = append(syms, c05Op{'+', a}, c05Op{'-', a})
		}
		count := 0
		ok := true
		var rec func(ops []c05Op, present uint, removedAbsent bool, emptyDispatch bool) bool
		rec = func(ops []c05Op, present uint, removedAbsent bool, emptyDispatch bool) bool {
			if len(ops) == maxLen {
				// every prefix is checked inside c05Run, so full-length sequences cover all shorter ones
				desc := c05OpsString(ops)
				if !V.OnlyMatch(desc) {
					return true
				}
				count++
				if V.only == "" && count%V.nshards != V.shard {
					return true
				}
				V.Eval()
				res, fail := c05Run(ops, naddr)
				if res.segAfterRemoval {
					V.Class("segment after removal")
					V.NonTrivial(desc)
				}
				V.ClassIf(emptyDispatch, "dispatch on empty pool")
				V.ClassIf(removedAbsent, "remove absent address")
				if count%200003 == 1 {
					V.Sample(desc)
				}
				if fail != "" {
					V.Violation(t, desc, desc, "%s", fail)
					return false
				}
				return true
			}
			for _, s := range syms {
				np := present
				ra, ed := removedAbsent, emptyDispatch
				switch s.Kind {
				case '+':
					if present&(1<<uint(s.Addr)) != 0 {
						continue
					}
					np |= 1 << uint(s.Addr)
				case '-':
					if present&(1<<uint(s.Addr)) == 0 {
						ra = true
					}
					np &^= 1 << uint(s.Addr)
				case '.':
					if present == 0 {
						ed = true
					}
				}
				if !rec(append(ops, s), np, ra, ed) {
					return false
				}
			}
			return true
		}
		ok = rec(make([]c05Op, 0, maxLen), 0, false, false)
		V.Exhaustive(ok && V.only == "")
		V.Extra("exhaustive_subspace", fmt.Sprintf("all %d-step sequences (every prefix checked) over {dispatch, add a, remove a | 4 addresses}: %d sequences over all shards", maxLen, count))
	})

	rcheck(t, "random", V.N(2000, 10000), func(rt *rapid.T) {
		const naddr = 5
		var ops []c05Op
		present := map[int]bool{}
		steps := rapid.IntRange(1, 60).Draw(rt, "steps")
		for i := 0; i < steps && len(ops) < 400; i++ {
			switch rapid.IntRange(0, 3).Draw(rt, "op") {
			case 0:
				a := rapid.IntRange(0, naddr-1).Draw(rt, "add")
				if present[a] {
					continue
				}
				present[a] = true
				ops = append(ops, c05Op{'+', a})
			case 1:
				a := rapid.IntRange(0, naddr-1).Draw(rt, "remove")
				delete(present, a)
				ops = append(ops, c05Op{'-', a})
			default:
				n := rapid.IntRange(0, 40).Draw(rt, "burst")
				for j := 0; j < n && len(ops) < 400; j++ {
					ops = append(ops, c05Op{'.', 0})
				}
			}
		}
		desc := c05OpsString(ops)
		V.Case(desc)
		res, fail := c05Run(ops, naddr)
		if res.segAfterRemoval {
			V.Class("segment after removal")
			V.NonTrivial(desc)
		}
		V.SampleEvery(100, func() any { return desc })
		if fail != "" {
			failf(rt, "%s", fail)
		}
	})

	rcheck(t, "racing", V.N(20, 200), func(rt *rapid.T) {
		procs := rapid.SampledFrom([]int{2, 4, 16}).Draw(rt, "gomaxprocs")
		nDisp := rapid.IntRange(1, 6).Draw(rt, "dispatchers")
		nMut := rapid.IntRange(1, 3).Draw(rt, "mutators")
		perDisp := rapid.IntRange(50, 2000).Draw(rt, "dispatches each")
		perMut := rapid.IntRange(5, 200).Draw(rt, "changes each")
		plan := fmt.Sprintf("procs=%d dispatchers=%d x %d, mutators=%d x %d", procs, nDisp, perDisp, nMut, perMut)
		V.Case(plan)
		V.NonTrivial(plan)
		V.Class("racing plan")
		V.SampleEvery(5, func() any { return plan })
		old := runtime.GOMAXPROCS(procs)
		defer runtime.GOMAXPROCS(old)

		type life struct {
			d        *c05Double
			addStart int64
			remEnd   int64 // 0 = still registered
		}
		var clk int64
		rb := NewRoundRobinBackend()
		perm := &c05Double{addr: "10.9.9.9:5060"}
		rb.AddBackend(perm)
		var lmu sync.Mutex
		lives := map[*c05Double]*life{perm: {d: perm, addStart: 0}}
		var wg sync.WaitGroup
		var failMu sync.Mutex
		failMsg := ""
		setFail := func(s string) {
			failMu.Lock()
			if failMsg == "" {
				failMsg = s
			}
			failMu.Unlock()
		}
		type hitRec struct {
			d    *c05Double
			s, e int64
		}
		hits := make([][]hitRec, nDisp)
		for m := 0; m < nMut; m++ {
			wg.Add(1)
			go func(m int) {
				defer wg.Done()
				defer func() {
					if r := recover(); r != nil {
						setFail(fmt.Sprintf("panic in a membership change: %v", r))
					}
				}()
				// each mutator owns its own two addresses (an address is never added while present)
				var mine [2]*c05Double
				for i := 0; i < perMut; i++ {
					slot := i % 2
					addr := fmt.Sprintf("10.1.%d.%d:5060", m, slot)
					if mine[slot] == nil {
						d := &c05Double{addr: addr, gen: i}
						l := &life{d: d, addStart: atomic.AddInt64(&clk, 1)}
						lmu.Lock()
						lives[d] = l
						lmu.Unlock()
						rb.AddBackend(d)
						atomic.AddInt64(&clk, 1)
						mine[slot] = d
					} else {
						d := mine[slot]
						atomic.AddInt64(&clk, 1)
						rb.RemoveBackend(addr)
						end := atomic.AddInt64(&clk, 1)
						lmu.Lock()
						lives[d].remEnd = end
						lmu.Unlock()
						if c := atomic.LoadInt64(&d.closed); c != 1 {
							setFail(fmt.Sprintf("removed backend %s closed %d times", addr, c))
						}
						mine[slot] = nil
					}
					if i%7 == 0 {
						runtime.Gosched()
					}
				}
			}(m)
		}
		for g := 0; g < nDisp; g++ {
			wg.Add(1)
			go func(g int) {
				defer wg.Done()
				defer func() {
					if r := recover(); r != nil {
						setFail(fmt.Sprintf("panic in a dispatch: %v", r))
					}
				}()
				for i := 0; i < perDisp; i++ {
					msg := &Message{}
					s := atomic.AddInt64(&clk, 1)
					err := rb.Send(msg)
					e := atomic.AddInt64(&clk, 1)
					if err != nil {
						setFail(fmt.Sprintf("dispatch failed with %v although one backend is permanently registered", err))
						return
					}
					if len(msg.headers) != 1 {
						setFail(fmt.Sprintf("one dispatch reached %d backends", len(msg.headers)))
						return
					}
					hits[g] = append(hits[g], hitRec{msg.headers[0].value.(*c05Double), s, e})
				}
			}(g)
		}
		wg.Wait()
		if failMsg != "" {
			failf(rt, "%s [%s]", failMsg, plan)
		}
		total := int64(0)
		for g := range hits {
			for _, h := range hits[g] {
				l := lives[h.d]
				if l == nil {
					failf(rt, "dispatch hit an unknown backend %s", h.d.addr)
				}
				if h.e < l.addStart || (l.remEnd != 0 && h.s > l.remEnd) {
					failf(rt, "dispatch in logical interval [%d,%d] went to %s, registered only during [%d,%d] [%s]", h.s, h.e, h.d.addr, l.addStart, l.remEnd, plan)
				}
			}
			total += int64(len(hits[g]))
		}
		sum := int64(0)
		for d := range lives {
			sum += atomic.LoadInt64(&d.recv)
		}
		if sum != total || total != int64(nDisp*perDisp) {
			failf(rt, "accounting: %d dispatches issued, %d recorded, backends received %d [%s]", nDisp*perDisp, total, sum, plan)
		}
	})

	c05Real(t)
	c05ProxyEmptyPool(t)
	c05Lab(t)
}

// c05Real: the same add / remove / dispatch histories over the product's real
// UDP and TCP backend objects (NewUDPBackend / NewTCPBackend as the
// configuration path creates them, all with the same local address), observed
// at harness sockets: what a dispatch reaches, and that a removed backend's
// socket is closed while those of the remaining backends keep working.
func c05Real(t *testing.T) {
	if os.Getenv("VERIF_RACE") != "" {
		return
	}
	V.Require("real sockets: a registered udp backend down for one round, then back", "real sockets: pool built by CreateRoundRobinBackend, changed through hostIPChanged", "real sockets: dispatch after a removal", "real sockets: backend added after a removal", "real sockets: tcp backend")
	n := labReserve()
	hub := newLabHub()
	const naddr = 5
	type target struct {
		proto string
		ip    string
		ep    *labEP
	}
	var targets []target
	for i := 0; i < naddr; i++ {
		proto := "udp"
		if i == 3 {
			proto = "tcp"
		}
		ip := n.ip(210, 1+i)
		var ep *labEP
		var err error
		if proto == "udp" {
			ep, err = hub.udpEP("backend", ip, 5080)
		} else {
			ep, err = hub.tcpEP("backend", ip, 5080)
		}
		if err != nil {
			V.HarnessError(t, "endpoint: %v", err)
		}
		targets = append(targets, target{proto, ip, ep})
	}
	local := n.ip(210, 100) + ":0"
	req, err := ParseMessage(bufio.NewReader(strings.NewReader("OPTIONS sip:svc.test SIP/2.0\r\nVia: SIP/2.0/UDP 127.0.0.9:9;branch=z9hG4bKc05\r\nCall-ID: c05real\r\nCSeq: 1 OPTIONS\r\nContent-Length: 0\r\n\r\n")))
	if err != nil {
		V.HarnessError(t, "%v", err)
	}
	rcheck(t, "real-sockets", V.N(120, 1500), func(rt *rapid.T) {
		// The pool is assembled either from the constructors directly or the way the
		// running proxy does it: CreateRoundRobinBackend over the configured backend
		// URLs, later additions and removals through hostIPChanged (the entry point
		// of the resolver's notifications).
		viaConfig := rapid.Bool().Draw(rt, "pool built by CreateRoundRobinBackend / changed by hostIPChanged")
		var rb *RoundRobinBackend
		cur := map[int]Backend{}
		var hist []string
		if viaConfig {
			V.Class("real sockets: pool built by CreateRoundRobinBackend, changed through hostIPChanged")
			k0 := rapid.IntRange(1, 3).Draw(rt, "configured")
			var urls []string
			first := rapid.IntRange(0, naddr-1).Draw(rt, "first configured")
			for j := 0; j < k0; j++ {
				a := (first + j) % naddr
				urls = append(urls, fmt.Sprintf("%s://%s:5080", targets[a].proto, targets[a].ip))
				hist = append(hist, fmt.Sprintf("cfg%d", a))
			}
			var err error
			rb, err = CreateRoundRobinBackend(local, urls, func(net.Conn) {})
			if err != nil || rb == nil {
				failf(rt, "CreateRoundRobinBackend(%q, %v) failed: %v", local, urls, err)
			}
			all := rb.GetAllBackend()
			for j := 0; j < k0; j++ {
				a := (first + j) % naddr
				cur[a] = all[targets[a].ip+":5080"]
				if cur[a] == nil {
					failf(rt, "CreateRoundRobinBackend(%q, %v): configured backend %s:5080 is not registered (registered: %d)", local, urls, targets[a].ip, len(all))
				}
			}
		} else {
			rb = NewRoundRobinBackend()
		}
		defer func() {
			for _, b := range rb.GetAllBackend() {
				b.Close()
			}
		}()
		var seg []int
		removed, addedAfterRemoval := false, false
		steps := rapid.IntRange(1, 40).Draw(rt, "steps")
		for i := 0; i < steps; i++ {
			op := rapid.IntRange(0, 5).Draw(rt, "op")
			a := rapid.IntRange(0, naddr-1).Draw(rt, "addr")
			if _, present := cur[a]; present && targets[a].proto == "udp" && len(cur) >= 2 && rapid.IntRange(0, 9).Draw(rt, "a registered udp backend is down for a moment") == 0 {
				// The backend's socket is closed while one round of dispatches passes (its
				// datagram is answered with ICMP port unreachable; what happens to that
				// round is not judged), then it is bound again: the rotation goes on over
				// all registered backends, nothing is lost and nothing fails.
				targets[a].ep.goDownUDP()
				for j := 0; j < len(cur); j++ {
					rb.Send(req)
				}
				time.Sleep(3 * time.Millisecond)
				ep, err := hub.udpEP("backend", targets[a].ip, 5080)
				if err != nil {
					V.HarnessError(rt, "endpoint cannot bind again: %v", err)
				}
				targets[a].ep = ep
				time.Sleep(time.Millisecond)
				hub.drain()
				seg = nil
				hist = append(hist, fmt.Sprintf("down/up%d", a))
				V.Class("real sockets: a registered udp backend down for one round, then back")
			}
			switch {
			case op == 0 || (op <= 2 && len(cur) == 0): // add (never a present address)
				if _, present := cur[a]; present {
					continue
				}
				tg := targets[a]
				var b Backend
				var err error
				if viaConfig {
					rb.hostIPChanged(tg.proto, local, "pool.test", []string{tg.ip}, nil, "5080", func(net.Conn) {})
					b = rb.GetAllBackend()[tg.ip+":5080"]
					if b == nil {
						failf(rt, "step %d of %v: address %s reported as new by the resolver did not join the pool", i+1, hist, tg.ip)
					}
					V.ClassIf(tg.proto == "tcp", "real sockets: tcp backend")
					cur[a] = b
					seg = nil
					hist = append(hist, fmt.Sprintf("+%d", a))
					if removed {
						addedAfterRemoval = true
					}
					continue
				}
				if tg.proto == "udp" {
					b, err = NewUDPBackend(local, fmt.Sprintf("%s:5080", tg.ip))
				} else {
					b, err = NewTCPBackend(local, fmt.Sprintf("%s:5080", tg.ip), func(net.Conn) {})
					V.Class("real sockets: tcp backend")
				}
				if err != nil {
					failf(rt, "step %d of %v: creating the %s backend %s:5080 (local address %s) failed: %v", i+1, hist, tg.proto, tg.ip, local, err)
				}
				rb.AddBackend(b)
				cur[a] = b
				seg = nil
				hist = append(hist, fmt.Sprintf("+%d", a))
				if removed {
					addedAfterRemoval = true
				}
			case op == 1: // remove (absent addresses too)
				b, present := cur[a]
				if viaConfig {
					rb.hostIPChanged(targets[a].proto, local, "pool.test", nil, []string{targets[a].ip}, "5080", func(net.Conn) {})
				} else {
					rb.RemoveBackend(fmt.Sprintf("%s:5080", targets[a].ip))
				}
				hist = append(hist, fmt.Sprintf("-%d", a))
				if !present {
					continue
				}
				delete(cur, a)
				seg = nil
				removed = true
				if targets[a].proto == "udp" {
					if err := b.Send(req); err == nil {
						failf(rt, "step %d of %v: backend %s left the rotation but its socket still sends: it was not closed", i+1, hist, targets[a].ip)
					}
				}
			default: // dispatch
				hub.drain()
				hist = append(hist, ".")
				V.Eval()
				err := rb.Send(req)
				if len(cur) == 0 {
					if err == nil {
						failf(rt, "step %d of %v: dispatch with no backend registered reported success", i+1, hist)
					}
					continue
				}
				if err != nil {
					failf(rt, "step %d of %v: dispatch failed with %v although %d backends are registered", i+1, hist, err, len(cur))
				}
				var rx labRx
				for {
					r, ok := hub.waitOne(20 * time.Second)
					if !ok {
						failf(rt, "step %d of %v: the dispatch reported success but nothing arrived at any backend address within 20 s", i+1, hist)
					}
					if r.msg != nil && !r.closed {
						rx = r
						break
					}
				}
				hit := -1
				for k, tg := range targets {
					if tg.ep == rx.ep {
						hit = k
					}
				}
				if _, member := cur[hit]; !member {
					failf(rt, "step %d of %v: dispatch arrived at %s, which is not registered at that moment", i+1, hist, rx.where())
				}
				V.ClassIf(removed, "real sockets: dispatch after a removal")
				V.ClassIf(addedAfterRemoval, "real sockets: backend added after a removal")
				seg = append(seg, hit)
				if k := len(cur); len(seg) >= k {
					seen := map[int]bool{}
					for _, h := range seg[len(seg)-k:] {
						seen[h] = true
					}
					if len(seen) != k {
						failf(rt, "step %d of %v: the last %d consecutive dispatches over %d backends went to addresses %v - not each backend exactly once", i+1, hist, k, k, seg[len(seg)-k:])
					}
				}
			}
			V.Case(hist)
		}
		if removed {
			V.NonTrivial("real|" + strings.Join(hist, ""))
		}
		V.SampleEvery(25, func() any { return strings.Join(hist, " ") })
		time.Sleep(200 * time.Microsecond)
		for _, r := range hub.drain() {
			if r.msg != nil {
				failf(rt, "a surplus message arrived at %s after %v", r.where(), hist)
			}
		}
	})
}

// c05Lab: N unpinned requests through a real listener with k UDP backends.
// c05ProxyEmptyPool: "with no backend registered the request is dropped without
// disturbing the proxy" - at the level where a request meets the pool: a Proxy
// object (the product's constructors, a recording listener double) whose pool
// is empty, filled, emptied again while requests addressed to the service are
// handled synchronously through handleRawMessage / handleDialog / HandleMessage.
type c05Listener struct{ proto string }

func (t *c05Listener) Start(MessageHandler) error       { return nil }
func (t *c05Listener) Send(string, int, *Message) error { return nil }
func (t *c05Listener) GetProtocol() string              { return t.proto }
func (t *c05Listener) GetAddress() string               { return "127.0.0.77" }
func (t *c05Listener) GetPort() int                     { return 5060 }
func (t *c05Listener) IsExit() bool                     { return false }

func c05ProxyEmptyPool(t *testing.T) {
	V.Require("proxy: request for the service while the pool is empty")
	rcheck(t, "proxy-empty-pool", V.N(300, 3000), func(rt *rapid.T) {
		p := NewProxy("svc.test", 1200, "127.0.0.77", false, NewPreConfigRoute(), NewPreConfigHostResolver(), NewSelfLearnRoute(), true, true)
		rb := NewRoundRobinBackend()
		udp := &c05Listener{"UDP"}
		p.AddItem(&ProxyItem{backend: rb, transports: []ServerTransport{udp}})
		members := map[string]*c05Double{}
		var hist []string
		settle := func() {
			patientUntil(5*time.Second, 50*time.Microsecond, func() bool { return len(p.backendChangeChannel) == 0 })
			time.Sleep(100 * time.Microsecond)
		}
		steps := rapid.IntRange(1, 12).Draw(rt, "steps")
		for i := 0; i < steps; i++ {
			switch op := rapid.IntRange(0, 4).Draw(rt, "op"); {
			case op == 0 && len(members) < 3:
				a := fmt.Sprintf("127.0.0.%d:5080", 81+len(members))
				if members[a] == nil {
					b := &c05Double{addr: a}
					members[a] = b
					rb.AddBackend(b)
					settle()
					hist = append(hist, "+"+a)
				}
			case op == 1 && len(members) > 0:
				for a := range members {
					rb.RemoveBackend(a)
					delete(members, a)
					settle()
					hist = append(hist, "-"+a)
					break
				}
			default:
				method := rapid.SampledFrom([]string{"OPTIONS", "INVITE", "CANCEL", "BYE", "INFO"}).Draw(rt, "method")
				to := "<sip:u@svc.test>"
				if method == "BYE" || method == "INFO" {
					to += ";tag=unknown" // belongs to no known dialog
				}
				wire := fmt.Sprintf("%s sip:u@svc.test SIP/2.0\r\nVia: SIP/2.0/UDP 127.0.0.9:5060;branch=z9hG4bKep%d\r\nFrom: <sip:a@b>;tag=1\r\nTo: %s\r\nCall-ID: c05-empty-%d\r\nCSeq: 1 %s\r\nContent-Length: 0\r\n\r\n", method, i, to, i, method)
				msg, err := ParseMessage(bufio.NewReader(strings.NewReader(wire)))
				if err != nil {
					V.HarnessError(rt, "%v", err)
				}
				hist = append(hist, fmt.Sprintf("%s (pool of %d)", method, len(members)))
				V.Case(hist)
				before := 0
				for _, b := range members {
					before += int(atomic.LoadInt64(&b.recv))
				}
				var panicked any
				func() {
					defer func() { panicked = recover() }()
					raw := NewRawMessage("127.0.0.9", 5060, udp, true, msg)
					m2, err := p.handleRawMessage(raw)
					if err == nil {
						p.handleDialog(raw.PeerAddr, raw.PeerPort, m2)
						p.HandleMessage(m2)
					}
				}()
				V.ClassIf(len(members) == 0, "proxy: request for the service while the pool is empty")
				if panicked != nil {
					failf(rt, "history %v: handling a %s addressed to the service with %d backends registered panicked: %v (in the running proxy this is the message loop: the process dies)", hist, method, len(members), panicked)
				}
				after := 0
				for _, b := range members {
					after += int(atomic.LoadInt64(&b.recv))
				}
				if len(members) > 0 && after != before+1 {
					failf(rt, "history %v: a %s addressed to the service with %d backends registered reached %d backends, want exactly one", hist, method, len(members), after-before)
				}
			}
		}
		V.NonTrivial(strings.Join(hist, "|"))
	})
}

func c05Lab(t *testing.T) {
	if os.Getenv("VERIF_RACE") != "" {
		return
	}
	V.Require("lab: a udp-only listen entry in front of a udp and a tcp backend", "lab: requests of pinned dialogs between the unpinned ones", "lab: rotation over real backends", "lab: a backend answered a request without a To tag", "lab: tag-less request re-using the Call-ID and From tag of an earlier one")
	var svcs []*stdSvc
	for _, v := range []stdVariant{{Pool: 1}, {Pool: 3}, {Pool: 6}, {Entry2Pool: true}} {
		s, err := newStdSvc(v)
		if err != nil {
			V.HarnessError(t, "cannot start lab instance: %v", err)
		}
		for _, b := range s.in.cfg.Listens[0].Backends {
			_, hp, _ := strings.Cut(b, "://")
			host, port := splitHostPort(hp)
			s.in.hub.udpEP("backend-udp", host, port)
		}
		svcs = append(svcs, s)
	}
	rcheck(t, "lab-rotation", V.N(40, 300), func(rt *rapid.T) {
		s := svcs[rapid.IntRange(0, len(svcs)-1).Draw(rt, "instance")]
		entry := rapid.IntRange(0, 1).Draw(rt, "entry") // entry 0: 1/3/6 backends, entry 1: 2 backends
		if s.v.Entry2Pool {
			// a listen entry with a UDP port only and one UDP, one TCP backend
			entry = 2
			V.Class("lab: a udp-only listen entry in front of a udp and a tcp backend")
		}
		l := s.in.cfg.Listens[entry]
		k := len(l.Backends)
		n := rapid.IntRange(0, 60).Draw(rt, "requests")
		ua := s.uas[rapid.IntRange(0, 3).Draw(rt, "ua")]
		send := func(b []byte) error { return ua.sendUDP(l.Addr, l.UDPPort, b) }
		var seq []string
		counts := map[string]int{}
		// Requests that belong to no dialog (no To tag) rotate whatever else they
		// share: a request sent again with the Call-ID and From tag of an earlier
		// one (an INVITE repeated with credentials, its CANCEL, a re-used Call-ID),
		// and whatever tag-less answers (100 Trying, a 401 without To tag) the
		// backends gave to earlier ones.
		var callIDs []string
		// Now and then a backend answers an INVITE with a 2xx that carries a To tag:
		// a dialog, pinned to it. Requests of such dialogs pass between the unpinned
		// ones; they go where their dialog lives (C04's subject) and have no part in
		// the rotation - the unpinned requests around them rotate as strictly as ever.
		type pinnedDlg struct{ callID, toTag string }
		var dialogs []pinnedDlg
		for i := 0; i < n; i++ {
			if len(dialogs) > 0 && rapid.IntRange(0, 2).Draw(rt, "a request of a pinned dialog passes first") == 0 {
				d := dialogs[rapid.IntRange(0, len(dialogs)-1).Draw(rt, "which dialog")]
				m := rapid.SampledFrom([]string{"ACK", "INFO", "BYE", "UPDATE", "INVITE"}).Draw(rt, "in-dialog method")
				w := []byte(fmt.Sprintf("%s sip:svc.test SIP/2.0\r\nVia: SIP/2.0/UDP %s:5060;branch=z9hG4bK%s\r\nFrom: <sip:a@b>;tag=1\r\nTo: <sip:svc@nomatch.example>;tag=%s\r\nCall-ID: %s\r\nCSeq: %d %s\r\nContent-Length: 0\r\n\r\n", m, ua.ip, s.nextID("c05d-"), d.toTag, d.callID, 100+i, m))
				s.in.expect(w)
				send(w)
				rs, err := s.in.settle(send, 1)
				if _, lost := err.(labLost); lost {
					failf(rt, "%v", err)
				} else if err != nil {
					V.HarnessError(rt, "%v", err)
				}
				if got := labMessages(rs); len(got) != 1 || !s.isBackendOf(got[0].ep, entry, got[0].tcp != nil) {
					failf(rt, "a request of a pinned dialog must reach exactly one backend; receptions:\n%s", labDescribe(got))
				}
				V.Class("lab: requests of pinned dialogs between the unpinned ones")
			}
			id := s.nextID("c05-")
			callID, method := id, rapid.SampledFrom([]string{"OPTIONS", "OPTIONS", "INVITE", "INVITE", "MESSAGE", "CANCEL", "REGISTER"}).Draw(rt, "method")
			if len(callIDs) > 0 && rapid.IntRange(0, 2).Draw(rt, "Call-ID and From tag of an earlier request") == 0 {
				callID = callIDs[rapid.IntRange(0, len(callIDs)-1).Draw(rt, "which")]
				V.Class("lab: tag-less request re-using the Call-ID and From tag of an earlier one")
			}
			callIDs = append(callIDs, callID)
			wire := []byte(fmt.Sprintf("%s sip:svc.test SIP/2.0\r\nVia: SIP/2.0/UDP %s:5060;branch=z9hG4bK%s\r\nFrom: <sip:a@b>;tag=1\r\nTo: <sip:svc@nomatch.example>\r\nCall-ID: %s\r\nCSeq: %d %s\r\nContent-Length: 0\r\n\r\n", method, ua.ip, id, callID, i+1, method))
			s.model.learnRequest(s.model.transport(entry, "udp"), ua.ip, &AMsg{IsReq: true, Hdrs: []AHdr{{Kind: hVia, Vias: []AVia{{Host: ua.ip}}}}})
			V.Journal(t.Name()+"/lab-rotation", map[string]any{"backends": k, "request": i + 1, "of": n, "so_far": seq})
			s.in.expect(wire)
			send(wire)
			rs, err := s.in.settle(send, 1)
			if _, lost := err.(labLost); lost {
				failf(rt, "%v", err)
			} else if err != nil {
				V.HarnessError(rt, "%v", err)
			}
			got := labMessages(rs)
			if len(got) != 1 || !s.isBackendOf(got[0].ep, entry, got[0].tcp != nil) {
				failf(rt, "unpinned request %d of %d must reach exactly one of the %d backends; receptions:\n%s", i+1, n, k, labDescribe(got))
			}
			b := fmt.Sprintf("%s:%d", got[0].ep.ip, got[0].ep.port)
			seq = append(seq, b)
			counts[b]++
			if got[0].tcp == nil && method == "INVITE" && callID == id && rapid.IntRange(0, 2).Draw(rt, "the backend answers 200 with a To tag") == 0 {
				resp := buildResponse(got[0].msg, 200, "OK", "t"+id, "")
				bep := got[0].ep
				bsend := func(x []byte) error { return bep.sendUDP(l.Addr, l.UDPPort, x) }
				s.in.expect(resp)
				bsend(resp)
				if _, err := s.in.settle(bsend, 1); err != nil {
					if _, lost := err.(labLost); lost {
						failf(rt, "%v", err)
					}
					V.HarnessError(rt, "%v", err)
				}
				dialogs = append(dialogs, pinnedDlg{callID, "t" + id})
			} else if got[0].tcp == nil && rapid.IntRange(0, 2).Draw(rt, "the backend answers without a To tag") == 0 {
				code, reason := 100, "Trying"
				if rapid.Bool().Draw(rt, "401") {
					code, reason = 401, "Unauthorized"
				}
				resp := buildResponse(got[0].msg, code, reason, "", "")
				bep := got[0].ep
				bsend := func(x []byte) error { return bep.sendUDP(l.Addr, l.UDPPort, x) }
				s.in.expect(resp)
				bsend(resp)
				if _, err := s.in.settle(bsend, 1); err != nil {
					if _, lost := err.(labLost); lost {
						failf(rt, "%v", err)
					}
					V.HarnessError(rt, "%v", err)
				}
				V.Class("lab: a backend answered a request without a To tag")
			}
			if len(seq) >= k {
				w := map[string]bool{}
				for _, x := range seq[len(seq)-k:] {
					w[x] = true
				}
				if len(w) != k {
					failf(rt, "the last %d consecutive unpinned requests over %d backends went to %v - not each backend exactly once", k, k, seq[len(seq)-k:])
				}
			}
		}
		for b, c := range counts {
			if c < n/k || c > (n+k-1)/k {
				failf(rt, "after %d unpinned requests over %d backends, backend %s received %d (want %d or %d): %v", n, k, b, c, n/k, (n+k-1)/k, counts)
			}
		}
		V.Class("lab: rotation over real backends")
		if n > k && k >= 2 {
			V.NonTrivial(fmt.Sprintf("lab|%d|%d|%s", k, n, s.nextID("")))
		}
		V.SampleEvery(10, func() any { return map[string]any{"backends": k, "requests": n, "counts": counts} })
	})
}

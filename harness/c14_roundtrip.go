//verif:needs core,sip
package main

// C14 - headers the proxy decodes are re-encoded without loss or distortion.
// Engine: unit. Oracle: decode-then-encode is byte-identical to the generated
// text (the generator emits the canonical spacing), accessors return the
// abstract components, encode-decode-encode is a fixpoint, pop leaves the
// rest intact. Known-finding classes (IPv6 references, ';'/'?' in the user
// part) run in a separate stream while they are listed as open.

import (
	"bufio"
	"fmt"
	"strconv"
	"strings"
	"testing"

	"pgregory.net/rapid"
)

func c14ParamsEq(a, b []AParam) bool {
	if len(a) != len(b) {
		return false
	}
	for i := range a {
		if a[i] != b[i] {
			return false
		}
	}
	return true
}

func c14URIEq(a, b AURI) bool {
	return a.Abs == b.Abs && a.Scheme == b.Scheme && a.User == b.User && a.Pass == b.Pass && a.Host == b.Host && a.Port == b.Port && c14ParamsEq(a.Params, b.Params) && c14ParamsEq(a.Hdrs, b.Hdrs)
}

func c14NonTrivialText(s string) bool {
	return strings.ContainsAny(s, "%") || strings.Contains(s, ",") || strings.Contains(s, "\"") || strings.Contains(s, "?") || strings.HasPrefix(s, "tel:") || strings.HasPrefix(s, "urn:")
}

func c14HasValueless(ps []AParam) bool {
	for _, p := range ps {
		if !p.HasV {
			return true
		}
	}
	return false
}

// c14CheckSIPURI: the oracle for one SIP URI; returns "" or the failure.
func c14CheckSIPURI(u AURI) string {
	text := u.String()
	got, err := ParseSipURI(text)
	if err != nil {
		return fmt.Sprintf("ParseSipURI(%q) failed: %v", text, err)
	}
	if s := got.String(); s != text {
		return fmt.Sprintf("SIP URI re-encoded with a difference:\n in: %q\nout: %q", text, s)
	}
	if got.Scheme != u.Scheme || got.User != u.User || got.Password != u.Pass || got.Host != u.Host {
		return fmt.Sprintf("SIP URI %q decoded as scheme=%q user=%q password=%q host=%q, want %q %q %q %q", text, got.Scheme, got.User, got.Password, got.Host, u.Scheme, u.User, u.Pass, u.Host)
	}
	if u.Port != 0 && got.GetPort() != u.Port {
		return fmt.Sprintf("SIP URI %q: GetPort()=%d, want %d", text, got.GetPort(), u.Port)
	}
	if tr, ok := u.Param("transport"); u.Port == 0 && !(ok && strings.EqualFold(tr, "tls")) && u.Scheme == "sip" && got.GetPort() != 5060 {
		return fmt.Sprintf("SIP URI %q: GetPort()=%d, want the default 5060", text, got.GetPort())
	}
	if tr, ok := u.Param("transport"); ok {
		if got.GetTransport() != tr {
			return fmt.Sprintf("SIP URI %q: GetTransport()=%q, want %q", text, got.GetTransport(), tr)
		}
	} else if got.GetTransport() != "udp" {
		return fmt.Sprintf("SIP URI %q: GetTransport()=%q, want udp", text, got.GetTransport())
	}
	seen := map[string]bool{}
	for _, p := range u.Params {
		if seen[p.K] {
			continue
		}
		seen[p.K] = true
		v, err := got.GetParameter(p.K)
		if err != nil || v != p.V {
			return fmt.Sprintf("SIP URI %q: parameter %q decoded as %q (err %v), want %q", text, p.K, v, err, p.V)
		}
	}
	seen = map[string]bool{}
	for _, h := range u.Hdrs {
		if seen[h.K] {
			continue
		}
		seen[h.K] = true
		v, err := got.GetHeader(h.K)
		if err != nil || v != h.V {
			return fmt.Sprintf("SIP URI %q: URI header %q decoded as %q (err %v), want %q", text, h.K, v, err, h.V)
		}
	}
	// through the addr-spec layer and fixpoint
	as, err := ParseAddrSpec(text)
	if err != nil || !as.IsSIPURI() || as.String() != text {
		return fmt.Sprintf("ParseAddrSpec(%q): err=%v out=%q", text, err, as)
	}
	again, err := ParseSipURI(got.String())
	if err != nil || again.String() != got.String() {
		return fmt.Sprintf("encode-decode-encode of %q is not a fixpoint", text)
	}
	return ""
}

func c14CheckNameAddrHeader(n ANameAddr, asTo bool) string {
	text := n.String()
	wantTag, hasTag := n.Tag()
	uriText := n.URI.String()
	var out, tag, addr string
	var tagErr error
	if asTo {
		v, err := ParseTo(text)
		if err != nil {
			return fmt.Sprintf("ParseTo(%q) failed: %v", text, err)
		}
		out = v.String()
		tag, tagErr = v.GetTag()
		a, err := v.GetAddrSpec()
		if err != nil {
			return fmt.Sprintf("To %q: GetAddrSpec failed: %v", text, err)
		}
		addr = a.String()
		if n.URI.IsSIP() {
			if h, err := v.GetHost(); err != nil || h != n.URI.Host {
				return fmt.Sprintf("To %q: GetHost()=%q (err %v), want %q", text, h, err, n.URI.Host)
			}
		}
		seenP := map[string]bool{}
		for _, p := range n.Params {
			if p.K == "tag" || seenP[p.K] {
				continue
			}
			seenP[p.K] = true
			if g, err := v.GetParam(p.K); err != nil || g != p.V {
				return fmt.Sprintf("To %q: parameter %q decoded as %q (err %v), want %q", text, p.K, g, err, p.V)
			}
		}
	} else {
		v, err := ParseFromSpec(text)
		if err != nil {
			return fmt.Sprintf("ParseFromSpec(%q) failed: %v", text, err)
		}
		out = v.String()
		tag, tagErr = v.GetTag()
		a, err := v.GetAddrSpec()
		if err != nil {
			return fmt.Sprintf("From %q: GetAddrSpec failed: %v", text, err)
		}
		addr = a.String()
		seenP := map[string]bool{}
		for _, p := range n.Params {
			if p.K == "tag" || seenP[p.K] {
				continue
			}
			seenP[p.K] = true
			if g, err := v.GetParam(p.K); err != nil || g != p.V {
				return fmt.Sprintf("From %q: parameter %q decoded as %q (err %v), want %q", text, p.K, g, err, p.V)
			}
		}
	}
	if out != text {
		return fmt.Sprintf("From/To value re-encoded with a difference:\n in: %q\nout: %q", text, out)
	}
	if addr != uriText {
		return fmt.Sprintf("From/To %q: address decoded as %q, want %q", text, addr, uriText)
	}
	if hasTag && (tagErr != nil || tag != wantTag) {
		return fmt.Sprintf("From/To %q: tag decoded as %q (err %v), want %q", text, tag, tagErr, wantTag)
	}
	if !hasTag && tagErr == nil {
		return fmt.Sprintf("From/To %q: a tag %q was decoded, none present", text, tag)
	}
	return ""
}

func c14CheckVia(vs []AVia, seps []string) string {
	var sb strings.Builder
	for i, v := range vs {
		if i > 0 {
			sb.WriteString(seps[i-1])
		}
		sb.WriteString(v.String())
	}
	text := sb.String()
	got, err := ParseVia(text)
	if err != nil {
		return fmt.Sprintf("ParseVia(%q) failed: %v", text, err)
	}
	if got.Size() != len(vs) {
		return fmt.Sprintf("Via %q: %d entries decoded, want %d", text, got.Size(), len(vs))
	}
	outs := strings.Split(got.String(), ",")
	if len(outs) != len(vs) {
		return fmt.Sprintf("Via %q re-encoded as %q: entry count differs", text, got.String())
	}
	for i, v := range vs {
		if outs[i] != v.String() {
			return fmt.Sprintf("Via entry %d re-encoded with a difference:\n in: %q\nout: %q", i, v.String(), outs[i])
		}
		p, err := got.GetParam(i)
		if err != nil {
			return fmt.Sprintf("Via %q: GetParam(%d): %v", text, i, err)
		}
		if p.ProtocolName != v.Proto || p.ProtocolVersion != v.Ver || p.Transport != v.Transport || p.Host != v.Host {
			return fmt.Sprintf("Via entry %q decoded as %s/%s/%s host=%q", v.String(), p.ProtocolName, p.ProtocolVersion, p.Transport, p.Host)
		}
		if v.Port != 0 && p.GetPort() != v.Port {
			return fmt.Sprintf("Via entry %q: GetPort()=%d, want %d", v.String(), p.GetPort(), v.Port)
		}
		if v.Port == 0 && v.Transport != "TLS" && p.GetPort() != 5060 {
			return fmt.Sprintf("Via entry %q: GetPort()=%d, want default 5060", v.String(), p.GetPort())
		}
		if b, _, ok := v.Param("branch"); ok {
			if g, err := p.GetBranch(); err != nil || g != b {
				return fmt.Sprintf("Via entry %q: branch decoded as %q (err %v)", v.String(), g, err)
			}
		} else if g, err := p.GetBranch(); err == nil {
			return fmt.Sprintf("Via entry %q: branch %q decoded, none present", v.String(), g)
		}
		if r, _, ok := v.Param("received"); ok {
			if g, err := p.GetReceived(); err != nil || g != r {
				return fmt.Sprintf("Via entry %q: received decoded as %q (err %v)", v.String(), g, err)
			}
		} else if g, err := p.GetReceived(); err == nil {
			return fmt.Sprintf("Via entry %q: received %q decoded, none present", v.String(), g)
		}
		if r, hasv, ok := v.Param("rport"); ok {
			if !p.HasParam("rport") {
				return fmt.Sprintf("Via entry %q: rport not seen", v.String())
			}
			if hasv {
				want, _ := strconv.Atoi(r)
				if g, err := p.GetRPort(); err != nil || g != want {
					return fmt.Sprintf("Via entry %q: rport decoded as %d (err %v)", v.String(), g, err)
				}
			}
		} else if p.HasParam("rport") {
			return fmt.Sprintf("Via entry %q: rport seen, none present", v.String())
		}
	}
	// pop leaves the other entries textually intact
	if len(vs) > 1 {
		if _, err := got.PopViaParam(); err != nil {
			return fmt.Sprintf("PopViaParam: %v", err)
		}
		outs := strings.Split(got.String(), ",")
		if len(outs) != len(vs)-1 {
			return fmt.Sprintf("after pop: %q", got.String())
		}
		for i := range outs {
			if outs[i] != vs[i+1].String() {
				return fmt.Sprintf("after PopViaParam entry %d is %q, want %q", i, outs[i], vs[i+1].String())
			}
		}
	}
	again, err := ParseVia(got.String())
	if err != nil || again.String() != got.String() {
		return fmt.Sprintf("encode-decode-encode of Via %q is not a fixpoint", got.String())
	}
	return ""
}

func c14CheckRouteList(ns []ANameAddr, seps []string, recordRoute bool) string {
	var sb strings.Builder
	for i, n := range ns {
		if i > 0 {
			sb.WriteString(seps[i-1])
		}
		sb.WriteString(n.String())
	}
	text := sb.String()
	var out string
	if recordRoute {
		rr, err := ParseRecordRoute(text)
		if err != nil {
			return fmt.Sprintf("ParseRecordRoute(%q) failed: %v", text, err)
		}
		if rr.GetRecRouteCount() != len(ns) {
			return fmt.Sprintf("Record-Route %q: %d entries decoded, want %d", text, rr.GetRecRouteCount(), len(ns))
		}
		out = rr.String()
	} else {
		r, err := ParseRoute(text)
		if err != nil {
			return fmt.Sprintf("ParseRoute(%q) failed: %v", text, err)
		}
		if r.GetRouteParamCount() != len(ns) {
			return fmt.Sprintf("Route %q: %d entries decoded, want %d", text, r.GetRouteParamCount(), len(ns))
		}
		out = r.String()
		for i, n := range ns {
			rp, _ := r.GetRouteParam(i)
			if g := rp.GetAddress().GetAddress().String(); g != n.URI.String() {
				return fmt.Sprintf("Route entry %q: address decoded as %q", n.String(), g)
			}
			if n.URI.IsSIP() {
				su, err := rp.GetAddress().GetAddress().GetSIPURI()
				if err != nil || su.Host != n.URI.Host || (n.URI.Port != 0 && su.GetPort() != n.URI.Port) || su.GetTransport() != n.URI.Transport() {
					return fmt.Sprintf("Route entry %q: host/port/transport decoded as %v", n.String(), su)
				}
			}
		}
		if len(ns) > 1 {
			r.PopRouteParam()
			rest := rSplitTop(r.String(), ',')
			for i := range rest {
				if i+1 >= len(ns) || strings.Trim(rest[i], " \t") != ns[i+1].String() {
					return fmt.Sprintf("after PopRouteParam entry %d is %q, want %q", i, rest[i], ns[i+1].String())
				}
			}
			// restore for the text comparison below
			r2, _ := ParseRoute(text)
			out = r2.String()
		}
	}
	outs := rSplitTop(out, ',')
	if len(outs) != len(ns) {
		return fmt.Sprintf("route list %q re-encoded as %q: entry count differs", text, out)
	}
	for i, n := range ns {
		if strings.Trim(outs[i], " \t") != n.String() {
			return fmt.Sprintf("route entry %d re-encoded with a difference:\n in: %q\nout: %q", i, n.String(), strings.Trim(outs[i], " \t"))
		}
	}
	return ""
}

// c14CheckMessage: typed getters run on a whole message, then Bytes().
func c14CheckMessage(m *AMsg) string {
	wire := m.Bytes()
	msg, err := ParseMessage(bufio.NewReader(strings.NewReader(string(wire))))
	if err != nil {
		return fmt.Sprintf("ParseMessage failed: %v\n%s", err, jsonBytes(wire))
	}
	msg.GetVia()
	msg.ForEachViaParam(func(*ViaParam) {})
	msg.GetRoute()
	msg.GetFrom()
	msg.GetTo()
	msg.GetCSeq()
	// everything the proxy computes from a message before it relays it
	msg.GetDialog()
	msg.GetClientTransaction()
	msg.GetServerTransaction()
	msg.GetMethod()
	msg.GetExpires(0)
	if to, err := msg.GetTo(); err == nil {
		to.GetHost()
		to.GetUserHost()
	}
	_ = msg.String()
	out, err := msg.Bytes()
	if err != nil {
		return fmt.Sprintf("Bytes failed: %v", err)
	}
	r, err := sipRead(out)
	if err != nil {
		return fmt.Sprintf("re-encoded message unreadable: %v\n%s", err, jsonBytes(out))
	}
	if r.Start != m.StartLine() {
		return fmt.Sprintf("start line re-encoded with a difference:\n in: %q\nout: %q", m.StartLine(), r.Start)
	}
	cmpList := func(kind int, want []string) string {
		got := r.Entries(kind)
		if len(got) != len(want) {
			return fmt.Sprintf("%s: %d entries after re-encoding, want %d: %q", hKindNames[kind], len(got), len(want), got)
		}
		for i := range want {
			if got[i] != want[i] {
				return fmt.Sprintf("%s entry %d re-encoded with a difference:\n in: %q\nout: %q", hKindNames[kind], i, want[i], got[i])
			}
		}
		return ""
	}
	var vias, routes, rrs []string
	for _, v := range m.Vias() {
		vias = append(vias, v.String())
	}
	for _, n := range m.NAList(hRoute) {
		routes = append(routes, n.String())
	}
	for _, n := range m.NAList(hRR) {
		rrs = append(rrs, n.String())
	}
	for _, f := range []string{cmpList(hVia, vias), cmpList(hRoute, routes), cmpList(hRR, rrs)} {
		if f != "" {
			return f
		}
	}
	for _, k := range []int{hFrom, hTo, hCSeq, hCallID} {
		want := trimBlanks(m.First(k).ValueText(0))
		got, _ := r.First(k)
		if got != want {
			return fmt.Sprintf("%s re-encoded with a difference:\n in: %q\nout: %q", hKindNames[k], want, got)
		}
	}
	// Entries consumed from one message (the proxy pops its own Via from a
	// response, its own and the next hop's Route entry from a request) are gone
	// from that message only: the same text arriving again decodes to the full
	// lists once more.
	if len(vias) > 1 || len(routes) > 0 {
		if msg3, err := ParseMessage(bufio.NewReader(strings.NewReader(string(wire)))); err == nil {
			msg3.GetVia()
			msg3.GetRoute()
			msg3.PopVia()
			msg3.PopRoute()
			msg3.PopRoute()
			msg3.Bytes()
			msg4, err := ParseMessage(bufio.NewReader(strings.NewReader(string(wire))))
			if err != nil {
				return fmt.Sprintf("the same text is not decoded a second time: %v", err)
			}
			msg4.GetVia()
			msg4.GetRoute()
			out4, _ := msg4.Bytes()
			r4, err := sipRead(out4)
			if err != nil {
				return fmt.Sprintf("second decode of the same text: re-encoded message unreadable: %v", err)
			}
			for _, kl := range []struct {
				kind int
				want []string
			}{{hVia, vias}, {hRoute, routes}, {hRR, rrs}} {
				got := r4.Entries(kl.kind)
				if len(got) != len(kl.want) {
					return fmt.Sprintf("%s: after entries were consumed from an earlier message with the same header text, the text decodes to %d entries, want %d: %q", hKindNames[kl.kind], len(got), len(kl.want), got)
				}
				for i := range kl.want {
					if got[i] != kl.want[i] {
						return fmt.Sprintf("%s entry %d differs after entries were consumed from an earlier message with the same header text:\n in: %q\nout: %q", hKindNames[kl.kind], i, kl.want[i], got[i])
					}
				}
			}
		}
	}
	// the one decoded value the proxy edits in place: received/rport on the top
	// Via entry - every other entry and parameter must survive the edit
	if len(vias) > 0 {
		msg2, err := ParseMessage(bufio.NewReader(strings.NewReader(string(wire))))
		if err == nil && msg2.SetReceived("192.0.2.77", 5099) == nil {
			out2, _ := msg2.Bytes()
			r2, err := sipRead(out2)
			if err != nil {
				return fmt.Sprintf("message unreadable after SetReceived: %v", err)
			}
			got := r2.Entries(hVia)
			if len(got) != len(vias) {
				return fmt.Sprintf("Via: %d entries after SetReceived, want %d: %q", len(got), len(vias), got)
			}
			top := stampModel(m.Vias()[0], true, "192.0.2.77", 5099)
			if f := checkStampedText(m.Vias()[0], got[0], top); f != "" {
				return f
			}
			for i := 1; i < len(vias); i++ {
				if got[i] != vias[i] {
					return fmt.Sprintf("Via entry %d changed when received/rport were set on the top entry:\n in: %q\nout: %q", i, vias[i], got[i])
				}
			}
		}
	}
	return ""
}

// checkStampedText: the stamped top entry, up to the position of a newly added received parameter.
func checkStampedText(in AVia, outText string, want AVia) string {
	ov, err := rVia(outText)
	if err != nil {
		return fmt.Sprintf("top Via entry unreadable after SetReceived: %q", outText)
	}
	strip := func(v AVia) AVia {
		var ps []AParam
		for _, p := range v.Params {
			if p.K != "received" {
				ps = append(ps, p)
			}
		}
		v.Params = ps
		return v
	}
	rcv, _, ok := ov.Param("received")
	if !ok || rcv != "192.0.2.77" || strip(ov).String() != strip(want).String() {
		return fmt.Sprintf("top Via entry after SetReceived(192.0.2.77, 5099):\n in: %q\nout: %q\nwant (received position free): %q", in.String(), outText, want.String())
	}
	return ""
}

// c14RegressMessage: the saved-input form of the message sub-check - the wire
// text is the input, the independent reader's view of it the expectation:
// after everything the proxy computes from a message, every decoded header is
// re-encoded entry by entry with the text it had.
func c14RegressMessage(wire string) string {
	in, err := sipRead([]byte(wire))
	if err != nil {
		return "skip: saved input is not a well-formed message for the independent reader: " + err.Error()
	}
	msg, err := ParseMessage(bufio.NewReader(strings.NewReader(wire)))
	if err != nil {
		return fmt.Sprintf("ParseMessage failed: %v", err)
	}
	msg.GetVia()
	msg.ForEachViaParam(func(*ViaParam) {})
	msg.GetRoute()
	msg.GetFrom()
	msg.GetTo()
	msg.GetCSeq()
	msg.GetDialog()
	msg.GetClientTransaction()
	msg.GetServerTransaction()
	msg.GetMethod()
	msg.GetExpires(0)
	if to, err := msg.GetTo(); err == nil {
		to.GetHost()
		to.GetUserHost()
	}
	_ = msg.String()
	outb, err := msg.Bytes()
	if err != nil {
		return fmt.Sprintf("Bytes failed: %v", err)
	}
	out, err := sipRead(outb)
	if err != nil {
		return fmt.Sprintf("re-encoded message unreadable: %v\n%s", err, jsonBytes(outb))
	}
	if out.Start != in.Start {
		return fmt.Sprintf("start line re-encoded with a difference:\n in: %q\nout: %q", in.Start, out.Start)
	}
	for _, kind := range []int{hVia, hRoute, hRR} {
		want, got := in.Entries(kind), out.Entries(kind)
		if len(got) != len(want) {
			return fmt.Sprintf("%s: %d entries after re-encoding, want %d: %q", hKindNames[kind], len(got), len(want), got)
		}
		for i := range want {
			if got[i] != want[i] {
				return fmt.Sprintf("%s entry %d re-encoded with a difference:\n in: %q\nout: %q", hKindNames[kind], i, want[i], got[i])
			}
		}
	}
	for _, k := range []int{hFrom, hTo, hCSeq, hCallID} {
		want, _ := in.First(k)
		got, _ := out.First(k)
		if got != want {
			return fmt.Sprintf("%s re-encoded with a difference:\n in: %q\nout: %q", hKindNames[k], want, got)
		}
	}
	a, b := in.Others(), out.Others()
	if len(a) != len(b) {
		return fmt.Sprintf("%d other header fields after re-encoding, %d before", len(b), len(a))
	}
	for i := range a {
		if a[i] != b[i] {
			return fmt.Sprintf("header field %d re-encoded with a difference:\n in: %q\nout: %q", i, a[i], b[i])
		}
	}
	if cls := out.Values(hCL); len(cls) != 1 || cls[0] != strconv.Itoa(len(out.Body)) || string(out.Body) != string(in.Body) {
		return fmt.Sprintf("Content-Length / body after re-encoding: %q, %d body bytes (%d before)", cls, len(out.Body), len(in.Body))
	}
	return ""
}

// c14RegressValue: one decoded production given as text; decode-then-encode must give the text back.
func c14RegressValue(production, text string) string {
	var out string
	var err error
	switch production {
	case "sipuri":
		var u *SIPURI
		if u, err = ParseSipURI(text); err == nil {
			out = u.String()
		}
	case "addrspec":
		var a *AddrSpec
		if a, err = ParseAddrSpec(text); err == nil {
			out = a.String()
		}
	case "from":
		var f *FromSpec
		if f, err = ParseFromSpec(text); err == nil {
			out = f.String()
		}
	case "to":
		var t *To
		if t, err = ParseTo(text); err == nil {
			out = t.String()
		}
	case "via":
		var v *Via
		if v, err = ParseVia(text); err == nil {
			out = v.String()
		}
	case "route":
		var r *Route
		if r, err = ParseRoute(text); err == nil {
			out = r.String()
		}
	case "recordroute":
		var r *RecordRoute
		if r, err = ParseRecordRoute(text); err == nil {
			out = r.String()
		}
	case "cseq":
		var c *CSeq
		if c, err = ParseCSeq(text); err == nil {
			out = c.String()
		}
	default:
		return "skip: unknown production " + production
	}
	if err != nil {
		return fmt.Sprintf("%s %q is not decoded: %v", production, text, err)
	}
	if out != text {
		return fmt.Sprintf("%s re-encoded with a difference:\n in: %q\nout: %q", production, text, out)
	}
	return ""
}

func c14Regress(c regressCase) string {
	switch c.S("kind") {
	case "message":
		return c14RegressMessage(c.S("wire"))
	case "value":
		return c14RegressValue(c.S("production"), c.S("text"))
	}
	return "skip: kind " + c.S("kind")
}

func c14GenRequestMsg(rt *rapid.T) *AMsg {
	p := msgParts{IsReq: rapid.IntRange(0, 3).Draw(rt, "isreq") > 0, Version: "SIP/2.0"}
	if p.IsReq {
		p.Method = gMethod(rt, "method")
		if rapid.IntRange(0, 3).Draw(rt, "absruri") == 0 {
			p.RURI = gAbsURI(rt, "ruri")
		} else {
			p.RURI = gSIPURI(rt, "ruri", uriOpts{})
		}
		p.CSeqMethod = p.Method
	} else {
		p.Code, p.Reason = gStatus(rt, "code"), gReason(rt, "reason")
		p.CSeqMethod = gMethod(rt, "cseqmethod")
	}
	nv := rapid.IntRange(1, 5).Draw(rt, "nvia")
	for i := 0; i < nv; i++ {
		p.Vias = append(p.Vias, gVia(rt, "via", viaOpts{}))
	}
	nr := rapid.IntRange(0, 4).Draw(rt, "nroute")
	for i := 0; i < nr; i++ {
		p.Routes = append(p.Routes, gNameAddr(rt, "route", naOpts{maxParams: 3, tag: new(string)}))
	}
	nrr := rapid.IntRange(0, 3).Draw(rt, "nrr")
	for i := 0; i < nrr; i++ {
		p.RRs = append(p.RRs, gNameAddr(rt, "rr", naOpts{maxParams: 3, tag: new(string)}))
	}
	p.From = gNameAddr(rt, "from", naOpts{allowAbs: true, allowBare: true, maxParams: 4})
	p.To = gNameAddr(rt, "to", naOpts{allowAbs: true, allowBare: true, maxParams: 4})
	p.CallID = gIdent(rt, "callid")
	p.CSeqN = rapid.IntRange(0, 1<<31-1).Draw(rt, "cseq")
	p.Ext = gExtHeaders(rt, "ext", 4, 0)
	p.Body = gBody(rt, "body", 40)
	return assemble(rt, "layout", p)
}

func TestC14(t *testing.T) {
	V.Rule("unit: values derived from a grammar of the RFC 3261 productions in use (SIP/SIPS URI, tel:/urn:, name-addr/addr-spec From/To, Via lists, Route/Record-Route lists, CSeq, whole messages through the typed getters) - decode-then-encode byte-identical, accessors equal the abstract components, encode-decode-encode fixpoint, pop keeps the rest; non-trivial = value contains '%', a valueless parameter, >=2 list entries, a display name, URI headers, tel:/urn:, a bare addr-spec with parameters or a port-less Via; distinct by text")
	V.Assume("generator emits the canonical spacing (no blanks around ; = / :, one blank between sent-protocol and sent-by, at most one blank after a list comma and between display name and '<'); parameter values are tokens; no empty-valued 'k=' parameters; no empty passwords")
	ipv6Known := V.KnownOpen("F07")
	userKnown := V.KnownOpen("F09")
	V.Regress(t, c14Regress)

	// the independent reader is validated against the generator first
	rcheck(t, "reader-vs-generator", V.N(3000, 20000), func(rt *rapid.T) {
		u := gSIPURI(rt, "uri", uriOpts{})
		got, err := rURI(u.String())
		if err != nil || !c14URIEq(got, u) {
			V.HarnessError(rt, "independent reader disagrees with generator on %q: %+v (err %v)", u.String(), got, err)
		}
		v := gVia(rt, "via", viaOpts{})
		gv, err := rVia(v.String())
		if err != nil || gv.String() != v.String() || gv.Host != v.Host || gv.Port != v.Port || !c14ParamsEq(gv.Params, v.Params) {
			V.HarnessError(rt, "independent reader disagrees with generator on via %q: %+v (err %v)", v.String(), gv, err)
		}
		n := gNameAddr(rt, "na", naOpts{allowAbs: true, allowBare: true, maxParams: 4})
		gn, err := rNameAddr(n.String())
		if err != nil || gn.String() != n.String() || gn.Display != n.Display || gn.Bare != n.Bare || !c14ParamsEq(gn.Params, n.Params) || gn.URI.String() != n.URI.String() {
			V.HarnessError(rt, "independent reader disagrees with generator on name-addr %q: %+v (err %v)", n.String(), gn, err)
		}
		V.Class("reader validated")
	})

	rcheck(t, "sipuri", V.N(20000, 300000), func(rt *rapid.T) {
		o := uriOpts{}
		if !ipv6Known && rapid.IntRange(0, 9).Draw(rt, "v6") == 0 {
			o.hostFn = func(rt *rapid.T, l string) string {
				return rapid.SampledFrom([]string{"[::1]", "[2001:db8::1]", "[fe80::1:2]"}).Draw(rt, l)
			}
		}
		if !userKnown && rapid.IntRange(0, 9).Draw(rt, "userspecial") == 0 {
			o.userFn = func(rt *rapid.T, l string) string { return gFromAlphabet(rt, l, "ab;?", 1, 5) }
		}
		u := gSIPURI(rt, "uri", o)
		text := u.String()
		V.Case(text)
		V.ClassIf(strings.Contains(text, "%"), "uri: contains %")
		V.ClassIf(c14HasValueless(u.Params), "uri: valueless parameter")
		V.ClassIf(len(u.Hdrs) > 0, "uri: URI headers")
		V.ClassIf(u.Pass != "", "uri: password")
		V.ClassIf(u.Port == 0, "uri: no port")
		if strings.Contains(text, "%") || c14HasValueless(u.Params) || len(u.Hdrs) > 0 {
			V.NonTrivial("u|" + text)
		}
		V.SampleEvery(20000, func() any { return text })
		if msg := c14CheckSIPURI(u); msg != "" {
			failf(rt, "%s", msg)
		}
	})

	rcheck(t, "absuri", V.N(5000, 50000), func(rt *rapid.T) {
		u := gAbsURI(rt, "uri")
		V.Case(u.Abs)
		as, err := ParseAddrSpec(u.Abs)
		V.Class("uri: tel/urn")
		V.NonTrivial("a|" + u.Abs)
		if err != nil {
			failf(rt, "ParseAddrSpec(%q) failed: %v", u.Abs, err)
		}
		if as.IsSIPURI() || as.String() != u.Abs {
			failf(rt, "absolute URI re-encoded with a difference:\n in: %q\nout: %q", u.Abs, as.String())
		}
		au, err := as.GetAbsoluteURI()
		if err != nil || au.String() != u.Abs {
			failf(rt, "GetAbsoluteURI of %q: %v %v", u.Abs, au, err)
		}
	})

	rcheck(t, "fromto", V.N(20000, 300000), func(rt *rapid.T) {
		n := gNameAddr(rt, "na", naOpts{allowAbs: true, allowBare: true, maxParams: 5})
		asTo := rapid.Bool().Draw(rt, "asTo")
		text := n.String()
		V.Case(map[string]any{"text": text, "as_to": asTo})
		V.ClassIf(n.Display != "", "fromto: display name")
		V.ClassIf(n.Bare && len(n.Params) > 0, "fromto: bare addr-spec with parameters")
		V.ClassIf(!n.URI.IsSIP(), "fromto: tel/urn")
		V.ClassIf(strings.Contains(text, "%"), "fromto: contains %")
		if n.Display != "" || n.Bare && len(n.Params) > 0 || !n.URI.IsSIP() || strings.Contains(text, "%") || c14HasValueless(n.Params) {
			V.NonTrivial("n|" + text)
		}
		V.SampleEvery(20000, func() any { return text })
		if msg := c14CheckNameAddrHeader(n, asTo); msg != "" {
			failf(rt, "%s", msg)
		}
	})

	rcheck(t, "via", V.N(20000, 300000), func(rt *rapid.T) {
		k := rapid.IntRange(1, 5).Draw(rt, "entries")
		var vs []AVia
		var seps []string
		for i := 0; i < k; i++ {
			vs = append(vs, gVia(rt, "via", viaOpts{}))
			if i > 0 {
				seps = append(seps, rapid.SampledFrom([]string{",", ", "}).Draw(rt, "sep"))
			}
		}
		portless := false
		texts := []string{}
		for _, v := range vs {
			portless = portless || v.Port == 0
			texts = append(texts, v.String())
		}
		V.Case(texts)
		V.ClassIf(portless, "via: port-less sent-by")
		V.ClassIf(k >= 2, "via: >=2 entries")
		if portless || k >= 2 || strings.Contains(strings.Join(texts, ","), "%") {
			V.NonTrivial("v|" + strings.Join(texts, ","))
		}
		V.SampleEvery(20000, func() any { return texts })
		if msg := c14CheckVia(vs, seps); msg != "" {
			failf(rt, "%s", msg)
		}
	})

	rcheck(t, "routes", V.N(20000, 300000), func(rt *rapid.T) {
		k := rapid.IntRange(1, 5).Draw(rt, "entries")
		rr := rapid.Bool().Draw(rt, "recordroute")
		var ns []ANameAddr
		var seps []string
		for i := 0; i < k; i++ {
			ns = append(ns, gNameAddr(rt, "entry", naOpts{maxParams: 3, tag: new(string)}))
			if i > 0 {
				seps = append(seps, rapid.SampledFrom([]string{",", ", "}).Draw(rt, "sep"))
			}
		}
		texts := []string{}
		hp := false
		for _, n := range ns {
			texts = append(texts, n.String())
			hp = hp || len(n.Params) > 0
		}
		V.Case(map[string]any{"entries": texts, "record_route": rr})
		V.ClassIf(hp, "route: header parameters")
		V.ClassIf(k >= 2, "route: >=2 entries")
		V.NonTrivial("r|" + strings.Join(texts, ","))
		V.SampleEvery(20000, func() any { return texts })
		if msg := c14CheckRouteList(ns, seps, rr); msg != "" {
			failf(rt, "%s", msg)
		}
	})

	rcheck(t, "cseq", V.N(3000, 30000), func(rt *rapid.T) {
		n := rapid.IntRange(0, 1<<31-1).Draw(rt, "n")
		m := gMethod(rt, "method")
		text := fmt.Sprintf("%d %s", n, m)
		V.Case(text)
		c, err := ParseCSeq(text)
		if err != nil {
			failf(rt, "ParseCSeq(%q) failed: %v", text, err)
		}
		if c.String() != text || c.Seq != n || c.Method != m {
			failf(rt, "CSeq re-encoded with a difference:\n in: %q\nout: %q (seq=%d method=%q)", text, c.String(), c.Seq, c.Method)
		}
	})

	rcheck(t, "message", V.N(6000, 60000), func(rt *rapid.T) {
		m := c14GenRequestMsg(rt)
		V.Case(map[string]any{"wire": jsonBytes(m.Bytes())})
		V.Class("message: typed getters then Bytes()")
		V.NonTrivial("m|" + string(m.Bytes()))
		V.SampleEvery(6000, func() any { return m.Summary() })
		if msg := c14CheckMessage(m); msg != "" {
			failf(rt, "%s", msg)
		}
	})

	// ---- known-finding stream ------------------------------------------------
	t.Run("known-findings", func(t *testing.T) {
		if V.replay {
			return
		}
		if ipv6Known {
			fails := 0
			n := 0
			for _, h := range []string{"[::1]", "[2001:db8::1]"} {
				for _, port := range []int{0, 5060} {
					u := AURI{Scheme: "sip", User: "u", Host: h, Port: port}
					n++
					V.Eval()
					if c14CheckSIPURI(u) != "" {
						fails++
					}
					v := AVia{Proto: "SIP", Ver: "2.0", Transport: "UDP", Host: h, Port: port, Params: []AParam{{K: "branch", V: "z9hG4bKa", HasV: true}}}
					n++
					V.Eval()
					if c14CheckVia([]AVia{v}, nil) != "" {
						fails++
					}
				}
			}
			V.ExtraAdd("excluded_by_construction_ipv6_witnesses", int64(n))
			if fails > 0 {
				V.KnownConfirmed(fmt.Sprintf("F07 IPv6 references are split at the first colon: %d of %d witness values (sip:u@[::1]:5060, Via SIP/2.0/UDP [2001:db8::1] ...) are not re-encoded intact", fails, n))
			}
		}
		if userKnown {
			fails, n := 0, 0
			for _, user := range []string{"a;b", "a?b", "a;b=c", "x?y=z"} {
				u := AURI{Scheme: "sip", User: user, Host: "h.test"}
				n++
				V.Eval()
				if c14CheckSIPURI(u) != "" {
					fails++
				}
			}
			V.ExtraAdd("excluded_by_construction_userpart_witnesses", int64(n))
			if fails > 0 {
				V.KnownConfirmed(fmt.Sprintf("F09 ';' or '?' in the user part is taken for the start of parameters/headers: %d of %d witness URIs (sip:a;b@h.test, sip:a?b@h.test ...) are not decoded intact", fails, n))
			}
		}
	})
	V.Require("reader validated", "uri: contains %", "uri: valueless parameter", "uri: URI headers", "uri: tel/urn", "fromto: display name", "fromto: bare addr-spec with parameters", "fromto: tel/urn", "via: port-less sent-by", "via: >=2 entries", "route: header parameters", "route: >=2 entries")
}

//verif:needs core,sip,prod,lab
package main

// C10 - a UDP datagram is processed in isolation from every other datagram.
// Engine: unit differential: the product's own parse loop (startParseMessage
// of a constructed, non-listening UDPServerTransport) is fed (dirty 64 KiB
// buffer, n) and must deliver exactly what a clean decode of d[:n] delivers;
// valid datagrams must equal the generator's abstract message, over-declared
// and header-truncated ones must deliver nothing.

import (
	"bufio"
	"bytes"
	"fmt"
	"strconv"
	"strings"
	"sync"
	"sync/atomic"
	"testing"
	"time"

	"pgregory.net/rapid"
)

type c10Loop struct {
	u   *UDPServerTransport
	out chan *Message
}

func newC10Loop() *c10Loop {
	l := &c10Loop{out: make(chan *Message, 8)}
	// the product's own constructor (no socket is opened before Start); only the
	// parse loop is started
	u, err := NewUDPServerTransport("127.0.0.1", 0, true, NewSelfLearnRoute())
	if err != nil {
		panic("verif harness: " + err.Error())
	}
	l.u = u
	go l.u.startParseMessage()
	return l
}

// (with a body, so that storage wrongly shared between consecutive datagrams is
// overwritten by the time the case is judged)
var c10Sentinel = []byte("OPTIONS sip:sentinel@verif.invalid SIP/2.0\r\nCall-ID: verif-sentinel\r\nX-Filler: " + strings.Repeat("s", 300) + "\r\nContent-Length: 64\r\n\r\n" + strings.Repeat("#", 64))

// run feeds one (buffer, n) to the product's parse loop and returns what it
// delivered (nil = nothing). A sentinel datagram queued behind it proves that
// the loop has finished with the buffer (FIFO loop).
func (l *c10Loop) run(buf []byte, n int) (*Message, error) {
	h := func(m *Message) { l.out <- m }
	l.u.msgParseChannel <- SizedByteArray{b: buf, n: n, msgHandler: h}
	// the sentinel's buffer comes from (and returns to) the transport's own pool
	sb := l.u.msgBufPool.Alloc()
	copy(sb, c10Sentinel)
	l.u.msgParseChannel <- SizedByteArray{b: sb, n: len(c10Sentinel), msgHandler: h}
	var got *Message
	for {
		m, ok := patientRecv(l.out, 20*time.Second)
		if !ok {
			return nil, fmt.Errorf("parse loop did not deliver the sentinel within 20 s (wedged or dead)")
		}
		if id, _ := m.GetCallID(); id == "verif-sentinel" && m.request != nil && m.request.requestURI.String() == "sip:sentinel@verif.invalid" {
			return got, nil
		}
		if got != nil {
			return nil, fmt.Errorf("two messages delivered for one datagram")
		}
		got = m
	}
}

// runSeq queues all datagrams back-to-back (each in its own recycled-looking
// buffer taken from and returned to the transport's pool by the loop), waits
// for the sentinel and only then looks at what was delivered: a message must
// still be intact after later datagrams have been decoded.
func (l *c10Loop) runSeq(datagrams [][]byte) ([]*Message, error) {
	var got []*Message
	done := make(chan struct{})
	sentinels := 0
	h := func(m *Message) {
		if id, _ := m.GetCallID(); id == "verif-sentinel" {
			sentinels++
			if sentinels == 1 {
				close(done)
			} else {
				// the sentinel datagram was delivered twice: record it as a delivery,
				// the sequence oracle then reports the surplus message
				got = append(got, m)
			}
			return
		}
		got = append(got, m)
	}
	go func() {
		for _, d := range datagrams {
			buf := l.u.msgBufPool.Alloc()
			copy(buf, d)
			l.u.msgParseChannel <- SizedByteArray{b: buf, n: len(d), msgHandler: h}
		}
		sb := l.u.msgBufPool.Alloc()
		copy(sb, c10Sentinel)
		l.u.msgParseChannel <- SizedByteArray{b: sb, n: len(c10Sentinel), msgHandler: h}
	}()
	if _, ok := patientRecv(done, 20*time.Second); !ok {
		return nil, fmt.Errorf("parse loop did not deliver the sentinel within 20 s (wedged or dead)")
	}
	return got, nil
}

func c10Clean(d []byte) *Message {
	n := len(d)
	m, err := ParseMessage(bufio.NewReaderSize(bytes.NewReader(append([]byte(nil), d...)), n))
	if err != nil {
		return nil
	}
	return m
}

func TestC10(t *testing.T) {
	V.Rule("unit: a datagram d (valid generated message; or cut at an offset - all offsets for messages < 600 B; or Content-Length rewritten to len+-delta / 0 / huge) is copied to the front of a dirty 64 KiB buffer whose remainder holds the worst-case stale bytes (the rest of the uncut message, so that stale bytes would complete d; or random; or 0xFF) and handed as (buffer, n) to the product's parse loop; differential against a clean decode of exactly d[:n], absolute against the generator (valid => equal message; over-declared / header-truncated => nothing). plus sequences of 2-14 datagrams (valid, cut, over/under-declared, bodies of mixed sizes) queued back-to-back through the pool and judged only after the whole sequence has been decoded. non-trivial = truncated or over-declared datagram whose stale tail would complete it, or any multi-datagram sequence; distinct by (datagram, mutation, dirt). lab: bursts of 2-40 datagrams from 1-4 sources through a listening proxy, and rounds in which two listen entries of the service receive 2 x 500 self-describing datagrams each at the same moment without waiting (every datagram that comes out must be the relay of exactly one sent datagram: start line, Subject, body, Content-Length, the Via of the listener that received it above the sender's Via, a backend of that listener, never twice; kernel drops are not judged)")
	V.Assume("FIFO single parse loop: a sentinel datagram queued behind the case proves the loop is done with it")
	V.Require("sequence of datagrams judged after all were decoded", "cut in headers", "cut in body", "over-declared", "under-declared", "valid intact", "stale tail completes the message")
	loop := newC10Loop()

	// saved inputs: (datagram, stale bytes behind it) -> differential, and
	// "nothing may be delivered" where the file says so
	V.Regress(t, func(c regressCase) string {
		if c.S("kind") != "dirty" {
			return "skip: kind " + c.S("kind")
		}
		d, stale := []byte(c.S("datagram")), []byte(c.S("stale"))
		buf := loop.u.msgBufPool.Alloc()
		for i := range buf {
			buf[i] = 0
		}
		copy(buf, d)
		for o := len(d); o < len(buf) && len(stale) > 0 && o < len(d)+8*len(stale); o += len(stale) {
			copy(buf[o:], stale)
		}
		got, err := loop.run(buf, len(d))
		if err != nil {
			return err.Error()
		}
		if c.Bool("expect_nothing") && got != nil {
			return fmt.Sprintf("an incomplete datagram (%d bytes) was completed from the stale bytes behind it and delivered: %s", len(d), jsonBytes([]byte(got.String())))
		}
		if f := prodSame(got, c10Clean(d)); f != "" {
			return "the parse loop on a dirty buffer and a clean decode of the same bytes disagree: " + f
		}
		return ""
	})

	eval := func(rt *rapid.T, m *AMsg, full []byte, d []byte, dirtKind int, expectValid, expectNothing bool, label string) {
		// from the transport's own pool (the loop frees it into that pool, which
		// keeps up to 40960 buffers: fresh ones per case would pile up), zeroed so
		// that the case is a function of its draws only
		buf := loop.u.msgBufPool.Alloc()
		for i := range buf {
			buf[i] = 0
		}
		switch dirtKind {
		case 0: // the rest of the uncut message: stale bytes complete d
			copy(buf, full)
			// and further copies behind it
			for o := len(full); o+len(full) <= len(buf) && o < 4*len(full)+200; o += len(full) {
				copy(buf[o:], full)
			}
		case 1:
			for i := range buf {
				buf[i] = 0xFF
			}
		case 2:
			x := uint32(len(d))*2654435761 + 12345
			for i := range buf {
				x ^= x << 13
				x ^= x >> 17
				x ^= x << 5
				buf[i] = byte(x)
			}
		case 3: // a different complete message right behind d
			copy(buf[len(d):], full)
		default: // CRLFs and a body-like filler
			for i := range buf {
				buf[i] = "\r\nabc"[i%5]
			}
		}
		copy(buf, d)
		V.Eval()
		got, err := loop.run(buf, len(d))
		if err != nil {
			failf(rt, "%s: %v", label, err)
		}
		clean := c10Clean(d)
		if diff := prodSame(got, clean); diff != "" {
			failf(rt, "%s: the parse loop on a dirty buffer and a clean decode of the same %d bytes disagree: %s", label, len(d), diff)
		}
		if expectValid {
			if diff := prodEqual(m, got); diff != "" {
				failf(rt, "%s: %s", label, diff)
			}
		}
		if expectNothing && got != nil {
			failf(rt, "%s: an incomplete datagram of %d bytes was completed from elsewhere and delivered:\n%s", label, len(d), jsonBytes([]byte(got.String())))
		}
	}

	rcheck(t, "dirty-vs-clean", V.N(1200, 12000), func(rt *rapid.T) {
		small := rapid.IntRange(0, 3).Draw(rt, "small") > 0
		o := anyOpts{MaxExt: 8, MaxLong: 9000, MaxBody: 50000}
		if small {
			o = anyOpts{MaxExt: 3, MaxLong: 0, MaxBody: 60}
		}
		m := gAnyMsg(rt, "m", o)
		fitUDP(m, 60000)
		full := m.Bytes()
		hdrEnd := len(full) - len(m.Body)
		V.Case(map[string]any{"datagram": jsonBytes(full), "headers_end": hdrEnd})
		V.SampleEvery(400, func() any { return map[string]any{"msg": m.Summary(), "len": len(full)} })
		dirt := rapid.IntRange(0, 4).Draw(rt, "dirt")
		// 1. intact
		eval(rt, m, full, full, dirt, true, false, "intact datagram")
		V.Class("valid intact")
		// 2. cuts
		var offs []int
		if len(full) < 600 && rapid.IntRange(0, 2).Draw(rt, "allcuts") == 0 {
			for i := 1; i < len(full); i++ {
				offs = append(offs, i)
			}
			V.Class("all cut offsets enumerated")
		} else {
			k := rapid.IntRange(1, 6).Draw(rt, "ncuts")
			for i := 0; i < k; i++ {
				switch rapid.IntRange(0, 3).Draw(rt, "cutkind") {
				case 0:
					offs = append(offs, rapid.IntRange(1, len(full)-1).Draw(rt, "cut"))
				case 1:
					offs = append(offs, hdrEnd-rapid.IntRange(0, 4).Draw(rt, "d"))
				case 2:
					if len(m.Body) > 0 {
						offs = append(offs, hdrEnd+rapid.IntRange(0, len(m.Body)-1).Draw(rt, "bodycut"))
					}
				default:
					offs = append(offs, rapid.IntRange(1, hdrEnd-1).Draw(rt, "hdrcut"))
				}
			}
		}
		for _, off := range offs {
			if off <= 0 || off >= len(full) {
				continue
			}
			d := full[:off]
			// a cut strictly inside the header section, or inside the body, cannot be a complete message
			inHdr := off < hdrEnd
			V.ClassIf(inHdr, "cut in headers")
			V.ClassIf(!inHdr, "cut in body")
			V.ClassIf(dirt == 0, "stale tail completes the message")
			V.NonTrivial(fmt.Sprintf("%x|cut%d|%d", hash64(string(full)), off, dirt))
			eval(rt, m, full, d, dirt, false, true, fmt.Sprintf("datagram cut at %d of %d (headers end at %d)", off, len(full), hdrEnd))
		}
		// 3. wrong declared length
		for k := 0; k < 2; k++ {
			mm := m.Clone()
			kind := rapid.IntRange(0, 4).Draw(rt, "clkind")
			decl := 0
			switch kind {
			case 0:
				decl = len(m.Body) + rapid.IntRange(1, 40).Draw(rt, "over")
			case 1:
				decl = len(m.Body) + rapid.SampledFrom([]int{1, 2, 100, 1000, 30000, 65535}).Draw(rt, "over2")
			case 2:
				if len(m.Body) == 0 {
					continue
				}
				decl = rapid.IntRange(0, len(m.Body)-1).Draw(rt, "under")
			case 3:
				decl = 0
				if len(m.Body) == 0 {
					continue
				}
			default:
				decl = len(m.Body) + 1
			}
			mm.CLOverride = strconv.Itoa(decl)
			d := mm.Bytes()
			if decl > len(m.Body) {
				V.Class("over-declared")
				V.ClassIf(dirt == 0 || dirt == 3 || dirt == 4, "stale tail completes the message")
				V.NonTrivial(fmt.Sprintf("%x|over%d|%d", hash64(string(full)), decl, dirt))
				eval(rt, mm, d, d, dirt, false, true, fmt.Sprintf("Content-Length %d declared, %d body bytes carried", decl, len(m.Body)))
			} else {
				V.Class("under-declared")
				exp := mm.Clone()
				exp.Body = exp.Body[:decl]
				exp.CLOverride = strconv.Itoa(decl)
				eval(rt, exp, d, d, dirt, true, false, fmt.Sprintf("Content-Length %d declared, %d body bytes carried", decl, len(m.Body)))
			}
		}
	})

	rcheck(t, "sequences", V.N(400, 4000), func(rt *rapid.T) {
		k := rapid.IntRange(2, 14).Draw(rt, "datagrams")
		var dgs [][]byte
		var exp []*AMsg // nil = must deliver nothing
		desc := []string{}
		for i := 0; i < k; i++ {
			o := anyOpts{MaxExt: 4, MaxLong: 0, MaxBody: 3000}
			if rapid.IntRange(0, 5).Draw(rt, "big") == 0 {
				o = anyOpts{MaxExt: 6, MaxLong: 9000, MaxBody: 40000}
			}
			m := gAnyMsg(rt, fmt.Sprintf("m%d", i), o)
			if len(m.Body) == 0 && rapid.Bool().Draw(rt, "forcebody") {
				m.Body = []byte(gFromAlphabet(rt, "body", tokAlpha+"\r\n\x00", 1, 200))
			}
			fitUDP(m, 60000)
			full := m.Bytes()
			switch rapid.IntRange(0, 6).Draw(rt, "mutation") {
			case 0: // cut
				off := rapid.IntRange(1, len(full)-1).Draw(rt, "cut")
				dgs = append(dgs, full[:off])
				exp = append(exp, nil)
				desc = append(desc, fmt.Sprintf("cut@%d/%d", off, len(full)))
			case 1: // over-declared
				mm := m.Clone()
				mm.CLOverride = strconv.Itoa(len(m.Body) + rapid.IntRange(1, 500).Draw(rt, "over"))
				dgs = append(dgs, mm.Bytes())
				exp = append(exp, nil)
				desc = append(desc, "over-declared "+mm.CLOverride)
			case 2: // under-declared
				if len(m.Body) == 0 {
					dgs = append(dgs, full)
					exp = append(exp, m)
					desc = append(desc, fmt.Sprintf("valid %dB", len(full)))
					break
				}
				mm := m.Clone()
				decl := rapid.IntRange(0, len(m.Body)-1).Draw(rt, "under")
				mm.CLOverride = strconv.Itoa(decl)
				dgs = append(dgs, mm.Bytes())
				e := mm.Clone()
				e.Body = e.Body[:decl]
				exp = append(exp, e)
				desc = append(desc, fmt.Sprintf("under-declared %d of %d", decl, len(m.Body)))
				V.Class("under-declared")
			default:
				dgs = append(dgs, full)
				exp = append(exp, m)
				desc = append(desc, fmt.Sprintf("valid %dB body %dB", len(full), len(m.Body)))
			}
		}
		V.Case(map[string]any{"sequence": desc})
		V.Class("sequence of datagrams judged after all were decoded")
		V.NonTrivial(fmt.Sprintf("seq|%v|%x", desc, hash64(string(dgs[0]))))
		V.SampleEvery(100, func() any { return desc })
		got, err := loop.runSeq(dgs)
		if err != nil {
			failf(rt, "%v", err)
		}
		gi := 0
		for i, e := range exp {
			if e == nil {
				continue
			}
			if gi >= len(got) {
				failf(rt, "datagram %d (%s) of the sequence %v was not delivered (%d messages delivered)", i, desc[i], desc, len(got))
			}
			if diff := prodEqual(e, got[gi]); diff != "" {
				failf(rt, "datagram %d (%s) of the sequence %v, looked at after the whole sequence had been decoded: %s", i, desc[i], desc, diff)
			}
			gi++
		}
		if gi != len(got) {
			failf(rt, "sequence %v: %d messages delivered, %d datagrams were complete", desc, len(got), gi)
		}
	})

	c10Lab(t)
}

// c10Body: the body of datagram id, a keyed pseudo-random function of the id.
func c10Body(id string, n int) []byte {
	x := uint32(hash64(id)) | 1
	b := make([]byte, n)
	for i := range b {
		x ^= x << 13
		x ^= x >> 17
		x ^= x << 5
		b[i] = byte(x)
	}
	return b
}

// c10Lab: bursts of datagrams through the real receive goroutine, pool and
// parse loop of a listening proxy; every relayed datagram must be a function
// of exactly one sent datagram.
func c10Lab(t *testing.T) {
	V.Require("lab: datagrams of a burst sharing method, sent-by and branch", "lab: two listeners receiving at the same moment", "lab: burst relayed and attributed", "lab: truncated or over-declared datagram inside a burst")
	svc, err := newStdSvc(stdVariant{})
	if err != nil {
		V.HarnessError(t, "cannot start lab instance: %v", err)
	}
	s := svc
	rcheck(t, "lab-bursts", V.N(60, 400), func(rt *rapid.T) {
		entry := rapid.IntRange(0, 1).Draw(rt, "entry")
		l := s.in.cfg.Listens[entry]
		k := rapid.IntRange(2, 40).Draw(rt, "datagrams")
		type sent struct {
			id    string
			src   *labEP
			body  []byte // expected relayed body; nil = nothing may be relayed
			subj  string
			wire  []byte
			descr string
		}
		var plan []sent
		// (a sender that does not renew its branch: several datagrams of the burst
		// then share method, sent-by and branch - and nothing else)
		sameBranch := rapid.IntRange(0, 2).Draw(rt, "datagrams of one source share their Via branch") == 0
		V.ClassIf(sameBranch, "lab: datagrams of a burst sharing method, sent-by and branch")
		burstID := s.nextID("c10burst-")
		budget := 60000 // bytes in flight: the listener's socket buffer must not overflow
		for i := 0; i < k && budget > 600; i++ {
			id := s.nextID("c10b-")
			src := s.uas[rapid.IntRange(0, 3).Draw(rt, "src")]
			n := 0
			switch rapid.IntRange(0, 4).Draw(rt, "size") {
			case 0:
				n = 0
			case 1, 2:
				n = rapid.IntRange(1, 300).Draw(rt, "n")
			case 3:
				n = rapid.IntRange(300, 5000).Draw(rt, "n")
			default:
				n = rapid.IntRange(5000, 40000).Draw(rt, "n")
			}
			if n > budget-500 {
				n = budget - 500
			}
			body := c10Body(id, n)
			subj := gFromAlphabet(rt, "subject", tokAlpha, 1, 12)
			decl := n
			exp := body
			descr := fmt.Sprintf("valid %dB", n)
			mutation := rapid.IntRange(0, 6).Draw(rt, "mutation")
			switch {
			case mutation == 0:
				decl = n + rapid.IntRange(1, 2000).Draw(rt, "over")
				exp, descr = nil, fmt.Sprintf("over-declared %d/%d", decl, n)
			case mutation == 1 && n > 0:
				decl = rapid.IntRange(0, n-1).Draw(rt, "under")
				exp, descr = body[:decl], fmt.Sprintf("under-declared %d/%d", decl, n)
			}
			branch := id
			if sameBranch {
				branch = burstID
			}
			wire := []byte(fmt.Sprintf("MESSAGE sip:svc.test SIP/2.0\r\nVia: SIP/2.0/UDP %s:5060;branch=z9hG4bK%s;rport\r\nFrom: <sip:a@b>;tag=1\r\nTo: <sip:svc@nomatch.example>\r\nCall-ID: %s\r\nCSeq: 1 MESSAGE\r\nSubject: %s\r\nContent-Length: %d\r\n\r\n", src.ip, branch, id, subj, decl))
			hdrLen := len(wire)
			wire = append(wire, body...)
			if mutation == 2 {
				cut := rapid.IntRange(1, len(wire)-1).Draw(rt, "cut")
				if cut < hdrLen || cut < len(wire) {
					wire = wire[:cut]
					exp, descr = nil, fmt.Sprintf("cut at %d of %d", cut, hdrLen+n)
				}
			}
			budget -= len(wire)
			plan = append(plan, sent{id, src, exp, subj, wire, descr})
			s.model.learnRequest(s.model.transport(entry, "udp"), src.ip, &AMsg{IsReq: true, Hdrs: []AHdr{{Kind: hVia, Vias: []AVia{{Host: src.ip}}}}})
		}
		var desc []string
		var wires [][]byte
		for _, p := range plan {
			desc = append(desc, p.id+" "+p.descr)
			wires = append(wires, p.wire)
		}
		V.Journal(t.Name()+"/lab-bursts", desc)
		s.in.expect(wires...)
		for _, p := range plan {
			p.src.sendUDP(l.Addr, l.UDPPort, p.wire)
		}
		expected := 0
		for _, p := range plan {
			if p.body != nil {
				expected++
			}
		}
		var got []labRx
		seen := map[*labEP]bool{}
		for _, p := range plan {
			if seen[p.src] {
				continue
			}
			seen[p.src] = true
			src := p.src
			min := 0
			if len(seen) == 1 {
				min = expected
			}
			rs, err := s.in.settle(func(b []byte) error { return src.sendUDP(l.Addr, l.UDPPort, b) }, min)
			if _, lost := err.(labLost); lost {
				failf(rt, "%v", err)
			} else if err != nil {
				V.HarnessError(rt, "%v", err)
			}
			got = append(got, labMessages(rs)...)
		}
		V.Class("lab: burst relayed and attributed")
		V.NonTrivial(strings.Join(desc, "|"))
		V.SampleEvery(15, func() any { return desc })
		byID := map[string][]labRx{}
		for _, r := range got {
			id, _ := r.msg.First(hCallID)
			byID[id] = append(byID[id], r)
		}
		for _, p := range plan {
			rs := byID[p.id]
			delete(byID, p.id)
			if p.body == nil {
				V.Class("lab: truncated or over-declared datagram inside a burst")
				if len(rs) != 0 {
					failf(rt, "datagram %s (%s) is incomplete and must be discarded, but something was relayed for it: %s\nburst: %v", p.id, p.descr, jsonBytes(rs[0].msg.Body), desc)
				}
				continue
			}
			if len(rs) != 1 {
				failf(rt, "datagram %s (%s) was relayed %d times, want exactly once\nburst: %v", p.id, p.descr, len(rs), desc)
			}
			m := rs[0].msg
			if !bytes.Equal(m.Body, p.body) {
				failf(rt, "datagram %s (%s): relayed body (%d bytes) is not the body this datagram carried (%d bytes): it contains bytes from elsewhere\nrelayed: %s\nburst: %v", p.id, p.descr, len(m.Body), len(p.body), jsonBytes(m.Body), desc)
			}
			if sub, _ := m.Ext("Subject"); sub != p.subj {
				failf(rt, "datagram %s: relayed Subject %q, sent %q\nburst: %v", p.id, sub, p.subj, desc)
			}
			// what the proxy notes about the datagram's source is part of what it
			// relays for it: the source of this datagram, not of a neighbour
			if vs := m.Entries(hVia); len(vs) >= 2 && s.model.receivedSupport(entry) {
				if v, err := rVia(vs[len(vs)-1]); err == nil {
					rcv, _, _ := v.Param("received")
					rp, _, _ := v.Param("rport")
					if rcv != p.src.ip || rp != strconv.Itoa(p.src.port) {
						failf(rt, "datagram %s came from %s:%d but is relayed with received=%q rport=%q in its sender's Via: the source of another datagram\nburst: %v", p.id, p.src.ip, p.src.port, rcv, rp, desc)
					}
				}
			}
		}
		for id, rs := range byID {
			failf(rt, "a datagram with Call-ID %q was relayed (%d times) that corresponds to no datagram of the burst\nburst: %v", id, len(rs), desc)
		}
	})

	// Two listen entries of the service receive at the same moment: what is
	// relayed for a datagram must still be a function of that datagram alone -
	// nothing of a datagram another listener is relaying just then. Senders do
	// not wait (the point is simultaneity); datagrams the kernel drops on the way
	// are not the subject, only what comes out is judged.
	t.Run("lab-parallel-listeners", func(t *testing.T) {
		if V.replay && V.only != "parallel-listeners" {
			return
		}
		rounds := V.N(3, 16)
		if V.replay {
			rounds = 16
		}
		type rec struct {
			entry int
			n     int
			src   string
		}
		sizes := []int{0, 17, 120, 300, 700, 1400, 2500, 5000, 9000, 16000, 28000}
		for round := 0; round < rounds && V.ViolationCount() == 0; round++ {
			sent := map[string]rec{}
			var mu sync.Mutex
			stop := make(chan struct{})
			var got []labRx
			var collectorDone sync.WaitGroup
			var lastRx atomic.Int64
			lastRx.Store(time.Now().UnixNano())
			collectorDone.Add(1)
			go func() {
				defer collectorDone.Done()
				for {
					select {
					case r := <-s.in.hub.rx:
						lastRx.Store(time.Now().UnixNano())
						if _, isb := isBarrier(r); !isb && len(r.data) > 0 {
							got = append(got, r)
						}
					case <-stop:
						return
					}
				}
			}()
			var wg sync.WaitGroup
			per := 500
			for entry := 0; entry < 2; entry++ {
				for u := 0; u < 2; u++ {
					entry, u := entry, u
					src := s.uas[entry*2+u]
					l := s.in.cfg.Listens[entry]
					wg.Add(1)
					go func() {
						defer wg.Done()
						for i := 0; i < per; i++ {
							id := fmt.Sprintf("c10par-%d-%d-%d-%d", round, entry, u, i)
							n := sizes[(i*7+u*3+entry*5+round)%len(sizes)]
							wire := []byte(fmt.Sprintf("MESSAGE sip:svc.test SIP/2.0\r\nVia: SIP/2.0/UDP %s:5060;branch=z9hG4bK%s;rport\r\nFrom: <sip:a@b>;tag=1\r\nTo: <sip:svc@nomatch.example>\r\nCall-ID: %s\r\nCSeq: 1 MESSAGE\r\nSubject: s-%s\r\nContent-Length: %d\r\n\r\n", src.ip, id, id, id, n))
							wire = append(wire, c10Body(id, n)...)
							mu.Lock()
							sent[id] = rec{entry, n, src.ip}
							mu.Unlock()
							src.sendUDP(l.Addr, l.UDPPort, wire)
							if i%16 == 15 {
								time.Sleep(200 * time.Microsecond) // keeps most of the burst out of the kernel's drop path; no ordering is implied
							}
						}
					}()
				}
			}
			wg.Wait()
			// quiet for 300 ms of running time = everything the proxy will relay has arrived
			patientUntil(20*time.Second, 20*time.Millisecond, func() bool { return time.Since(time.Unix(0, lastRx.Load())) > 300*time.Millisecond })
			close(stop)
			collectorDone.Wait()
			V.EvalN(len(got))
			V.Journal(t.Name(), map[string]any{"round": round, "datagrams_sent": len(sent), "relayed": len(got)})
			seenID := map[string]bool{}
			for _, r := range got {
				bad := func(format string, args ...any) {
					V.Violation(t, "parallel-listeners", map[string]any{"round": round, "relayed_datagram": jsonBytes(r.data), "arrived_at": r.where()}, "two listen entries receiving at the same moment (2 senders each, %d datagrams of 0-28000 body bytes per sender, %d relayed in this round): "+format, append([]any{per, len(got)}, args...)...)
				}
				if r.msg == nil {
					bad("a datagram arrived at %s that is not a well-formed message: it cannot be the relay of any datagram sent", r.where())
					break
				}
				id, _ := r.msg.First(hCallID)
				sr, ok := sent[id]
				if !ok {
					if !strings.HasPrefix(id, "c10par-") {
						continue // a late arrival of an earlier sub-test
					}
					bad("a datagram with Call-ID %q was relayed that corresponds to no datagram sent", id)
					break
				}
				if seenID[id] {
					bad("datagram %s was relayed twice", id)
					break
				}
				seenID[id] = true
				if !s.isBackendOf(r.ep, sr.entry, r.tcp != nil) {
					bad("datagram %s, sent to listen entry %d, arrived at %s, which is not a backend of that entry", id, sr.entry, r.where())
					break
				}
				if want := "MESSAGE sip:svc.test SIP/2.0"; r.msg.Start != want {
					bad("datagram %s relayed with start line %q, sent %q", id, r.msg.Start, want)
					break
				}
				if sub, _ := r.msg.Ext("Subject"); sub != "s-"+id {
					bad("datagram %s relayed with Subject %q, sent %q: header of another datagram", id, sub, "s-"+id)
					break
				}
				if !bytes.Equal(r.msg.Body, c10Body(id, sr.n)) {
					bad("datagram %s: relayed body (%d bytes) is not the body this datagram carried (%d bytes): it contains bytes from elsewhere", id, len(r.msg.Body), sr.n)
					break
				}
				if cl, _ := r.msg.First(hCL); cl != strconv.Itoa(sr.n) {
					bad("datagram %s relayed with Content-Length %q, carried %d body bytes", id, cl, sr.n)
					break
				}
				vs := r.msg.Entries(hVia)
				L := s.in.cfg.Listens[sr.entry]
				if len(vs) != 2 {
					bad("datagram %s relayed with Via entries %q, want the receiving listener's above the sender's", id, vs)
					break
				}
				v0, e0 := rVia(vs[0])
				v1, e1 := rVia(vs[1])
				if e0 != nil || e1 != nil || v0.Host != L.Addr || v0.Port != L.UDPPort {
					bad("datagram %s was received by listen entry %d (%s:%d) but is relayed with top Via %q: taken from a datagram another listener relayed", id, sr.entry, L.Addr, L.UDPPort, vs[0])
					break
				}
				if br, _, _ := v1.Param("branch"); v1.Host != sr.src || br != "z9hG4bK"+id {
					bad("datagram %s relayed with the sender's Via %q: not the entry this datagram carried", id, vs[1])
					break
				}
				if s.model.receivedSupport(sr.entry) {
					rcv, _, _ := v1.Param("received")
					rp, _, _ := v1.Param("rport")
					if rcv != sr.src || rp != "5060" {
						bad("datagram %s came from %s:5060 but is relayed with received=%q rport=%q in its sender's Via: the source of another datagram", id, sr.src, rcv, rp)
						break
					}
				}
			}
			V.Class("lab: two listeners receiving at the same moment")
			V.NonTrivial(fmt.Sprintf("parallel|%d|%d", round, len(got)))
			V.ExtraAdd("parallel_listeners_datagrams_sent", int64(len(sent)))
			V.ExtraAdd("parallel_listeners_datagrams_relayed_and_judged", int64(len(seenID)))
			if len(seenID) < len(sent)/20 {
				V.Inconclusive(fmt.Sprintf("parallel listeners: only %d of %d datagrams came out (machine too loaded to judge simultaneity)", len(seenID), len(sent)))
			}
			// both listeners still serve
			for entry := 0; entry < 2; entry++ {
				l := s.in.cfg.Listens[entry]
				src := s.uas[entry*2]
				if _, err := s.in.settle(func(b []byte) error { return src.sendUDP(l.Addr, l.UDPPort, b) }, 0); err != nil {
					if _, lost := err.(labLost); lost {
						V.Violation(t, "parallel-listeners", nil, "after the parallel round %d: %v", round, err)
					} else {
						V.HarnessError(t, "%v", err)
					}
				}
			}
		}
	})
}

// FuzzIsolation: the native coverage-guided target of the thorough tier. The
// fuzzer owns the datagram bytes, the cut and the kind of stale bytes behind
// it; the oracle is the differential of the rapid part (the product's parse
// loop on a dirty recycled buffer vs. a clean decode of exactly the datagram)
// plus the absolute rule for datagrams that end inside their header section.
func FuzzIsolation(f *testing.F) {
	seeds := []string{
		"INVITE sip:u@svc.test SIP/2.0\r\nVia: SIP/2.0/UDP 127.0.0.9:5060;branch=z9hG4bK1;rport\r\nFrom: <sip:a@b>;tag=1\r\nTo: <sip:c@d>\r\nCall-ID: x\r\nCSeq: 1 INVITE\r\nContent-Length: 3\r\n\r\nabc",
		"SIP/2.0 200 OK\r\nv: SIP/2.0/UDP h;branch=z9hG4bKp, SIP/2.0/UDP 127.0.0.9:5060;branch=z9hG4bK1\r\nf: <sip:a@b>;tag=1\r\nt: <sip:c@d>;tag=2\r\ni: x\r\nCSeq: 1 INVITE\r\nl: 12\r\n\r\nv=0\r\no=- 1\r\n",
		"MESSAGE sip:u@h SIP/2.0\nVia: SIP/2.0/UDP h\nCall-ID: lf\nContent-Length: 41\n\nBYE sip:x SIP/2.0\r\nContent-Length: 0\r\n\r\n",
		"OPTIONS sip:h SIP/2.0\r\nVia: SIP/2.0/UDP h\r\nCall-ID: nolen\r\n\r\n",
	}
	for _, s := range seeds {
		for dirt := 0; dirt < 5; dirt++ {
			f.Add([]byte(s), uint16(0), byte(dirt))
			f.Add([]byte(s), uint16(len(s)-2), byte(dirt))
			f.Add([]byte(s), uint16(len(s)/2), byte(dirt))
		}
	}
	var loop *c10Loop
	f.Fuzz(func(t *testing.T, full []byte, cut uint16, dirt byte) {
		if len(full) == 0 || len(full) > 60000 {
			return
		}
		if loop == nil {
			loop = newC10Loop()
		}
		d := full
		if cut != 0 {
			d = full[:1+int(cut)%len(full)]
		}
		buf := loop.u.msgBufPool.Alloc()
		switch dirt % 5 {
		case 0: // the rest of the uncut datagram and further copies of it
			for o := 0; o+len(full) <= len(buf) && o < 4*len(full)+200; o += len(full) {
				copy(buf[o:], full)
			}
		case 1:
			for i := range buf {
				buf[i] = 0xFF
			}
		case 2:
			for i := range buf {
				buf[i] = 0
			}
		case 3: // a complete other message right behind d
			for i := range buf {
				buf[i] = 0
			}
			copy(buf[len(d):], seeds[0])
		default:
			for i := range buf {
				buf[i] = "\r\nabc"[i%5]
			}
		}
		copy(buf, d)
		got, err := loop.run(buf, len(d))
		if err != nil {
			t.Fatalf("%v\ndatagram: %s", err, jsonBytes(d))
		}
		clean := c10Clean(d)
		if diff := prodSame(got, clean); diff != "" {
			t.Fatalf("the parse loop on a dirty buffer (kind %d) and a clean decode of the same %d bytes disagree: %s\ndatagram: %s", dirt%5, len(d), diff, jsonBytes(d))
		}
		if got != nil && !bytes.Contains(d, []byte("\n\r\n")) && !bytes.Contains(d, []byte("\n\n")) {
			t.Fatalf("a datagram without the blank line that ends the header section was delivered (completed from elsewhere)\ndatagram: %s", jsonBytes(d))
		}
	})
}

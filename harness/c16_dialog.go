//verif:needs core
package main

// C16 - dialog identity is direction-independent and discriminating.
// Engine: unit. Oracle: canonical key computed by the harness; same key =>
// same product id over all renderings; definitely-different keys => different ids.

import (
	"bufio"
	"fmt"
	"sort"
	"strconv"
	"strings"
	"sync"
	"testing"

	"pgregory.net/rapid"
)

type c16Asg struct {
	CallID string `json:"call_id"`
	TagF   string `json:"from_tag"`
	UriF   string `json:"from_uri"`
	TagT   string `json:"to_tag"`
	UriT   string `json:"to_uri"`
}

type c16Style struct {
	Display   int  // 0 none, 1 token, 2 quoted
	UriParams bool // SIP URIs only
	UriHdrs   bool // SIP URIs only
	ParamPre  bool // header parameter before tag
	ParamPost bool // header parameter after tag
	Names     int  // 0 canonical, 1 compact, 2 upper, 3 lower/odd
	Bare      bool // bare addr-spec where the URI allows it
	Response  bool
	Swap      bool
	Spell     [4]int // per header (From, To, Call-ID, Content-Length): 0 = as Names says, 1.. = c16Spellings[k-1]
}

// every way a header name can be written: canonical, compact in both cases, upper, lower, odd case
var c16Spellings = [][4]string{
	{"From", "To", "Call-ID", "Content-Length"}, {"f", "t", "i", "l"}, {"F", "T", "I", "L"},
	{"FROM", "TO", "CALL-ID", "CONTENT-LENGTH"}, {"from", "to", "call-id", "content-length"}, {"fROM", "tO", "cALL-iD", "Content-length"},
}

func (s c16Style) String() string {
	if s.Spell != [4]int{} {
		return fmt.Sprintf("d%d,up%v,uh%v,pp%v,pa%v,n%d,b%v,r%v,s%v,spell%v", s.Display, s.UriParams, s.UriHdrs, s.ParamPre, s.ParamPost, s.Names, s.Bare, s.Response, s.Swap, s.Spell)
	}
	return fmt.Sprintf("d%d,up%v,uh%v,pp%v,pa%v,n%d,b%v,r%v,s%v", s.Display, s.UriParams, s.UriHdrs, s.ParamPre, s.ParamPost, s.Names, s.Bare, s.Response, s.Swap)
}

func c16IsSip(u string) bool { return strings.HasPrefix(u, "sip:") || strings.HasPrefix(u, "sips:") }

func c16RenderAddr(uri, tag string, st c16Style, side int) string {
	u := uri
	sip := c16IsSip(uri)
	if sip && st.UriParams {
		// (a transport parameter that would change the default port, on URIs with and without port)
		u += []string{";transport=tcp", ";user=phone;lr", ";transport=tls", ";transport=TLS;maddr=10.0.0.1"}[(side+2*(len(tag)%2))%4]
	}
	if sip && st.UriHdrs {
		u += []string{"?subject=x", "?a=b&c=d"}[side]
	}
	bare := st.Bare && st.Display == 0 && !strings.ContainsAny(u, ";?,")
	var sb strings.Builder
	if bare {
		sb.WriteString(u)
	} else {
		switch st.Display {
		case 1:
			sb.WriteString([]string{"Alice ", "Bob "}[side])
		case 2:
			sb.WriteString([]string{"\"Alice A\" ", "\"B\""}[side])
		case 3:
			sb.WriteString([]string{"\"Doe; John\" ", "\"x;tag=zz;y\""}[side])
		}
		sb.WriteString("<" + u + ">")
	}
	if st.ParamPre {
		sb.WriteString([]string{";foo=bar", ";x"}[side])
	}
	if tag != "\x00" {
		sb.WriteString(";tag=" + tag)
	}
	if st.ParamPost {
		sb.WriteString([]string{";y", ";bar=foo"}[side])
	}
	return sb.String()
}

func c16Render(a c16Asg, st c16Style) string {
	n3 := [][3]string{{"From", "To", "Call-ID"}, {"f", "t", "i"}, {"FROM", "TO", "CALL-ID"}, {"from", "tO", "call-Id"}}[st.Names]
	names := [4]string{n3[0], n3[1], n3[2], "Content-Length"}
	for k := range names {
		if st.Spell[k] > 0 {
			names[k] = c16Spellings[st.Spell[k]-1][k]
		}
	}
	tf, uf, tt, ut := a.TagF, a.UriF, a.TagT, a.UriT
	if st.Swap {
		tf, uf, tt, ut = tt, ut, tf, uf
	}
	var sb strings.Builder
	if st.Response {
		sb.WriteString("SIP/2.0 200 OK\r\n")
	} else {
		sb.WriteString("BYE sip:svc@proxy.test SIP/2.0\r\n")
	}
	sb.WriteString("Via: SIP/2.0/UDP 127.0.0.9:5060;branch=z9hG4bKx\r\n")
	sb.WriteString(names[0] + ": " + c16RenderAddr(uf, tf, st, 0) + "\r\n")
	sb.WriteString(names[1] + ": " + c16RenderAddr(ut, tt, st, 1) + "\r\n")
	sb.WriteString(names[2] + ": " + a.CallID + "\r\n")
	sb.WriteString("CSeq: 2 BYE\r\n" + names[3] + ": 0\r\n\r\n")
	return sb.String()
}

func c16ProductID(text string) (string, error) {
	msg, err := ParseMessage(bufio.NewReader(strings.NewReader(text)))
	if err != nil {
		return "", fmt.Errorf("ParseMessage: %v", err)
	}
	return msg.GetDialog()
}

// c16Canon: strict canonical class of an assignment.
func c16Canon(a c16Asg) string {
	h := []string{a.TagF + "\x01" + a.UriF, a.TagT + "\x01" + a.UriT}
	sort.Strings(h)
	return a.CallID + "\x02" + h[0] + "\x02" + h[1]
}

type c16URI struct {
	sip              bool
	user, host, port string
	base             string // non-SIP: text before first ';'
}

func c16Split(u string) c16URI {
	if !c16IsSip(u) {
		b := u
		if i := strings.IndexByte(b, ';'); i >= 0 {
			b = b[:i]
		}
		return c16URI{base: b}
	}
	s := u[strings.IndexByte(u, ':')+1:]
	r := c16URI{sip: true}
	if i := strings.IndexByte(s, '@'); i >= 0 {
		ui := s[:i]
		s = s[i+1:]
		if j := strings.IndexByte(ui, ':'); j >= 0 {
			ui = ui[:j]
		}
		r.user = ui
	}
	r.host = s
	r.port = "5060"
	if strings.HasPrefix(u, "sips:") {
		r.port = "5061"
	}
	if i := strings.IndexByte(s, ':'); i >= 0 {
		r.host, r.port = s[:i], s[i+1:]
	}
	return r
}

// possiblySameURI: false only when the statement demands a different dialog
// (user, host or port differ; SIP vs non-SIP; different non-SIP base).
func c16PossiblySameURI(a, b string) bool {
	x, y := c16Split(a), c16Split(b)
	if x.sip != y.sip {
		return false
	}
	if !x.sip {
		return x.base == y.base
	}
	return x.user == y.user && x.host == y.host && x.port == y.port
}

func c16DefinitelyDifferent(a, b c16Asg) bool {
	if a.CallID != b.CallID {
		return true
	}
	match := func(t1, u1, t2, u2 string) bool { return t1 == t2 && c16PossiblySameURI(u1, u2) }
	straight := match(a.TagF, a.UriF, b.TagF, b.UriF) && match(a.TagT, a.UriT, b.TagT, b.UriT)
	crossed := match(a.TagF, a.UriF, b.TagT, b.UriT) && match(a.TagT, a.UriT, b.TagF, b.UriF)
	return !straight && !crossed
}

var c16CallIDs = []string{"c", "c-a", "c-", "-c", "C", "-", "--"}
var c16Tags = []string{"a", "b", "a-b", "b-", "A", "0", "-b", "-"}
var c16URIs = []string{"sip:h", "sip:u@h", "sip:u@h:5070", "sip:u@h:5061", "sip:v@h", "sip:u@g", "sips:u@h", "tel:+1", "tel:+1;ext=2", "urn:service:sos"}

func c16Styles(all bool) []c16Style {
	var out []c16Style
	if !all {
		base := []c16Style{
			{},
			{Display: 1, UriParams: true, ParamPost: true, Names: 1},
			{Display: 2, UriHdrs: true, ParamPre: true, Names: 3},
			{Display: 3, ParamPost: true, Names: 0},
			{Bare: true, Names: 2, ParamPost: true},
		}
		for _, b := range base {
			for _, resp := range []bool{false, true} {
				for _, sw := range []bool{false, true} {
					s := b
					s.Response, s.Swap = resp, sw
					out = append(out, s)
				}
			}
		}
		return out
	}
	for d := 0; d < 4; d++ {
		for m := 0; m < 32; m++ {
			for n := 0; n < 4; n++ {
				for rs := 0; rs < 4; rs++ {
					s := c16Style{Display: d, UriParams: m&1 != 0, UriHdrs: m&2 != 0, ParamPre: m&4 != 0, ParamPost: m&8 != 0, Bare: m&16 != 0, Names: n, Response: rs&1 != 0, Swap: rs&2 != 0}
					if s.Bare && (s.Display != 0 || s.UriParams || s.UriHdrs) {
						continue
					}
					out = append(out, s)
				}
			}
		}
	}
	return out
}

// c16Group checks one assignment over the given styles; returns the id or a failure.
func c16Group(a c16Asg, styles []c16Style) (string, string) {
	id0 := ""
	for i, st := range styles {
		text := c16Render(a, st)
		id, err := c16ProductID(text)
		V.Eval()
		if err != nil {
			return "", fmt.Sprintf("rendering %s of a message with both tags yields no dialog: %v\n%s", st, err, text)
		}
		if i == 0 {
			id0 = id
		} else if id != id0 {
			return "", fmt.Sprintf("same dialog, different identity: rendering %s -> %q but rendering %s -> %q\n--- first\n%s--- second\n%s", styles[0], id0, st, id, c16Render(a, styles[0]), text)
		}
	}
	return id0, ""
}

// c16Regress: saved pairs of messages with the attribution the statement fixes for them.
func c16Regress(c regressCase) string {
	if c.S("kind") != "pair" {
		return "skip: kind " + c.S("kind")
	}
	a, errA := c16ProductID(c.S("a"))
	switch c.S("expect") {
	case "none":
		if errA == nil {
			return fmt.Sprintf("a message lacking a tag belongs to no dialog, but got the identity %q", a)
		}
		return ""
	}
	b, errB := c16ProductID(c.S("b"))
	if errA != nil || errB != nil {
		return fmt.Sprintf("GetDialog failed: %v / %v", errA, errB)
	}
	if c.S("expect") == "same" && a != b {
		return fmt.Sprintf("same dialog, different identity: %q vs %q", a, b)
	}
	if c.S("expect") == "different" && a == b {
		return fmt.Sprintf("different dialogs, same identity %q", a)
	}
	return ""
}

func TestC16(t *testing.T) {
	V.Rule("unit: all assignments (Call-ID x 2 tags x 2 URIs) over small alphabets, each rendered as request/response, both orientations, with decoration styles; product GetDialog ids grouped and compared with the harness's canonical key both ways (same key => same id; definitely different key => different id); plus messages lacking a tag; plus rapid-generated long identifiers with single-component edits. non-trivial = equal URIs or equal tags on both sides, or '-' inside an identifier, or a single-component edit; distinct by assignment")
	V.Assume("scheme-only, default-port-only and non-SIP-parameter-only differences are don't-cares for the 'different dialog' direction")
	V.Require("equal URIs both sides", "equal tags both sides", "dash in identifier", "missing tag")

	styles := c16Styles(V.Thorough())
	V.Regress(t, c16Regress)
	// header-name spelling: every combination of the six ways to write From, To,
	// Call-ID (and the three of Content-Length that differ in kind) on a handful
	// of assignments, both orientations, request and response - one identity each
	t.Run("spellings", func(t *testing.T) {
		if V.replay && !strings.HasPrefix(V.only, "spellings:") {
			return
		}
		asgs := []c16Asg{
			{CallID: "c@h", TagF: "a", UriF: "sip:u@h:5070", TagT: "b", UriT: "sip:v@g"},
			{CallID: "c-1", TagF: "a-b", UriF: "tel:+1", TagT: "b", UriT: "urn:service:sos"},
			{CallID: "C", TagF: "0", UriF: "sip:h", TagT: "0", UriT: "sip:h"},
		}
		for ai, a := range asgs {
			var styles []c16Style
			for f := 1; f <= 6; f++ {
				for to := 1; to <= 6; to++ {
					for ci := 1; ci <= 6; ci++ {
						for _, cl := range []int{1, 2, 3, 5} {
							styles = append(styles, c16Style{Spell: [4]int{f, to, ci, cl}, Response: (f+to+ci)%2 == 0, Swap: (f+ci+cl)%3 == 0, Display: (to + cl) % 3, ParamPost: ci%2 == 0})
						}
					}
				}
			}
			only := fmt.Sprintf("spellings:%d", ai)
			if !V.OnlyMatch(only) {
				continue
			}
			if _, msg := c16Group(a, styles); msg != "" {
				V.Violation(t, only, a, "%s", msg)
				return
			}
			V.Class("every spelling combination of From / To / Call-ID / Content-Length")
			V.NonTrivial(fmt.Sprintf("spell|%d", ai))
		}
	})

	t.Run("exhaustive", func(t *testing.T) {
		byID := map[string]c16Asg{}
		n := 0
		// shards split the renderings, never the assignments: every shard sees
		// every assignment, so collisions between any two classes are visible
		myStyles := []c16Style{styles[0]}
		for i, s := range styles[1:] {
			if i%V.nshards == V.shard {
				myStyles = append(myStyles, s)
			}
		}
		complete := true
	outer:
		for _, c := range c16CallIDs {
			for _, tf := range c16Tags {
				for _, uf := range c16URIs {
					for _, tt := range c16Tags {
						for _, ut := range c16URIs {
							a := c16Asg{c, tf, uf, tt, ut}
							desc := fmt.Sprintf("%s|%s|%s|%s|%s", c, tf, uf, tt, ut)
							if !V.OnlyMatch(desc) {
								continue
							}
							n++
							id, msg := c16Group(a, myStyles)
							if msg != "" {
								V.Violation(t, desc, a, "%s", msg)
								complete = false
								break outer
							}
							V.ClassIf(uf == ut, "equal URIs both sides")
							V.ClassIf(tf == tt, "equal tags both sides")
							dash := strings.Contains(c+tf+tt, "-")
							V.ClassIf(dash, "dash in identifier")
							if uf == ut || tf == tt || dash {
								V.NonTrivial(desc)
							}
							if n%3001 == 1 {
								V.Sample(map[string]any{"assignment": a, "product_id": id, "renderings": len(myStyles)})
							}
							if prev, ok := byID[id]; ok {
								if c16Canon(prev) != c16Canon(a) && c16DefinitelyDifferent(prev, a) {
									V.Violation(t, desc, []c16Asg{prev, a}, "different dialogs, same identity %q:\n%+v\n%+v", id, prev, a)
									complete = false
									break outer
								}
							} else {
								byID[id] = a
							}
						}
					}
				}
			}
		}
		// a message lacking either tag belongs to no dialog
		for _, st := range styles {
			for k := 0; k < 3; k++ {
				a := c16Asg{"c", "a", "sip:u@h", "b", "sip:v@h"}
				switch k {
				case 0:
					a.TagF = "\x00"
				case 1:
					a.TagT = "\x00"
				default:
					a.TagF, a.TagT = "\x00", "\x00"
				}
				desc := fmt.Sprintf("notag%d|%s", k, st)
				if !V.OnlyMatch(desc) {
					continue
				}
				text := c16Render(a, st)
				id, err := c16ProductID(text)
				V.Eval()
				V.Class("missing tag")
				V.NonTrivial(desc)
				if err == nil {
					V.Violation(t, desc, text, "message lacking a tag was attributed to dialog %q:\n%s", id, text)
					complete = false
				}
			}
		}
		V.Exhaustive(complete && V.only == "")
		V.Extra("exhaustive_subspace", fmt.Sprintf("7 Call-IDs x 8x8 tags x 10x10 URIs = 44800 assignments (split over shards) x %d renderings each", len(styles)))
	})

	genTok := rapid.StringMatching(`[a-zA-Z0-9]{1,3}(-?[a-zA-Z0-9.!%*_+~]{1,6}){0,3}`)
	genHost := rapid.SampledFrom([]string{"h", "example.com", "10.0.0.1", "a-b.test", "pbx.example.org"})
	genURI := rapid.Custom(func(rt *rapid.T) string {
		switch rapid.IntRange(0, 5).Draw(rt, "kind") {
		case 0:
			return "tel:+" + rapid.StringMatching(`[0-9]{3,10}`).Draw(rt, "num")
		case 1:
			return "urn:service:" + rapid.StringMatching(`[a-z]{2,6}`).Draw(rt, "svc")
		default:
			u := "sip:"
			if rapid.Bool().Draw(rt, "user") {
				u += rapid.StringMatching(`[a-z0-9]{1,8}`).Draw(rt, "u") + "@"
			}
			u += genHost.Draw(rt, "host")
			if rapid.Bool().Draw(rt, "port") {
				if rapid.Bool().Draw(rt, "high port") {
					u += fmt.Sprintf(":%d", rapid.SampledFrom([]int{32767, 32768, 40000, 49152, 50000, 65535}).Draw(rt, "p"))
				} else {
					u += fmt.Sprintf(":%d", rapid.IntRange(1, 65535).Draw(rt, "p"))
				}
			}
			return u
		}
	})
	genStyle := rapid.Custom(func(rt *rapid.T) c16Style {
		s := c16Style{Display: rapid.IntRange(0, 3).Draw(rt, "d"), UriParams: rapid.Bool().Draw(rt, "up"), UriHdrs: rapid.Bool().Draw(rt, "uh"),
			ParamPre: rapid.Bool().Draw(rt, "pp"), ParamPost: rapid.Bool().Draw(rt, "pa"), Names: rapid.IntRange(0, 3).Draw(rt, "n"),
			Bare: rapid.Bool().Draw(rt, "b"), Response: rapid.Bool().Draw(rt, "r"), Swap: rapid.Bool().Draw(rt, "s")}
		if s.Bare {
			s.Display, s.UriParams, s.UriHdrs = 0, false, false
		}
		if rapid.IntRange(0, 2).Draw(rt, "spell") == 0 {
			for k := range s.Spell {
				s.Spell[k] = rapid.IntRange(1, len(c16Spellings)).Draw(rt, "spelling")
			}
		}
		return s
	})
	rcheck(t, "random", V.N(20000, 200000), func(rt *rapid.T) {
		a := c16Asg{
			CallID: genTok.Draw(rt, "callid") + rapid.SampledFrom([]string{"", "@host.test", "@10.1.1.1"}).Draw(rt, "cidhost"),
			TagF:   genTok.Draw(rt, "tagF"), UriF: genURI.Draw(rt, "uriF"),
			TagT: genTok.Draw(rt, "tagT"), UriT: genURI.Draw(rt, "uriT"),
		}
		if rapid.IntRange(0, 4).Draw(rt, "sameuri") == 0 {
			a.UriT = a.UriF
		}
		s1, s2 := genStyle.Draw(rt, "style1"), genStyle.Draw(rt, "style2")
		V.Case(map[string]any{"assignment": a, "style1": s1.String(), "style2": s2.String()})
		id, msg := c16Group(a, []c16Style{s1, s2})
		if msg != "" {
			failf(rt, "%s", msg)
		}
		// single-component edit
		b := a
		which := rapid.IntRange(0, 6).Draw(rt, "edit")
		switch which {
		case 0:
			b.CallID += "x"
		case 1:
			b.TagF += "x"
		case 2:
			b.TagT = "x" + b.TagT
		case 3, 4, 5:
			u := &b.UriF
			if rapid.Bool().Draw(rt, "editTo") {
				u = &b.UriT
			}
			if !c16IsSip(*u) {
				*u = *u + "9"
			} else {
				p := c16Split(*u)
				switch which {
				case 3:
					p.user += "z"
				case 4:
					p.host = "z" + p.host
				default:
					// another port, from anywhere in the range - in particular a second
					// one beyond 32767 / 49151 where the first one is
					np := strconv.Itoa(rapid.SampledFrom([]int{1, 80, 1023, 1024, 4999, 5059, 5061, 5062, 32766, 32767, 32768, 32769, 40000, 49151, 49152, 50000, 60000, 65534, 65535}).Draw(rt, "newport"))
					if np == p.port || (p.port == "" && np == "5060") {
						np = "4998"
					}
					p.port = np
				}
				*u = "sip:"
				if p.user != "" {
					*u += p.user + "@"
				}
				*u += p.host + ":" + p.port
			}
		default:
			// move a '-' across the boundary between identifiers: the classic ambiguities
			switch rapid.IntRange(0, 3).Draw(rt, "dashmove") {
			case 0:
				b.CallID = a.CallID + "-" + a.TagF
				b.TagF = a.TagT
				b.TagT = a.TagF
			case 1:
				a.CallID += "-"
				b.CallID = strings.TrimSuffix(a.CallID, "-")
				b.TagF = "-" + a.TagF
				id, msg = c16Group(a, []c16Style{s1, s2})
				if msg != "" {
					failf(rt, "%s", msg)
				}
			case 2:
				a.TagF += "-"
				b = a
				b.TagF = strings.TrimSuffix(a.TagF, "-")
				b.CallID = a.CallID
				b.TagT = "-" + a.TagT
				id, msg = c16Group(a, []c16Style{s1, s2})
				if msg != "" {
					failf(rt, "%s", msg)
				}
			default:
				a.CallID = "--" + a.CallID
				b.CallID = "-" + strings.TrimPrefix(a.CallID, "--") + "-"
				id, msg = c16Group(a, []c16Style{s1, s2})
				if msg != "" {
					failf(rt, "%s", msg)
				}
			}
		}
		V.Class(fmt.Sprintf("edit:%d", which))
		V.ClassIf(a.UriF == a.UriT, "equal URIs both sides")
		V.NonTrivial(fmt.Sprintf("%v|%d", a, which))
		V.SampleEvery(9000, func() any { return map[string]any{"a": a, "edited": b, "id": id} })
		if !c16DefinitelyDifferent(a, b) {
			return
		}
		s3 := genStyle.Draw(rt, "style3")
		V.Case(map[string]any{"a": a, "b": b, "style1": s1.String(), "style3": s3.String()})
		id2, msg := c16Group(b, []c16Style{s3})
		if msg != "" {
			failf(rt, "%s", msg)
		}
		if id2 == id {
			failf(rt, "different dialogs, same identity %q:\n%+v\n%+v", id, a, b)
		}
	})

	// The identity is a function of the message alone - also when several
	// listeners' loops compute identities at the same time: eight goroutines
	// attribute their own messages over and over and compare with the identity
	// computed beforehand, sequentially.
	t.Run("parallel", func(t *testing.T) {
		if (V.replay && V.only == "") || V.ViolationCount() > 0 {
			return
		}
		const workers = 8
		type item struct{ text, id string }
		sets := make([][]item, workers)
		for w := 0; w < workers; w++ {
			for k := 0; k < 6; k++ {
				a := c16Asg{CallID: fmt.Sprintf("par-%d-%d@host.test", w, k), TagF: fmt.Sprintf("f%d%d", w, k), TagT: fmt.Sprintf("t%d-%d", k, w),
					UriF: fmt.Sprintf("sip:user%d@worker%d.example.com:%d", k, w, 5060+w), UriT: []string{"sip:callee@pbx.example.org", "tel:+1555000" + fmt.Sprint(w), "sip:h" + fmt.Sprint(k) + ".example.net"}[k%3]}
				text := c16Render(a, c16Style{Display: k % 3, UriParams: k%2 == 0, ParamPost: k%2 == 1, Swap: k%2 == 1, Response: k%3 == 0})
				id, err := c16ProductID(text)
				if err != nil || id == "" {
					V.Violation(t, "", text, "no dialog identity for a message with both tags: %v", err)
					return
				}
				sets[w] = append(sets[w], item{text, id})
			}
		}
		var wg sync.WaitGroup
		fails := make([]string, workers)
		rounds := V.N(1500, 20000)
		for w := 0; w < workers; w++ {
			wg.Add(1)
			go func(w int) {
				defer wg.Done()
				for i := 0; i < rounds && fails[w] == ""; i++ {
					it := sets[w][i%len(sets[w])]
					id, err := c16ProductID(it.text)
					if err != nil || id != it.id {
						fails[w] = fmt.Sprintf("while %d goroutines computed dialog identities in parallel, the message\n%s\ngot identity %q (error %v); computed alone it has %q", workers, jsonBytes([]byte(it.text)), id, err, it.id)
					}
				}
			}(w)
		}
		wg.Wait()
		V.EvalN(workers * rounds)
		V.Class("identities computed by 8 goroutines in parallel")
		for _, f := range fails {
			if f != "" {
				V.Violation(t, "", nil, "%s", f)
				return
			}
		}
	})
}
